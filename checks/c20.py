"""C20 — CSV export followed by import reproduces the table.

Lean: RlModel.Thm.C20 (codec round trip for all byte strings; table round trip under explicit
hypotheses; refutations of the full statement).  Correspondence: harness c20 runs COPY … TO and
COPY … FROM of the implementation on generated tables × options and on hand-made CSV texts; the
driver drv_c20 runs the model's writer / reader / cell parsers on the same requests.  Compared:
exported file bytes, imported rows (typed values, never Display), error class.
Oracle (model-free): rows(copy_from(copy_to(t))) == rows(t) as multisets, with the values' own Eq.
"""
import json
import os
from collections import Counter

import vlib

THEOREMS = [
    "csv_codec_roundtrip", "csv_reader_roundtrip", "csv_header_drops_first_record", "csv_file_roundtrip", "copy_to_replaces", "csv_file_roundtrip_any_previous", "reexport_smaller",
    "table_roundtrip_partial", "table_roundtrip_typed",
    "table_roundtrip_full_unsound", "null_cell_old_writer_unsound", "null_cell_regression", "empty_string_unsound", "zero_interval_unsound",
    "escape_option_regression", "blob_column_regression", "header_regression",
]

WHY_SIG = {
    "empty-string": ("csv:empty-string", "the empty string is exported as an empty field and imported as NULL (push_str: empty text = NULL)"),
    "empty-text": ("csv:empty-interval", "the zero interval prints as the empty text and is imported as NULL"),
    "cell-text": ("csv:cell-text-roundtrip", "a cell whose Display text does not parse back to the value (the C19 findings: timestamp with sub-second part or BC year < -9999, blob with backslash/quote, interval with sub-second part)"),
}


def norm(ans):
    """drops why:, sorts imported rows (bag comparison)"""
    out = []
    for x in ans.split(" "):
        if x.startswith("why:"):
            continue
        if x.startswith("import:") and x[7:] not in ("err", "panic", "-", "unmodelled") and not x.startswith("import:create"):
            x = "import:" + ";".join(sorted(x[7:].split(";")))
        out.append(x)
    return " ".join(out)


def field(ans, key):
    for x in ans.split(" "):
        if x.startswith(key + ":"):
            return x[len(key) + 1:]
    return None


def run(ck):
    dist = Counter()
    mvi = Counter()
    ivo = Counter()
    mvo = Counter()
    nontrivial = set()
    bad = vlib.step_lean(ck, "RlModel.Thm.C20", THEOREMS, extra_targets=["drv_c20"])
    ok, log = vlib.step_cargo(ck, ["c20"])
    if not ok:
        ck.report("build:harness", "harness does not build against the repository", replay={"log": log[-2000:]}, found_input=False)
        return ck.finish(level="proof")
    files = []
    cdir = os.path.join(vlib.VERIF, "corpus", "C20")
    if os.path.isdir(cdir):
        files += [os.path.join(cdir, f) for f in sorted(os.listdir(cdir)) if f.endswith(".txt")]
    gen = os.path.join(ck.work, "req.txt")
    vlib.sh([vlib.harness_bin("c20"), "gen", ck.tier, gen])
    files.append(gen)
    total = []
    for f in files:
        (rc1, impl), (rc2, model) = vlib.run_pair(ck, [vlib.harness_bin("c20"), "run", os.path.join(ck.work, "csv")], [vlib.lean_exe("drv_c20")], f)
        reqs = [l for l in open(f).read().split("\n") if l.strip() and not l.startswith("#")]
        impl = [l for l in impl if l != ""]
        model = [l for l in model if l != ""]
        if len(impl) != len(reqs) or len(model) != len(reqs):
            ck.report("run:truncated", "harness (rc %s, %d lines) or driver (rc %s, %d lines) did not answer all %d requests of %s" % (
                rc1, len(impl), rc2, len(model), len(reqs), os.path.basename(f)),
                replay={"file": f, "impl_tail": impl[-2:], "model_tail": model[-2:]}, found_input=False)
            continue
        total += reqs
        for q, i, m in zip(reqs, impl, model):
            kind = q.split(" ", 1)[0]
            t = q.split(" ")
            dist["%s:cols=%d" % (kind, len(t[5].split(",")))] += 1
            dist["opt:delim=%s quote=%s esc=%s header=%s" % (t[1], t[2], t[3], t[4])] += 0  # listed below in compact form
            dist["delim:" + t[1]] += 1
            dist["quote:" + t[2]] += 1
            dist["escape:" + ("yes" if t[3] != "-" else "no")] += 1
            dist["header:" + t[4]] += 1
            for ty in t[5].split(","):
                dist["type:" + ty] += 1
            dist["optset:%s%s%s%s" % ("D" if t[1] != "44" else "-", "Q" if t[2] != "34" else "-", "E" if t[3] != "-" else "-", "H" if t[4] == "1" else "-")] += 1
            if kind == "tbl" and t[2] != "34":
                cells = [c for r_ in t[6].split(";") for c in r_.split(",") if c.startswith("s:")]
                hq = "%02x" % int(t[2])
                hd = "%02x" % int(t[1])
                def has(c, h):
                    b = c[2:]
                    return any(b[k:k + 2] == h for k in range(0, len(b), 2))
                if any(has(c, "22") for c in cells):
                    dist["str:dquote-under-other-QUOTE"] += 1
                if any(has(c, "22") and (has(c, hd) or has(c, hq) or has(c, "0a")) for c in cells):
                    dist["str:dquote-in-quoted-field-under-other-QUOTE"] += 1
            unmod = m.startswith("unmodelled") or "import:unmodelled" in m
            if i.startswith(("create-failed", "load-failed", "harness-panic", "file:missing")):
                ck.report("harness:" + i.split(":")[0], "harness could not set the case up: %s -> %s" % (q[:200], i[:200]), replay={"request": q, "impl": i}, found_input=False)
                continue
            if kind == "imp":
                dist["imp-outcome:" + ("rows" if i[7:] not in ("err", "panic", "-") else i[7:])] += 1
                if unmod:
                    dist["imp-unmodelled"] += 1
                    continue
                mvi["compared"] += 1
                if norm(i) != norm(m):
                    mvi["disagree"] += 1
                    cls = lambda a: a[7:] if a[7:] in ("err", "panic", "-") else "rows"
                    ck.report("corr:import:impl=%s,model=%s" % (cls(i), cls(m)), "model and implementation disagree on COPY FROM of a given text: %s" % q[:300], replay={"request": q, "impl": i, "model": m})
                elif i[7:] not in ("err", "panic", "-"):
                    nontrivial.add(q)
                continue
            # ---- tbl
            if unmod:
                # the model cannot judge a number text that came back changed: the file bytes are
                # still compared; a failed round trip can then not be attributed to anything
                dist["tbl-import-unmodelled"] += 1
                if m.startswith("unmodelled") or field(i, "file") != field(m, "file"):
                    mvi["disagree"] += 1
                    ck.report("corr:export-bytes", "model and implementation disagree (file bytes / request not understood) on %s" % q[:300],
                              replay={"request": q, "impl": i[:3000], "model": m[:3000]})
                if field(i, "rt") != "true":
                    ck.report("roundtrip:unexplained:unmodelled-text", "table does not survive COPY TO + COPY FROM and the model cannot predict the result: %s -> %s" % (q[:300], i[-160:]),
                              replay={"request": q, "impl": i[:3000], "model": m[:3000]})
                continue
            mvi["compared"] += 1
            mvo["compared"] += 1
            exact = norm(i) == norm(m)      # file bytes, imported rows / error class, rt flag
            if not exact:
                mvi["disagree"] += 1
                what = "file bytes" if field(i, "file") != field(m, "file") else "imported rows"
                ck.report("corr:" + ("export-bytes" if what == "file bytes" else "import-rows"),
                          "model and implementation disagree (%s) on %s" % (what, q[:300]), replay={"request": q, "impl": i[:3000], "model": m[:3000]})
            # ---- oracle on the implementation
            ivo["compared"] += 1
            if field(i, "rt") == "true":
                if q.split(" ")[6] != "-":
                    nontrivial.add(q)
                continue
            ivo["disagree"] += 1
            # A known finding absorbs a failed round trip ONLY when the model (which encodes the known
            # defects) predicts exactly what was observed: same file bytes, same imported rows.
            why = field(m, "why")
            if exact and why in WHY_SIG:
                sig, what = WHY_SIG[why]
                dist["finding:" + sig] += 1
                ck.report(sig, what + " — e.g. %s" % q[:200], replay={"request": q, "impl": i[:2000], "model": m[:2000]})
            else:
                dist["unexplained-roundtrip-failure"] += 1
                ck.report("roundtrip:unexplained:" + ("model-differs" if not exact else "no-mechanism"),
                          "table does not survive COPY TO + COPY FROM and the model of the known defects does not predict the observed result: %s -> %s (model: %s)" % (
                              q[:300], i[-160:], m[-160:]), replay={"request": q, "impl": i[:3000], "model": m[:3000]})
    ck.log("correspondence: %d requests, model_vs_impl %s, impl_vs_oracle %s" % (len(total), dict(mvi), dict(ivo)))
    for name, st in bad.items():
        ck.report("thm:" + name, "theorem %s is not discharged (%s); the export/import oracle ran on %d generated cases" % (name, st.get("status"), len(total)),
                  replay={"theorem": name, "status": st}, found_input=False)
    ck.coverage.update({
        "evaluations": len(total),
        "distinct_nontrivial": len(nontrivial),
        "rule": "distinct requests that are non-trivial: tables with >= 1 row that survive export+import on the implementation, and given CSV texts that import at least one row",
        "samples": [q[:300] for q in total[:3]] + [q[:300] for q in total if q.startswith("imp")][:2],
        "model_vs_impl": {"compared": mvi["compared"], "disagree": mvi["disagree"]},
        "impl_vs_oracle": {"compared": ivo["compared"], "disagree": ivo["disagree"], "note": "disagreements are the recorded known findings unless a VIOLATION is printed"},
        "model_vs_oracle": {"compared": mvo["compared"], "disagree": mvo["disagree"]},
        "distribution": {k: v for k, v in sorted(dist.items()) if v},
    })
    return ck.finish(level="proof",
                     checker_cmd="lake build RlModel.Thm.C20 drv_c20 && #print axioms audit",
                     trusted_base=[
                         "Lean 4.33 kernel (axioms: propext, Classical.choice, Quot.sound)",
                         "rlverif c20 harness and its generator (tables x options, hand-made CSV texts)",
                         "modelled, validated differentially rather than verified: csv / csv-core writer and reader (QuoteStyle::Necessary, NFA of reader.rs), CopyTo/CopyFrom executors, get_to_string/push_str",
                         "cell text model = C19's (f64 and decimal columns: oracle only); options restricted to ASCII bytes",
                     ])


def replay(path):
    d = json.load(open(path))
    print(json.dumps(d, indent=1)[:3000])
    q = (d.get("replay") or {}).get("request")
    if not q:
        return 0
    ck = vlib.Check("C20")
    vlib.step_cargo(ck, ["c20"])
    rc, out = vlib.sh([vlib.harness_bin("c20"), "one", ck.work] + q.split(" "))
    print("implementation now answers:", out.strip()[:2000])
    rc, out2 = vlib.sh([vlib.lean_exe("drv_c20")], stdin=q + "\n")
    print("model answers:            ", out2.strip()[:2000])
    return 0
