"""Template check (not a listed property).  Shape every checks/cNN.py follows:
   1. (translator, if the property has one)  2. Lean obligations  3. build harness from /repo
   4. corpus + generated correspondence run  5. decide, report, evidence."""
import os
import vlib

THEOREMS = ["demo_cmp_i32", "demo_cmp_null_lowest"]


def run(ck):
    n = 300 if ck.quick() else 20000
    # 2. Lean: theorems + driver
    bad = vlib.step_lean(ck, "RlModel.Thm.Demo", THEOREMS, extra_targets=["drv_demo"])
    for name, st in bad.items():
        # no concrete failing input known yet -> a search would go here; none found:
        ck.report("thm:" + name, "theorem %s no longer checks: %s" % (name, st), replay={"theorem": name, "status": st}, found_input=False)
    # 3. harness
    ok, log = vlib.step_cargo(ck, ["demo"])
    if not ok:
        ck.report("build:harness", "harness does not build against /repo", replay={"log": log[-2000:]}, found_input=False)
        return ck.finish(level="proof")
    # 4. correspondence
    req = os.path.join(ck.work, "req.txt")
    vlib.sh([vlib.harness_bin("demo"), "gen", str(n), req])
    (rc1, impl), (rc2, model) = vlib.run_pair(ck, [vlib.harness_bin("demo"), "run"], [vlib.lean_exe("drv_demo")], req)
    reqs = [l for l in open(req).read().split("\n") if l]
    mism = [(q, i, m) for q, i, m in zip(reqs, impl, model) if i != m]
    distinct = len(set(reqs))
    for q, i, m in mism[:1]:
        ck.report("corr:cmp", "model and implementation disagree on %s: impl=%s model=%s" % (q, i, m), replay={"request": q, "impl": i, "model": m})
    ck.coverage.update({
        "evaluations": len(reqs), "distinct_nontrivial": distinct,
        "rule": "random value pairs from boundary domains; distinct = distinct request lines",
        "samples": reqs[:5], "model_vs_impl": {"compared": len(reqs), "disagree": len(mism)},
    })
    return ck.finish(level="proof", trusted_base=["Lean 4 kernel", "rlverif demo harness"])


def replay(path):
    print(open(path).read())
    return 0
