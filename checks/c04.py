"""C04 — a crash at any instant leaves a recoverable, atomic, durable database.

1. Lean: theorems of Thm/C04.lean over the persistence-step model (Model/StoreCrash.lean) + driver.
2. Harness c04 (hooks persist.*): every workload runs once with a recorder that snapshots the
   database directory at every persistence point; every point and byte prefixes of the write in
   flight become directory images that are reopened (panics caught), dumped, classified against
   the acknowledged prefix, given follow-up INSERT/DELETE/SELECT, and crashed again inside that
   recovery.
3. Comparisons
   model_vs_impl : (a) the list of persistence steps of every statement (directories, files,
                   manifest records, tmp/rename) predicted by the model vs observed; (b) the
                   verdict pre|post|open-fails of every crash image; (c) orphan-DV prediction vs
                   follow-up DELETE; (d) recovery idempotence.
   impl_vs_oracle: model-free — reopen succeeds, content = acknowledged prefix or + interrupted
                   statement, follow-ups succeed, a crash inside recovery recovers to the same content.
   model_vs_oracle: the model's verdicts against the same oracle (pre/post only, no open-fails).
"""
import collections
import json
import os
import re

import vlib

THEOREMS = [
    "replay_append_prefix", "replay_append_txn",
    "crash_atomic", "crash_atomic_partial", "crash_atomic_torn_regression",
    "crash_durable", "recover_idempotent_partial",
    "recover_after_rename", "recover_idempotent", "recover_recover", "recover_clears_shadow",
    "vacuum_crash_harmless",
    "lost_rename_right_after_rename", "lost_rename_after_recovery", "lost_rename_regression",
    "post_recovery_accepts_insert", "post_recovery_accepts_dv", "post_recovery_accepts_regression",
]

CORPUS = os.path.join(vlib.VERIF, "corpus", "C04", "workloads.txt")
TABLE_RECS = ("createtable", "droptable")


def canon_recs(s, dvmap=None):
    recs = [r for r in s.split(",") if r]
    out = []
    for r in recs:
        f = r.split(":")
        if dvmap and f[0] in ("adddv", "deletedv"):
            key = (f[1], f[2], f[3])
            f[3] = dvmap.get(key, f[3])
            r = ":".join(f)
        out.append(r)
    mid = out[1:-1] if len(out) >= 2 else []
    tab = [r for r in mid if r.split(":")[0] in TABLE_RECS]
    oth = sorted(r for r in mid if r.split(":")[0] not in TABLE_RECS)
    return ",".join(out[:1] + oth + tab + (out[-1:] if len(out) >= 2 else []))


def canon_impl_steps(steps, dvmap):
    """steps: observed change strings of one statement.  Updates dvmap (real dv id -> canonical)."""
    dv_creates = []
    for s in steps:
        m = re.match(r"create dv/(\d+)_(\d+)_(\d+)\.dv", s)
        if m:
            dv_creates.append(m.groups())
    if dv_creates:
        base = min(int(x[2]) for x in dv_creates)
        for rank, (t, r, d) in enumerate(sorted(dv_creates, key=lambda x: (int(x[0]), int(x[1])))):
            dvmap[(t, r, d)] = str(base + rank)
    out = []
    for s in steps:
        t = s.split()
        if t[0] == "create":
            m = re.match(r"dv/(\d+)_(\d+)_(\d+)\.dv", t[1])
            if m:
                t[1] = "dv/%s_%s_%s.dv" % (m.group(1), m.group(2), dvmap.get(m.groups(), m.group(3)))
            out.append("create " + t[1])
        elif t[0] == "truncate":
            out.append("create " + t[1])
        elif t[0] == "other" and t[1] == "unlink":
            m = re.match(r"dv/(\d+)_(\d+)_(\d+)\.dv", t[2])
            name = t[2]
            if m:
                name = "dv/%s_%s_%s.dv" % (m.group(1), m.group(2), dvmap.get(m.groups(), m.group(3)))
            out.append("unlink " + name)
        elif t[0] == "append":
            recs = s.split(" recs ")[1].split(" lens ")[0] if " recs " in s else ""
            out.append("append %s %s" % (t[1], canon_recs(recs, dvmap)))
        else:
            out.append(s)
    return sort_dv_runs(out)


def sort_dv_runs(steps):
    out, run = [], []
    for s in steps + [None]:
        if s is not None and (s.startswith("create dv/") or s.startswith("rmdir ") or s.startswith("unlink dv/")):
            run.append(s)
        else:
            out += sorted(run)
            run = []
            if s is not None:
                out.append(s)
    return out


def canon_model_steps(steps):
    out = []
    for s in steps:
        if s == "mkdir ." or s == "syncdir" or not s:
            continue    # (the directory fsync changes nothing the snapshots can see)
        t = s.split()
        if t[0] == "append":
            out.append("append %s %s" % (t[1], canon_recs(t[2] if len(t) > 2 else "")))
        else:
            out.append(s)
    return sort_dv_runs(out)


def parse_model(lines):
    """-> {"steps": {i: [..]}, "V": {(i,k): (verdict, orph, rr)}, "P":…, "C": {(i,k,c):…}, "T": {(i,k): verdict}}"""
    m = {"steps": {}, "V": {}, "P": {}, "C": {}, "T": {}, "L": {}}
    for l in lines:
        t = l.split(" ")
        if t[0] == "S":
            m["steps"][int(t[1])] = " ".join(t[2:]).split(";")
        elif t[0] in ("V", "P"):
            m[t[0]][(int(t[1]), int(t[2]))] = (t[4], t[5], t[6])
        elif t[0] == "C":
            m["C"][(int(t[1]), int(t[2]), int(t[3]))] = (t[4], t[5], t[6])
        elif t[0] == "L":
            m["L"][int(t[1])] = t[2]
        elif t[0] == "T":
            m["T"][(int(t[1]), int(t[2]))] = (t[3], "-", "-")
    return m


def cut_at(lens, j):
    c = 0
    for l in lens:
        if j == 0:
            return c, False
        if j < l:
            return c, True
        j -= l
        c += 1
    return c, False


def model_for_image(img, m):
    i, k = img["stmt"], img["k"]
    if i == -1 and m["steps"].get(-1, [""])[0] == "mkdir .":
        k += 1      # the recorder's first snapshot is taken after the database directory exists
    nonnone = [c for c in img["changes"] if c != "none"]
    if img["kind"] in ("at-point", "rmdir-partial"):
        return m["V"].get((i, k))
    idx = 0
    for n, c in enumerate(nonnone):
        if c.split()[1] == img["file"] and c.split()[0] in ("create", "append"):
            idx = n
    if img["kind"] == "create-prefix":
        return m["P"].get((i, k + idx))
    if img["kind"] == "append-prefix":
        old = 0
        for c in nonnone:
            t = c.split()
            if t[0] == "append" and t[1] == img["file"]:
                old = int(t[2])
        lens = [int(x) for x in img["detail"].split(",") if x.isdigit()]
        c, torn = cut_at(lens, img["j"] - old)
        if torn:
            return m["T"].get((i, k + idx))
        return m["C"].get((i, k + idx, c))
    return None


def oracle(img, model_reason=""):
    """Model-free verdict on one crash image -> [(sig, what)].  `model_reason` (the model's reason
    tag for an open failure) only selects the signature of a failure the implementation showed."""
    out = []
    where = "%s of `%s` (%s%s)" % (img["name"], img["sql"], img["kind"], (" %s byte %d/%d" % (img["file"], img["j"], img["len"])) if img["file"] else "")
    if img["class"] != "ok":
        if img["kind"] == "append-prefix" and img["file"] == "manifest.json" and "JsonDecode" in img["msg"] and "EOF" in img["msg"]:
            out.append(("crash:torn-manifest-append", "manifest.json cut inside a JSON record (%s): reopen fails with %s — database unopenable" % (where, img["msg"].split("\n")[0][:90])))
        elif "dv-of-dropped-table" in model_reason and "unwrap" in img["msg"]:
            out.append(("crash:stale-dv-of-dropped-table", "reopen after a crash at %s panics (%s): the manifest still holds an AddDV of a dropped table (compaction never logs DeleteDV; DROP TABLE only deletes DVs of live row-sets)" % (where, img["msg"][:60])))
        else:
            out.append(("crash:open-fails/%s" % img["name"], "reopen after a crash at %s fails: %s %s" % (where, img["class"], img["msg"][:120])))
        return out
    if img["verdict"] == "other":
        out.append(("crash:not-atomic/%s" % img["name"], "after a crash at %s the database shows neither the acknowledged prefix nor prefix + statement: %s" % (where, img["dump"])))
    for sql, cls, msg in img["followups"]:
        if cls != "ok":
            if sql.startswith("delete") and "AlreadyExists" in msg and img.get("orphan_dv"):
                out.append(("crash:orphan-dv-path-reuse", "after recovery from a crash at %s, `%s` fails with AlreadyExists: the delete-vector file left by the interrupted DELETE is never vacuumed and its id is issued again" % (where, sql)))
            else:
                out.append(("crash:post-recovery-rejects/%s" % sql.split()[0], "after recovery from a crash at %s, `%s` fails: %s" % (where, sql, msg[:100])))
    for rr in img["recrash"]:
        if rr["class"] != "ok" or not rr["same"]:
            out.append(("crash:recovery-not-idempotent/%s" % rr["at"].split()[0], "crash at %s, then a crash inside recovery at %s: second recovery %s" % (where, rr["at"], "fails: " + rr["msg"][:80] if rr["class"] != "ok" else "shows different content")))
    return out


def run_workloads(ck, path, tag, thorough):
    out = os.path.join(ck.work, "out-%s.jsonl" % tag)
    rc, log = vlib.sh([vlib.harness_bin("c04"), "run", path, out, os.path.join(ck.work, "db-" + tag)] + (["thorough"] if thorough else []), timeout=6000)
    if rc != 0 or not os.path.exists(out):
        ck.report("harness:c04-run", "harness run failed: %s" % log[-800:], replay={"log": log[-3000:]}, found_input=False)
        return [], {}
    recs = [json.loads(l) for l in open(out) if l.strip()]
    lines = [l.split("\t")[0] for l in open(path).read().split("\n") if l.strip() and not l.startswith("#")]
    rc2, ans = vlib.sh([vlib.lean_exe("drv_c04")], stdin="\n".join(lines) + "\n", timeout=3000)
    models, cur = {}, []
    wid = 0
    for l in ans.split("\n"):
        if l == "E":
            models[wid] = parse_model(cur)
            wid += 1
            cur = []
        elif l:
            cur.append(l)
    for r in recs:
        r["src"] = tag
    return recs, models


def run(ck):
    quick = ck.quick()
    bad = vlib.step_lean(ck, "RlModel.Thm.C04", THEOREMS, extra_targets=["drv_c04"])
    ok, log = vlib.step_cargo(ck, ["c04"])
    if not ok:
        ck.report("build:harness", "harness does not build against the repository", replay={"log": log[-2000:]}, found_input=False)
        return ck.finish(level="proof")

    gen = os.path.join(ck.work, "workloads.txt")
    vlib.sh([vlib.harness_bin("c04"), "gen", str(3 if quick else 20), gen])
    batches = []
    if os.path.exists(CORPUS):
        batches.append(run_workloads(ck, CORPUS, "corpus", False))   # corpus: sampled prefixes in both tiers
    batches.append(run_workloads(ck, gen, "gen", not quick))

    mvi = {"compared": 0, "disagree": 0, "steps_compared": 0, "steps_disagree": 0}
    ivo = {"compared": 0, "disagree": 0, "known": 0}
    mvo = {"compared": 0, "disagree": 0}
    dist = {"points": collections.Counter(), "kinds": collections.Counter(), "verdicts": collections.Counter(),
            "stmt_kinds": collections.Counter(), "lost_rename": collections.Counter(), "recrash": 0, "followups": collections.Counter(), "workloads": 0, "skipped": 0}
    nontrivial = set()
    samples = []
    first = None
    for recs, models in batches:
        dvmaps = {}
        for r in recs:
            if r["type"] == "skip":
                dist["skipped"] += 1
                continue
            if r["type"] == "reopen-fails":
                # a clean shutdown + reopen that fails: the model must predict it, and it is a finding
                m = models.get(r["workload"])
                mv = (m or {"V": {}})["V"].get((r["stmt"], 0), ("?",))[0]
                ivo["compared"] += 1
                ivo["disagree"] += 1
                mvi["compared"] += 1
                sig = "crash:stale-dv-of-dropped-table" if "dv-of-dropped-table" in mv and "unwrap" in r["msg"] else "crash:clean-reopen-fails"
                st = ck.report(sig, "after `%s` a clean reopen fails (%s: %s): compaction never logs DeleteDV for the row-sets it removes and DROP TABLE only deletes the delete vectors of live row-sets, so the manifest keeps an AddDV of the dropped table and bootstrap unwraps a missing table" % ("; ".join(r["stmts"][:r["stmt"]]), r["class"], r["msg"][:80]),
                               replay={"stmts": r["stmts"], "failing_reopen_at": r["stmt"], "msg": r["msg"], "model": mv})
                if st == "known":
                    ivo["known"] += 1
                if not mv.startswith("open-fails"):
                    mvi["disagree"] += 1
                    first = first or ("clean reopen fails on the implementation, model says %s" % mv, {"stmts": r["stmts"]})
                continue
            m = models.get(r["workload"])
            if m is None:
                first = first or ("no model answer for workload %s" % r["workload"], r)
                continue
            if r["type"] == "workload":
                dist["workloads"] += 1
                dvmap = dvmaps.setdefault(r["workload"], {})
                for s in r["stmts"]:
                    dist["stmt_kinds"][s.split()[0].lower()] += 1
                n = len(r["stmts"])
                for i in range(-1, n):
                    impl = canon_impl_steps(r["steps"].get(str(i), []), dvmap)
                    mod = canon_model_steps(m["steps"].get(i, []))
                    mvi["steps_compared"] += 1
                    if impl != mod:
                        mvi["steps_disagree"] += 1
                        first = first or ("persistence steps of statement %d (`%s`) differ: impl=%s model=%s" % (i, r["stmts"][i] if i >= 0 else "BOOT", impl, mod), {"workload": r["model_ops"], "stmts": r["stmts"]})
                # the un-fsynced rename, lost after later statements were acknowledged
                for lr in r.get("lost_rename", []):
                    ml = m["L"].get(lr["stmt"])
                    impl = "same" if lr["same"] else ("lost" if lr["class"] == "ok" else "open-fails")
                    mvi["compared"] += 1
                    dist["lost_rename"][impl] += 1
                    if ml is not None and ml.split(":")[0] != impl:
                        mvi["disagree"] += 1
                        first = first or ("lost-rename image after statement %d: impl=%s model=%s" % (lr["stmt"], impl, ml), {"workload": r["model_ops"], "stmts": r["stmts"]})
                    if impl != "same":
                        ivo["compared"] += 1
                        ivo["disagree"] += 1
                        st = ck.report("crash:lost-rename-loses-acked-statements",
                                       "bootstrap renames manifest.tmp.json over manifest.json and never fsyncs the directory; later statements are appended (and fsynced) to that file. On a file system that drops the un-synced rename at a crash, manifest.json is the old file and everything acknowledged since the last open is in manifest.tmp.json, which the next boot truncates: after `%s` the image (old manifest.json + current one as manifest.tmp.json) reopens to %s" % ("; ".join(r["stmts"][:lr["stmt"] + 1]), lr["dump"]),
                                       replay={"stmts": r["stmts"][:lr["stmt"] + 1], "dump": lr["dump"], "note": "image synthesised from real snapshots under the assumption that the file system loses the un-fsynced rename"})
                        if st == "known":
                            ivo["known"] += 1
                if any(o != "ok" for o in r["outcomes"]):
                    first = first or ("a workload statement failed in the recording run: %s" % list(zip(r["stmts"], r["outcomes"])), {"workload": r["model_ops"], "stmts": r["stmts"]})
                continue
            # image
            img = r
            dist["points"][img["name"]] += 1
            dist["kinds"][img["kind"]] += 1
            dist["verdicts"][img["verdict"]] += 1
            dist["recrash"] += len(img["recrash"])
            for f in img["followups"]:
                dist["followups"][f[0].split()[0] + ":" + f[1]] += 1
            nontrivial.add((img["src"], img["workload"], img["point"], img["kind"], img["j"]))
            # ---- oracle
            ivo["compared"] += 1
            mv = model_for_image(img, m)
            viol = oracle(img, mv[0] if mv else "")
            if viol:
                ivo["disagree"] += 1
            replay = {"workload_file_line": img["workload"], "src": img["src"], "stmt": img["stmt"], "sql": img["sql"], "point": img["point"],
                      "name": img["name"], "kind": img["kind"], "file": img["file"], "j": img["j"], "len": img["len"],
                      "class": img["class"], "msg": img["msg"][:300], "dump": img["dump"], "followups": img["followups"], "recrash": img["recrash"][:5]}
            for sig, what in viol:
                st = ck.report(sig, what, replay=replay)
                if st == "known":
                    ivo["known"] += 1
            # ---- model vs impl
            mvi["compared"] += 1
            d = []
            if mv is None:
                d.append("no model verdict for stmt %s k %s kind %s" % (img["stmt"], img["k"], img["kind"]))
            else:
                mverd = mv[0].split(":")[0]
                if mverd != img["verdict"]:
                    d.append("verdict impl=%s model=%s" % (img["verdict"], mv[0]))
                del_err = any(f[0].startswith("delete") and f[1] != "ok" for f in img["followups"])
                if del_err and mv[1] == "0":
                    d.append("follow-up DELETE fails but the model sees no orphan delete vector")
                if mv[2] == "same" and any(rr["class"] != "ok" or not rr["same"] for rr in img["recrash"]):
                    d.append("model: recovery idempotent here; impl: not")
                # model vs oracle
                mvo["compared"] += 1
                if mverd in ("other",):
                    mvo["disagree"] += 1
            if d:
                mvi["disagree"] += 1
                first = first or ("; ".join(d) + " at %s of `%s` (%s %s j=%s)" % (img["name"], img["sql"], img["kind"], img["file"], img["j"]), replay)
            if len(samples) < 6 and img["kind"] != "at-point":
                samples.append({k: img[k] for k in ("sql", "name", "kind", "file", "j", "len", "class", "verdict")} | {"model": mv[0] if mv else None})

    if first:
        what, rep = first
        ck.report("corr:crash-model", "persistence-step model and implementation disagree: " + what, replay=rep, found_input=False)
    for name, st in bad.items():
        ck.report("thm:" + name, "theorem %s no longer checks: %s" % (name, st), replay={"theorem": name, "status": st}, found_input=False)

    ck.coverage.update({
        "evaluations": ivo["compared"] + dist["recrash"] + mvi["steps_compared"],
        "distinct_nontrivial": len(nontrivial),
        "rule": "distinct crash images (workload, persistence point, byte prefix of the write in flight) that were reopened; every one is non-trivial (a real directory image reopened by SecondaryStorage::open)",
        "samples": samples,
        "model_vs_impl": mvi, "impl_vs_oracle": ivo, "model_vs_oracle": mvo,
        "distribution": {k: (dict(v) if hasattr(v, "items") else v) for k, v in dist.items()},
    })
    return ck.finish(level="proof", trusted_base=[
        "Lean 4 kernel", "rlverif c04 harness + persist.* hooks (directory snapshots at hook points; byte-prefix images built from them)",
        "file-system model: per-file prefix-atomic writes, atomic mkdir/rename, fsync = identity (no reordering of un-synced writes)",
        "serde_json stream-deserializer behaviour on a truncated manifest (checked on every append prefix)"])


def replay(path):
    d = json.load(open(path))
    print(json.dumps(d, indent=1))
    return 0
