"""C14, DATE ± INTERVAL stream.  Model: lean/RlModel/Model/DateArith.lean (`addInterval`, the code of
`impl Add<Interval> for Date` as it is), theorems lean/RlModel/Thm/C14Date.lean (the code's month arithmetic IS
the SQL rule, for every date and interval; the day exists in the resulting month; no `assert!` on the month).
Correspondence: the same (date, interval) pairs go through the real kernels — a DATE column of several chunks
plus / minus an INTERVAL literal, vectorised, optimizer off and on, and the constant-folded form
`date '…' + interval '…'` — via the c01 SQL harness, and through the compiled driver `drv_c14date`; the day
numbers must be equal.  This also compares the model's civil-date conversions with chrono's (the DATE literal
is parsed by chrono, the result printed as a day number)."""
import json
import os
import random
import subprocess

import vlib

THEOREMS = ["DateArith.tdiv_tmod_12", "DateArith.carry_eq_floor", "DateArith.addMonthsCivil_eq_spec", "DateArith.addMonthsCivil_some",
            "DateArith.monthDays_ge", "DateArith.addMonths_day_valid", "DateArith.addMonthsSpec_years", "DateArith.civilFromDays_month",
            "DateArith.civilFromDays_day_pos", "DateArith.addInterval_month_ok", "DateArith.addInterval_isSome", "DateArith.daysFromCivil_succ", "DateArith.clampFirst_ne_spec"]

EDGE_DATES = [(2023, 12, 31), (2024, 1, 31), (2024, 2, 29), (2023, 2, 28), (2023, 3, 31), (2024, 3, 31), (1999, 12, 31), (2000, 1, 1),
              (2000, 2, 29), (1900, 2, 28), (1900, 3, 1), (2100, 1, 31), (2099, 12, 30), (1970, 1, 1), (1969, 12, 31), (2023, 10, 31),
              (2023, 11, 30), (2024, 12, 31), (2023, 1, 29), (2023, 1, 30), (2020, 2, 29), (2019, 11, 30), (2023, 8, 31), (1996, 2, 29)]
MDAYS = [31, 28, 31, 30, 31, 30, 31, 31, 30, 31, 30, 31]


def gen_dates(rng, n):
    out = list(EDGE_DATES)
    while len(out) < n:
        y = rng.choice([1900, 1999, 2000, 2001, 2019, 2020, 2023, 2024, 2025, 2100, rng.randrange(1901, 2100)])
        m = rng.randrange(1, 13)
        leap = y % 4 == 0 and (y % 100 != 0 or y % 400 == 0)
        last = MDAYS[m - 1] + (1 if m == 2 and leap else 0)
        d = rng.choice([1, 15, 28, last, last, max(1, last - 1), rng.randrange(1, last + 1)])
        out.append((y, m, d))
    rng.shuffle(out)
    return out[:n]


def gen_intervals(rng, n):
    """(sql fragment, months, days, sign)"""
    fixed = [("month", k) for k in (0, 1, 2, 3, 10, 11, 12, 13, 14, 23, 24, 25, 36, 120)] + [("year", k) for k in (1, 4, 100)] + \
            [("day", k) for k in (0, 1, 28, 29, 30, 31, 59, 60, 365, 366, 1461)]
    out = []
    for unit, k in fixed:
        for sign in ("+", "-"):
            out.append((unit, k, sign))
    while len(out) < n:
        unit = rng.choice(["month", "month", "month", "year", "day"])
        k = rng.randrange(0, 60) if unit == "month" else rng.randrange(0, 30) if unit == "year" else rng.randrange(0, 4000)
        out.append((unit, k, rng.choice(["+", "-"])))
    rng.shuffle(out)
    return out[:n]


def run(ck, stages=""):
    """returns (stats, [violation dict])"""
    rng = random.Random(ck.seed * 104729 + 14)
    ndates, nint = (40, 36) if ck.quick() else (160, 160)
    dates = gen_dates(rng, ndates)
    ints = gen_intervals(rng, nint)
    setup = ["create table dt(i int, d date)"]
    # several INSERTs = several chunks; one NULL date
    for c in range(0, len(dates), 16):
        setup.append("insert into dt values " + ", ".join("(%d, date '%04d-%02d-%02d')" % (c + j, y, m, d) for j, (y, m, d) in enumerate(dates[c:c + 16])))
    setup.append("insert into dt values (%d, NULL)" % len(dates))
    queries, meta = [], []
    for unit, k, sign in ints:
        sql = "select i, d %s interval '%d' %s from dt" % (sign, k, unit)
        for opt in ("off", "on"):
            queries.append({"sql": sql, "opt": opt})
            meta.append(("col", unit, k, sign, None, sql, opt))
    # the constant-folded form, a few dates per interval
    for unit, k, sign in ints[:max(8, len(ints) // 3)]:
        for (y, m, d) in rng.sample(dates, 3):
            sql = "select date '%04d-%02d-%02d' %s interval '%d' %s" % (y, m, d, sign, k, unit)
            queries.append({"sql": sql, "opt": "on"})
            meta.append(("const", unit, k, sign, (y, m, d), sql, "on"))
    req = {"id": "date", "engine": "mem", "setup": setup, "queries": queries}
    path = os.path.join(ck.work, "date.jsonl")
    open(path, "w").write(json.dumps(req) + "\n")
    env = dict(vlib.ENV)
    env["VERIF_STAGES"] = stages
    out = subprocess.run([vlib.harness_bin("c01"), "sql", path], env=env, capture_output=True, text=True).stdout
    stats = {"dates": len(dates), "intervals": len(ints), "compared": 0, "disagree": 0, "impl_errors": 0, "null_rows": 0,
             "units": {}}
    viol = []
    try:
        a = json.loads(out.strip().split("\n")[0])
    except (ValueError, IndexError):
        return stats, [{"sig": "machinery:date-harness", "what": "the SQL harness gave no answer for the date stream: %s" % out[:200], "replay": {"request": req}, "found": False}]
    if not a.get("setup_ok") or len(a.get("results", [])) != len(queries):
        return stats, [{"sig": "machinery:date-harness", "what": "date stream: setup failed or answers missing (%s)" % a.get("setup_msg", "")[:200], "replay": {"request": req}, "found": False}]

    def mk(unit, k, sign):
        months = k if unit == "month" else 12 * k if unit == "year" else 0
        days = k if unit == "day" else 0
        return ("add" if sign == "+" else "sub"), months, days
    # model lines
    lines, where = [], []
    for qi, (kind, unit, k, sign, dt, sql, opt) in enumerate(meta):
        op, months, days = mk(unit, k, sign)
        r = a["results"][qi]
        if r["class"] != "ok":
            rows = None
        else:
            rows = r["rows"]
        if kind == "col":
            for i, (y, m, d) in enumerate(dates):
                lines.append("%s %d %d %d %d %d" % (op, y, m, d, months, days))
                where.append((qi, i))
        else:
            y, m, d = dt
            lines.append("%s %d %d %d %d %d" % (op, y, m, d, months, days))
            where.append((qi, None))
    mo = subprocess.run([vlib.lean_exe("drv_c14date")], input="\n".join(lines) + "\n", capture_output=True, text=True).stdout.split("\n")
    if len([l for l in mo if l.strip()]) != len(lines):
        return stats, [{"sig": "machinery:date-driver", "what": "drv_c14date answered %d of %d lines" % (len([l for l in mo if l.strip()]), len(lines)), "replay": {}, "found": False}]
    seen = set()
    for (qi, i), ml in zip(where, mo):
        kind, unit, k, sign, dt, sql, opt = meta[qi]
        r = a["results"][qi]
        stats["units"][unit] = stats["units"].get(unit, 0) + 1
        if r["class"] != "ok":
            impl = "fails:" + r["class"]
            stats["impl_errors"] += 1
        elif i is None:
            impl = r["rows"][0][0] if r["rows"] else "no-row"
        else:
            byi = {row[0]: row[1] for row in r["rows"]}
            impl = byi.get("i32:%d" % i, "row-missing")
        stats["compared"] += 1
        model = ml.strip()
        if model == "panic":
            agree = impl.startswith("fails:")
        else:
            agree = impl == model
        if not agree:
            stats["disagree"] += 1
            key = (unit, sign, opt, kind)
            if key in seen:
                continue
            seen.add(key)
            y, m, d = dt if dt else dates[i]
            viol.append({"sig": "corr+prop:date-%s-interval:%s" % ("plus" if sign == "+" else "minus", unit),
                         "what": "DATE %s INTERVAL: `%s` (optimizer %s) gives %s for %04d-%02d-%02d, the model of the code — proved to be the SQL rule (addMonthsCivil_eq_spec) — gives %s" % (
                             sign, sql, opt, impl, y, m, d, model),
                         "replay": {"setup": setup, "sql": sql, "opt": opt, "date": [y, m, d], "impl": impl, "model": model,
                                    "requests": [{"id": "replay", "engine": "mem", "setup": setup, "queries": [{"sql": sql, "opt": opt}]}]},
                         "found": True})
    # the NULL date stays NULL
    for qi, (kind, unit, k, sign, dt, sql, opt) in enumerate(meta):
        r = a["results"][qi]
        if kind == "col" and r["class"] == "ok":
            byi = {row[0]: row[1] for row in r["rows"]}
            stats["null_rows"] += 1
            if byi.get("i32:%d" % len(dates)) != "null":
                viol.append({"sig": "prop:date-null", "what": "`%s`: the NULL date does not stay NULL (%s)" % (sql, byi.get("i32:%d" % len(dates))),
                             "replay": {"setup": setup, "sql": sql, "opt": opt}, "found": True})
                break
    return stats, viol
