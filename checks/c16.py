"""C16 — declared types and constraints hold for every stored and returned value.

1. Lean: lean/RlModel/Thm/C16.lean over lean/RlModel/Model/Type.lean (typeOf = analyze_type,
   INSERT cast + engines' read-back) and the L4 evaluator model (type soundness).
2. Correspondence (harness/src/bin/c16.rs vs lean/Drivers/C16.lean, same requests):
     type / ptype : static type from the real TypeSchemaAnalysis vs `typeOf` / `typeOfPlan`
     ins          : CREATE TABLE + INSERTs + SELECT * on the memory and the disk engine vs model;
                    engine `diskre` = disk with shutdown + reopen between CREATE TABLE and the INSERTs
                    (histories with a reopen: the same rows must be rejected, the catalogued types
                    and NOT NULL / PRIMARY KEY flags must be the same)
     ddl / ddlre  : the flags CREATE TABLE catalogues for every option list up to length 3, in the
                    creating session / after shutdown + reopen of a disk database, vs `catalogOf`
                    and vs the declaration read from the SQL text (model free)
3. Model-free oracles on the implementation:
     * runtime array variants and arity of SQL query results vs the static type of the bound and
       of the optimised plan (TypeSchemaAnalysis), on generated queries;
     * INSERT: result column variants = declared types, value tags = declared types or NULL,
       no NULL in a NOT NULL / PRIMARY KEY column, memory result = disk result.
   A failure of an oracle that the model predicts (model == implementation) carries the model's
   reason tags = signatures (known finding or VIOLATION).
"""
import collections
import json
import os
import re

import vlib

THEOREMS = [
    "type_soundness", "typeOfList_length", "insert_value_type", "insert_row_types",
    "insert_int_lossless_or_fails", "insert_lossless_unsound", "insert_decimal_truncates",
    "not_null_enforced", "no_silent_replacement", "castRow_respects", "not_null_regression",
    "insert_agrees_with_spec_partial", "castCol_ok", "castI_null_inv",
    # CREATE TABLE column options
    "optFold_nullable", "declared_not_null_catalogued", "primary_key_catalogued_not_null",
    "catalogued_nullable_iff",
    # table-level PRIMARY KEY (c1, …, cn)
    "table_key_columns_not_null", "forceNotNull_mem", "forceNotNull_keeps_false", "tableCatalogOf_single",
    # multi-row INSERT … VALUES
    "insertValues_all_or_nothing", "specInsertValues_failed",
]

SQL_FIXED = [
    "select f + m from t", "select m + f from t", "select f * m, m * f from t", "select f - m, m - f from t",
    "select f / m, m / f from t", "select f + cast(i as decimal(8,2)) from t", "select cast(l as decimal(12,3)) * f from t",
    "select s + f, f + i, l * f from t", "select m + i, s * m, m - l from t", "select f + 1.5, 2.5 * f, m + 1.5 from t",
    "select s + i, i + l, s * l, l - s from t", "select s + 1, i + 3000000000, l + 1 from t",
]

# type-changing rewrite rules: the optimised plan (and the result) has another column type than
# the bound plan (witness queries, replayed on every run)
SQL_WITNESSES = [
    ("sqltype:values-star-first-row", "select * from (values (1), (2.5))"),
    ("sqltype:values-star-first-row", "select * from (values (1, true), (3000000000, 7), (NULL, NULL))"),
    ("sqltype:rule:sub-cancel", "select f - f from t"),
    ("sqltype:rule:sub-cancel", "select l - l from t"),
    ("sqltype:rule:add-zero", "select s + 0 from t"),
    ("sqltype:rule:mul-one", "select s * 1 from t"),
    ("sqltype:rule:mul-zero", "select f * 0 from t"),
    ("sqltype:rule:sub-zero", "select s - 0 from t"),
    ("sqltype:fold-null-loses-type", "select i, 1 / 0 from t"),
    ("sqltype:fold-null-loses-type", "select 1 = null from t"),
    ("sqltype:rule:add-same", "select m, ((case when b then s else s end) + (case when b then s else s end)) from t where (not b)"),
]


def has_sub_cancel(q, op=" - "):
    """True iff the query text contains a subexpression `(X - X)` (or `(X + X)` for op=" + ")."""
    stack = []
    for k, c in enumerate(q):
        if c == "(":
            stack.append(k)
        elif c == ")" and stack:
            a = stack.pop()
            inner = q[a + 1:k]
            depth = 0
            for j, ch in enumerate(inner):
                if ch == "(":
                    depth += 1
                elif ch == ")":
                    depth -= 1
                elif depth == 0 and inner[j:j + 3] == op:
                    if inner[:j].strip() == inner[j + 3:].strip():
                        return True
    return False


TYNAME = {"BOOLEAN": "b", "SMALLINT": "i16", "INT": "i32", "BIGINT": "i64", "STRING": "s"}


DECL_RE = r"\((\w+) (\w+|\(opts[^)]*\))\)"


def declared_not_null(n):
    """What the SQL text declares (model free): PRIMARY KEY anywhere (inline, or the column is listed
    in the table-level PRIMARY KEY (…): pseudo option k<n>), or the LAST of NULL / NOT NULL is NOT NULL."""
    if not n.startswith("("):
        return n != "null"
    opts = n[1:-1].split()[1:]
    if "pk" in opts or any(re.fullmatch(r"k\d+", o) for o in opts):
        return True
    last = [o for o in opts if o in ("null", "notnull")]
    return bool(last) and last[-1] == "notnull"


def parse_ins(req):
    m = re.match(r"\(selcast (\w+) \(src .*?\) (\w+) \(rows (.*)\)\)$", req)
    if m:
        return m.group(1), [(m.group(2), "null")]
    m = re.match(r"\(ins\w* (\w+) (?:\(src .*?\) )?\(decls (.*?)\) (?:\(cols [^)]*\) )?\(rows (.*)\)\)$", req)
    if m and "(opts" in req:
        # option lists contain parentheses: take the decls text up to "(rows" / "(cols"
        head = req[req.index("(decls ") + 7:]
        cut = head.index(") (cols") if ") (cols" in head else head.index(") (rows")
        m = re.match(r"\(ins\w* (\w+) ", req)
        return m.group(1), [(t, "notnull" if declared_not_null(n) else "null") for t, n in re.findall(DECL_RE, head[:cut + 1])]
    eng, decls, rows = m.group(1), m.group(2), m.group(3)
    decls = [(t, "notnull" if declared_not_null(n) else "null") for t, n in re.findall(DECL_RE, decls)]
    return eng, decls


SQLTY = {"BOOLEAN": "boolean", "SMALLINT": "smallint", "INT": "int", "BIGINT": "bigint", "STRING": "varchar"}


def create_cols(txt):
    """`c0 int not null, …, primary key (c1, c0)` of a decls text."""
    words = {"null": " null", "notnull": " not null", "unique": " unique", "pk": " primary key"}
    out, key = [], []
    for k, (t, n) in enumerate(re.findall(DECL_RE, txt)):
        os_ = n[1:-1].split()[1:] if n.startswith("(") else []
        key += [(int(o[1:]), k) for o in os_ if re.fullmatch(r"k\d+", o)]
        opt = "".join(words.get(o, "") for o in os_) if n.startswith("(") else ("" if n == "null" else words[n])
        out.append("c%d %s%s" % (k, SQLTY[t], opt))
    if key:
        out.append("primary key (%s)" % ", ".join("c%d" % c for _, c in sorted(key)))
    return ", ".join(out)


def render_sql(req):
    """The SQL statements the harness runs for an INSERT scenario (for the replay file)."""
    def val(v):
        if v == "null":
            return "NULL"
        tag, rest = v.split(":", 1)
        if tag == "s":
            return "'%s'" % bytes.fromhex(rest).decode()
        if tag == "d":
            d = int(rest)
            return "%s%d.%d" % ("-" if d < 0 else "", abs(d) // 10, abs(d) % 10)
        return rest
    def cols(txt):
        out = []
        words = {"null": " null", "notnull": " not null", "unique": " unique", "pk": " primary key"}
        key = []
        for k, (t, n) in enumerate(re.findall(DECL_RE, txt)):
            os_ = n[1:-1].split()[1:] if n.startswith("(") else []
            key += [(int(o[1:]), k) for o in os_ if re.fullmatch(r"k\d+", o)]
            opt = "".join(words.get(o, "") for o in os_) if n.startswith("(") else ("" if n == "null" else words[n])
            out.append("c%d %s%s" % (k, SQLTY[t], opt))
        if key:
            out.append("primary key (%s)" % ", ".join("c%d" % c for _, c in sorted(key)))
        return ", ".join(out)
    try:
        kind = req.split(" ")[0][1:]
        rows = [r.split(" ") if r else [] for r in re.findall(r"\(([^()]*)\)", req[req.index("(rows ") + 6:])]
        stmts = []
        src = re.search(r"\(src (.*?)\) (?:\(decls|\w+ \(rows)", req)
        decls = re.search(r"\(decls (.*?)\) \((?:cols)", req) or re.search(r"\(decls (.*)\) \(rows", req)
        if decls:
            stmts.append("create table t(%s)" % cols(decls.group(1)))
        target = "t"
        if src:
            stmts.append("create table s(%s)" % cols(src.group(1)))
            target = "s"
        c = re.search(r"\(cols ([^)]*)\)", req)
        if c:
            target = "t(%s)" % ", ".join("c" + x for x in c.group(1).split())
        if kind == "insm":
            stmts.append("insert into %s values %s" % (target, ", ".join("(%s)" % ", ".join(val(v) for v in r) for r in rows)))
            rows = []
        for r in rows:
            stmts.append("insert into %s values (%s)" % (target, ", ".join(val(v) for v in r)))
        if kind == "inssel":
            stmts.append("insert into t select * from s")
        if kind == "selcast":
            stmts.append("select cast(c0 as %s) from s" % SQLTY[re.search(r"\) (\w+) \(rows", req).group(1)])
        else:
            stmts.append("select * from t")
        return ("-- engine: %s\n" % req.split(" ")[1]) + ";\n".join(stmts) + ";"
    except Exception as ex:  # the replay keeps the request anyway
        return "-- could not render: %s" % ex


def ins_oracle(req, impl_line):
    """Model-free checks of one INSERT scenario's SELECT * result."""
    eng, decls = parse_ins(req)
    m = re.match(r"ok (.*) ;; variants=\((.*)\) failed=(\d+)(?: reopen=(\S+))?$", impl_line)
    if not m:
        return None, ["malformed"]
    rows = re.findall(r"\(([^()]*)\)", m.group(1))
    variants = m.group(2).split(" ") if m.group(2) else []
    problems = []
    # engine `diskre`: the catalogued column types / NOT NULL / PRIMARY KEY flags before the shutdown
    # and after the reopen (compared by the harness, both read from the implementation's catalog)
    if eng == "diskre" and m.group(4) != "same":
        problems.append("catalog-changed-by-reopen:%s" % m.group(4))
    if variants and variants != [d[0] for d in decls]:
        problems.append("variant:%s!=%s" % (variants, [d[0] for d in decls]))
    for r in rows:
        vals = r.split(" ") if r else []
        if len(vals) != len(decls):
            problems.append("arity")
            continue
        for v, (ty, nn) in zip(vals, decls):
            if v == "null":
                if nn != "null":
                    problems.append("null-in-notnull")
            elif v.split(":")[0] != TYNAME[ty]:
                problems.append("value-type:%s in %s" % (v, ty))
    return m.group(1), sorted(set(problems))


def run(ck):
    n = 1500 if ck.quick() else 30000
    nsql = 400 if ck.quick() else 8000
    bad = vlib.step_lean(ck, "RlModel.Thm.C16", THEOREMS, extra_targets=["drv_c16"])
    ok, log = vlib.step_cargo(ck, ["c16"])
    if not ok:
        ck.report("build:harness", "harness does not build against the repository", replay={"log": log[-2000:]}, found_input=False)
        return ck.finish(level="proof")
    if not os.path.exists(vlib.lean_exe("drv_c16")):
        ck.report("build:driver", "Lean driver drv_c16 does not build", replay={"log": ck.coverage.get("lean_log_tail", "")}, found_input=False)
        return ck.finish(level="proof")
    wd = os.path.join(ck.work, "db")
    os.makedirs(wd, exist_ok=True)
    # requests: corpus (witnesses of the refuted statements) first, then generated
    corpus = []
    cdir = os.path.join(vlib.VERIF, "corpus", "C16")
    if os.path.isdir(cdir):
        for fn in sorted(f for f in os.listdir(cdir) if f.endswith(".req")):
            corpus += [l for l in open(os.path.join(cdir, fn)).read().split("\n") if l.strip() and not l.startswith("#")]
    gen = os.path.join(ck.work, "gen.txt")
    vlib.sh([vlib.harness_bin("c16"), "gen", str(n), gen])
    reqs = corpus + [l for l in open(gen).read().split("\n") if l.strip()]
    req = os.path.join(ck.work, "req.txt")
    open(req, "w").write("\n".join(reqs) + "\n")
    vlib.ENV["C16_WORK"] = wd
    (rc1, impl), (rc2, model) = vlib.run_pair(ck, [vlib.harness_bin("c16"), "run"], [vlib.lean_exe("drv_c16")], req)
    impl = [l for l in impl if l.strip()]
    model = [l for l in model if l.strip()]
    st = {"model_vs_impl": {"compared": 0, "disagree": 0}, "impl_vs_oracle": {"compared": 0, "disagree": 0},
          "model_vs_oracle": {"compared": 0, "disagree": 0}}
    kinds = collections.Counter()
    outcomes = collections.Counter()
    tagc = collections.Counter()
    if rc1 != 0 or rc2 != 0 or len(impl) != len(reqs) or len(model) != len(reqs):
        ck.report("machinery:run", "harness rc=%s (%d lines) / driver rc=%s (%d lines) for %d requests: %s" % (
            rc1, len(impl), rc2, len(model), len(reqs), (impl[-1:] + model[-1:])), replay={"requests": reqs[:3]}, found_input=False)
        impl, model = [], []
    last_mem = None
    for q, i, m in zip(reqs, impl, model):
        kind = q.split(" ")[0][1:]
        kinds[kind] += 1
        if i.startswith("harness-error") or m == "bad-request":
            ck.report("machinery:answer", "%s / %s on %s" % (i[:200], m[:200], q[:200]), replay={"request": q}, found_input=False)
            continue
        if kind in ("type", "ptype", "ddl", "ddlre", "ddlt", "ddltre"):
            st["model_vs_impl"]["compared"] += 1
            outcomes[kind + ":" + i.split(" ")[0]] += 1
            if i != m:
                st["model_vs_impl"]["disagree"] += 1
                # the property (returned columns carry the derived type) is not decided by a static
                # type alone: the SQL oracle below is the search for a failing input
                what = ("what CREATE TABLE catalogues (bind_create_table) and the model's catalogOf disagree" if kind == "ddl"
                        else "the column's catalogued flags after shutdown + reopen of a disk database are not what CREATE TABLE declared (model: catalogOf)"
                        if kind == "ddlre" else "the flags CREATE TABLE catalogues for a table with a table-level PRIMARY KEY (…) and the model's tableCatalogOf disagree"
                        if kind in ("ddlt", "ddltre") else "typeOf and TypeSchemaAnalysis disagree")
                # `ddlre`: the declared flags are part of the property (constraints hold over histories
                # with a reopen), and the request is the failing input
                # whether the declared flags (part of the property) are broken is decided by the model-free
                # comparison below; `ddlre`: the request is the failing input
                ck.report(("corr+prop:%s" if kind == "ddlre" else "corr:%s") % kind, "%s on %s: impl=%s model=%s" % (what, q[:200], i, m),
                          replay={"request": q, "impl": i, "model": m, "stream": "model_vs_impl"}, found_input=(kind == "ddlre"))
            # model-free: the nullability the SQL text declares (NOT NULL = PRIMARY KEY anywhere or the
            # last of NULL / NOT NULL), in the creating session (`ddl`) and
            # after shutdown + reopen of a disk database (`ddlre`)
            if kind in ("ddlt", "ddltre") and i.startswith("ok "):
                # every column listed in the table-level key, and every column whose last NULL / NOT NULL
                # option is NOT NULL, must be catalogued NOT NULL (declaration read from the request text)
                st["impl_vs_oracle"]["compared"] += 1
                want = ["n0" if declared_not_null(n) else "n1" for _, n in re.findall(DECL_RE, q)]
                got = [f[:2] for f in i[3:].split(" ")]
                if got != want:
                    st["impl_vs_oracle"]["disagree"] += 1
                    ck.report("prop:%s:flags" % kind, "the catalogued nullability %s is not the declared one %s on %s" % (got, want, q[:200]),
                              replay={"request": q, "sql": "create table t(%s)" % create_cols(q[q.index("(decls ") + 7:]), "impl": i, "model": m, "declared": want}, found_input=True)
            mm = re.match(r"\(ddl\w* \w+ (\(opts[^)]*\))\)$", q)
            fm = re.match(r"ok nullable=(\w+) primary=(\w+)$", i)
            if mm and fm:
                st["impl_vs_oracle"]["compared"] += 1
                # (`primary` is only shown: ColumnDesc.is_primary follows the LAST of PRIMARY KEY /
                # UNIQUE — `primary key unique` leaves it false while the table's key list has the
                # column; modelled by catalogOf, see docs/C16.md)
                want = ("false" if declared_not_null(mm.group(1)) else "true",)
                if fm.groups()[:1] != want:
                    st["impl_vs_oracle"]["disagree"] += 1
                    if i == m:   # otherwise reported above
                        ck.report("prop:%s:flags" % kind, "the catalogued flags nullable=%s primary=%s are not the declared ones (nullable=%s) on %s" % (fm.groups() + want + (q[:200],)),
                                  replay={"request": q, "impl": i, "model": m, "declared": want}, found_input=True)
            continue
        # ins
        mp = m.split(" ;; ")
        model_rows, spec_rows, tags = mp[0][3:], mp[1][3:], [t for t in mp[2].split(" ") if t]
        impl_rows, problems = ins_oracle(q, i)
        eng = q.split(" ")[1]
        outcomes["ins:" + eng] += 1
        for t in tags:
            tagc[t] += 1
        st["model_vs_impl"]["compared"] += 1
        if impl_rows is None or impl_rows != model_rows:
            st["model_vs_impl"]["disagree"] += 1
            prop_fails = bool(problems) or impl_rows != spec_rows
            ck.report(("corr+prop:%s:" % kind if prop_fails else "corr:%s:" % kind) + eng,
                      "INSERT/SELECT model and implementation disagree on %s: impl=%s model=%s spec=%s oracle=%s" % (q[:200], i[:160], model_rows[:160], spec_rows[:160], problems),
                      replay={"request": q, "sql": render_sql(q), "impl": i, "model": m, "oracle": problems}, found_input=prop_fails)
            last_mem = None
            continue
        # model-free oracle on the implementation
        st["impl_vs_oracle"]["compared"] += 1
        engines_differ = False
        if eng == "mem":
            last_mem = (re.sub(r"^\((ins\w*|selcast) mem", r"(\1 disk", q), impl_rows)
        elif last_mem and last_mem[0] == re.sub(r"^\((ins\w*|selcast) diskre", r"(\1 disk", q):
            engines_differ = last_mem[1] != impl_rows
        if engines_differ:
            problems = problems + ["mem!=disk"]
        st["model_vs_oracle"]["compared"] += 1
        differs = model_rows != spec_rows
        if differs:
            st["model_vs_oracle"]["disagree"] += 1
        if problems:
            st["impl_vs_oracle"]["disagree"] += 1
        if problems or differs:
            hard = [p for p in problems if p not in ("null-in-notnull", "mem!=disk")]
            if hard or not tags:
                ck.report("prop:ins:%s" % (hard[0].split(":")[0] if hard else "untagged"),
                          "implementation (= model) breaks the property with no modelled reason on %s: %s impl=%s spec=%s" % (q[:200], problems, i[:160], spec_rows[:160]),
                          replay={"request": q, "sql": render_sql(q), "impl": i, "model": m, "oracle": problems}, found_input=True)
            else:
                for t in tags:
                    ck.report(t, "%s: %s returns %s, the property demands %s (oracle: %s) on %s" % (t, eng, impl_rows[:120], spec_rows[:120], problems, q[:160]),
                              replay={"request": q, "sql": render_sql(q), "impl": i, "model": m, "oracle": problems}, found_input=True)
    # SQL: static type of bound / optimised plan vs runtime array variants
    sqlf = os.path.join(ck.work, "sql.txt")
    vlib.sh([vlib.harness_bin("c16"), "gensql", str(nsql), sqlf])
    gen_sqls = [l for l in open(sqlf).read().split("\n") if l.strip()]
    # fixed queries of the type oracle, run on every seed after the witnesses (an index >= len(SQL_WITNESSES) is judged
    # like a generated query): arithmetic between every pair of numeric column types in both operand orders —
    # the seeded change c16e (DOUBLE op DECIMAL(p, s) typed DOUBLE by the planner, DECIMAL at run time) was caught
    # by the generated stream with some seeds only
    sqls = [w for _, w in SQL_WITNESSES] + SQL_FIXED + gen_sqls
    open(sqlf, "w").write("\n".join(sqls) + "\n")
    rc, out = vlib.sh([vlib.harness_bin("c16"), "runsql", sqlf, wd], timeout=3000)
    outs = [l for l in out.split("\n") if l.strip()]
    sqlstat = collections.Counter()
    if rc != 0 or len(outs) != len(sqls):
        ck.report("machinery:runsql", "runsql rc=%s, %d answers for %d queries: %s" % (rc, len(outs), len(sqls), outs[-1:]), replay={}, found_input=False)
        outs = []
    for k, (q, o) in enumerate(zip(sqls, outs)):
        m = re.match(r"bound=(\(.*?\)|\S+) optimized=(\(.*?\)|\S+) runtime=(\(.*?\)|none) uniform=(\w+)$", o)
        if not m:
            sqlstat[o.split(" ")[0]] += 1
            if o.startswith("panic"):
                sqlstat["panic"] += 0
            continue
        b, op, rt_, uni = m.groups()
        norm = lambda t: re.sub(r"DECIMAL\([^)]*\)", "DECIMAL", t)
        st["impl_vs_oracle"]["compared"] += 1
        if rt_ == "none":
            sqlstat["no-rows"] += 1
            ok_ = norm(b) == norm(op)
        else:
            sqlstat["compared"] += 1
            ok_ = norm(b) == norm(rt_) and norm(op) == norm(rt_) and uni == "true"
        if not ok_:
            st["impl_vs_oracle"]["disagree"] += 1
            if "(values" in q and rt_ != "none" and (norm(op) != norm(rt_) or uni != "true"):
                # the executed plan types the VALUES column as the union over all rows; the array
                # must be of that type (a row cast to another row's literal type is a silent replacement)
                sig = "sqltype:values-union"
            elif "(values" in q:
                # bound != optimized = runtime: the bound `SELECT *` over VALUES refers to the FIRST
                # row's expressions, so the bound plan carries the first row's literal types
                sig = "sqltype:values-star-first-row"
            elif k < len(SQL_WITNESSES):
                sig = SQL_WITNESSES[k][0]
            elif norm(b) != norm(op) and len(b.split()) == len(op.split()) and has_sub_cancel(q):
                sig = "sqltype:rule:sub-cancel"
            elif norm(b) != norm(op) and len(b.split()) == len(op.split()) and has_sub_cancel(q, " + "):
                sig = "sqltype:rule:add-same"
            elif norm(b) != norm(op) and len(b.split()) == len(op.split()) and all(
                    x == y or y.strip("()") == "NULL" for x, y in zip(norm(b).split(), norm(op).split())):
                # constant folding replaced a typed expression whose value is NULL by the untyped
                # NULL constant
                sig = "sqltype:fold-null-loses-type"
            elif norm(b) != norm(op):
                sig = "sqltype:optimizer-retypes"
            else:
                sig = "sqltype:%s" % ("arity" if len(b.split()) != len(rt_.split()) and rt_ != "none" else "variant")
            ck.report(sig, "the result columns do not carry the type derived by the binder for %s: %s" % (q, o),
                      replay={"sql": q, "answer": o}, found_input=True)
    for name, s_ in bad.items():
        ck.report("thm:" + name, "theorem %s is not discharged: %s" % (name, json.dumps(s_)[:300]),
                  replay={"theorem": name, "status": s_}, found_input=False)
    nontrivial = set(q for q in reqs if (q.startswith("(ins") and "null" in q) or (not q.startswith("(ins") and q.count("(") >= 3))
    ck.coverage.update({
        "evaluations": len(reqs) + len(sqls),
        "distinct_nontrivial": len(nontrivial) + len(set(sqls)),
        "rule": "distinct requests: typing requests with at least one operator over typed leaves; INSERT scenarios containing a NULL or NOT NULL column; distinct SQL queries",
        "samples": [q for q in reqs if q.startswith("(type")][:2] + [q for q in reqs if q.startswith("(ins")][:2] + sqls[:2],
        "model_vs_impl": st["model_vs_impl"], "impl_vs_oracle": st["impl_vs_oracle"], "model_vs_oracle": st["model_vs_oracle"],
        "distribution": {"request_kinds": dict(kinds), "outcomes": dict(outcomes), "reason_tags": dict(tagc),
                         "sql_static_vs_runtime": dict(sqlstat)},
    })
    return ck.finish(level="proof", trusted_base=[
        "Lean 4 kernel (axioms propext, Classical.choice, Quot.sound)",
        "harness/src/bin/c16.rs (RecExpr construction from the request syntax, SQL rendering of INSERT scenarios, canonical value text)",
        "lean/Drivers/C16.lean parser/printer", "checks/c16.py INSERT oracle",
        "typed leaves are rendered as (cast T null) for the real analysis; Decimal precision/scale clauses are not modelled",
    ])


def replay(path):
    d = json.load(open(path))
    rp = d.get("replay", {})
    q = rp.get("request")
    if not q:
        print(json.dumps(d, indent=1))
        return 0
    os.makedirs(vlib.WORK, exist_ok=True)
    wd = os.path.join(vlib.WORK, "replay_c16_%d" % os.getpid())
    os.makedirs(wd, exist_ok=True)
    p = os.path.join(wd, "req.txt")
    open(p, "w").write(q + "\n")
    rc1, o1 = vlib.sh([vlib.harness_bin("c16"), "run", p, wd])
    rc2, o2 = vlib.sh([vlib.lean_exe("drv_c16")], stdin=q + "\n")
    import shutil
    shutil.rmtree(wd, ignore_errors=True)
    print("request:", q)
    print("implementation:", o1.strip())
    print("model ;; spec ;; tags:", o2.strip())
    return 0
