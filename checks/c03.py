"""C03 — Acknowledged changes survive a clean shutdown and reopen.

1. Lean: theorems of RlModel.Thm.C03 (+ driver drv_c03): log replay, boot-time rewrite, reopen under
   the forced hypothesis, unconditional idempotence of reopen cycles, id freshness, refutations.
2. Harness c03 built from /repo's working tree (hooks on): real files under /verif/.work.
3. Witness histories (the Lean refutations, replayed on the real engine), corpus, then generated
   histories over {create/drop table (same name again), create view/index, insert (several
   row-sets), delete, forced compaction, vacuum, shutdown+reopen} x storage options; after every
   step: SELECT * of every table, count(*), catalog (ids, names, column definitions), canonical
   manifest, snapshot, DV contents - implementation vs model vs a plain multiset oracle.
"""
import glob
import json
import os

import vlib
from checks import storegen as sg

PROP = "C03"
THEOREMS = [
    "log_replay_txn", "rewrite_preserves_replay", "reopen_refines_partial",
    "reopen_fails_view_witness", "drop_after_compaction_reopens", "reopen_refines_full_unsound",
    "reopen_idempotent", "reopen_cycles", "ids_fresh_after_reopen_partial", "ids_fresh_full",
    "no_stale_dv_hides_new_rows", "dv_file_reuse_regression",
    "history_reaches_invariant", "reopen_refines", "reopen_accepts_ops",
    "guard_exact", "guard_sufficient", "reopen_realigns", "table_ids_stable_across_reopen",
    "view_free_histories_guarded", "view_free_history_reopens",
]
WEIGHTS = {"insert": 28, "delete": 14, "compact": 9, "vacuum": 4, "reopen": 17, "create": 10, "drop": 8,
           "view": 5, "index": 5}
WEIGHTS_PLAIN = {"insert": 30, "delete": 16, "compact": 10, "vacuum": 4, "reopen": 20, "create": 10, "drop": 10,
                 "view": 0, "index": 0}
NAMES = ["t0", "t1", "t2"]


class Gen3(sg.Gen):
    """now and then a NULL aimed at a NOT NULL / PRIMARY KEY column: the INSERT must be rejected, also
    after a reopen (the constraint flags are part of the persisted catalog)"""
    null_in_nn = 0.03

    def gen_val(self, ty, nn, wide=False):
        if nn and self.r.random() < self.null_in_nn:
            self.count("value:null-in-nonnull")
            return None
        return super().gen_val(ty, nn, wide)


def witnesses():
    a = sg.TableDef("t0", [("x", "INT", False, False)])
    b = sg.TableDef("t1", [("x", "INT", False, False)])
    c = sg.TableDef("t2", [("x", "INT", False, False)])

    def cr(d):
        return {"k": "create", "def": d, "sql": d.sql()}

    def ins(d, rows):
        return {"k": "insert", "table": d.name, "rows": [(r,) for r in rows], "def": d,
                "sql": "insert into %s values %s" % (d.name, ", ".join("(%d)" % r for r in rows))}

    view = {"k": "view", "name": "v0", "sql": "create view v0 (w0) as select * from t0"}
    w_panic = [cr(a), view, cr(b), ins(b, [1]), {"k": "reopen"}]
    w_swap = [cr(a), view, cr(b), cr(c), ins(b, [1, 2]), {"k": "reopen"}]
    w_dv = [cr(a), ins(a, [1, 2]), ins(a, [3]),
            {"k": "delete", "table": "t0", "pred": ("cmp", 0, "eq", 1), "def": a, "sql": "delete from t0 where (x = 1)"},
            {"k": "compact"}, {"k": "drop", "name": "t0", "sql": "drop table t0"}, {"k": "reopen"}]
    dall = {"k": "delete", "table": "t0", "pred": ("true",), "def": a, "sql": "delete from t0"}
    w_file = [cr(a), ins(a, [1, 2]), ins(a, [3]),
              {"k": "delete", "table": "t0", "pred": ("cmp", 0, "ne", 3), "def": a, "sql": "delete from t0 where (x <> 3)"},
              dall, {"k": "compact"}, {"k": "reopen"}, {"k": "reopen"}, ins(a, [5]), dall]
    w_view = [cr(a), view, {"k": "reopen"}]
    w_idx = [cr(a), {"k": "index", "name": "i0", "table": "t0", "sql": "create index i0 on t0 using btree (x)"}, cr(b), ins(b, [4]), {"k": "reopen"}]
    # ---- the catalog across reopen (model-free oracle `impl:<step>:catalog`): DDL on tables that own no
    # row-set, DROP + re-CREATE of a name, constraint flags re-checked by an INSERT of NULL after reopen
    drop0 = {"k": "drop", "name": "t0", "sql": "drop table t0"}
    a2 = sg.TableDef("t0", [("y", "BIGINT", False, False), ("z", "STRING", True, False)])
    k3 = sg.TableDef("t1", [("p", "INT", True, True), ("q", "INT", True, False), ("r", "STRING", False, False)])

    def insk(rows):
        return {"k": "insert", "table": "t1", "rows": rows, "def": k3, "sql": "insert into t1 values %s" % ", ".join(
            "(" + ", ".join(sg.sql_lit(v, c[1]) for v, c in zip(row, k3.cols)) + ")" for row in rows)}
    w_drop_empty = [cr(a), drop0, {"k": "reopen"}, cr(a), ins(a, [1]), {"k": "reopen"}]
    w_drop_emptied = [cr(a), ins(a, [1, 2]), ins(a, [3]), dall, {"k": "compact"}, {"k": "vacuum"}, drop0, {"k": "reopen"}, cr(b), {"k": "reopen"}]
    w_recreate = [cr(a), drop0, cr(a2), {"k": "reopen"},
                  {"k": "insert", "table": "t0", "rows": [(7, "ab")], "def": a2, "sql": "insert into t0 values (7, 'ab')"},
                  drop0, cr(a), {"k": "reopen"}, ins(a, [9]), {"k": "reopen"}]
    w_flags = [cr(k3), insk([(1, 10, "a")]), {"k": "reopen"}, insk([(2, None, "b")]), insk([(None, 5, "b")]), insk([(3, 30, None)]),
               {"k": "reopen"}, insk([(4, None, None)]), cr(a), {"k": "reopen"}, insk([(None, None, None)]), insk([(5, 50, "zz")])]
    o = (4096, 128, 1, 1)
    return [
        sg.make_hist(900011, o, NAMES, w_drop_empty),
        sg.make_hist(900012, o, NAMES, w_drop_emptied),
        sg.make_hist(900013, o, NAMES, w_recreate),
        sg.make_hist(900014, o, NAMES, w_flags),
        sg.make_hist(900001, o, NAMES, w_panic, expect_sig="reopen:view-shifts-table-id"),
        sg.make_hist(900002, o, NAMES, w_swap, expect_sig="reopen:view-shifts-table-id"),
        sg.make_hist(900003, o, NAMES, w_dv),      # former finding reopen:stale-dv-of-dropped-table (fixed 5071ff5): must simply agree
        sg.make_hist(900006, o, NAMES, w_file),    # former finding delete:dv-file-reused-after-reopen: regression
        sg.make_hist(900004, o, NAMES, w_view, expect_sig="reopen:view-not-persisted"),
        sg.make_hist(900005, o, NAMES, w_idx, expect_sig="reopen:view-shifts-table-id"),
    ]


def load_corpus():
    out = []
    for p in sorted(glob.glob(os.path.join(vlib.VERIF, "corpus", PROP, "*.json"))):
        out.append(sg.hist_from_json(json.load(open(p)), hid=800000 + len(out)))
    return out


def run(ck):
    n = 60 if ck.quick() else 1500
    bad = vlib.step_lean(ck, "RlModel.Thm.C03", THEOREMS, extra_targets=["drv_c03"])
    ok, log = vlib.step_cargo(ck, ["c03"])
    if not ok:
        ck.report("build:harness", "harness does not build against the repository", replay={"log": log[-2000:]}, found_input=False)
        return ck.finish(level="proof")
    g = Gen3(ck.seed * 104729 + 3, "c03")
    hists = []
    for i in range(n):
        # a third of the histories has no view/index so that the recorded id-shift / view-loss
        # defects do not cut the exploration of everything else short
        w = WEIGHTS if i % 3 else WEIGHTS_PLAIN
        hists.append(g.history(i, nsteps=g.r.randint(8, 25), weights=w, bulk=(i % 10 == 0)))
    fixed = witnesses() + load_corpus()
    totals, samples = {}, []
    ck.log("running %d witness/corpus histories and %d generated histories" % (len(fixed), len(hists)))
    impl, model, ann, errs = sg.run_hists(ck.work, vlib.harness_bin("c03"), vlib.lean_exe("drv_c03"), fixed + hists, "c03", shards=12)
    if errs:
        ck.report("harness:crash", "the harness process failed: %s" % errs[0][1][-400:], replay={"stderr": errs[0][1]}, found_input=False)
    sg.evaluate(ck, fixed + hists, impl, model, totals, samples)
    for name, st in bad.items():
        ck.report("thm:" + name, "theorem %s is not discharged: %s" % (name, st.get("status")),
                  replay={"theorem": name, "status": st}, found_input=False)
    ck.coverage["catalog_oracle"] = {"steps_with_catalog_equal_to_declared_ddl": totals.get("cat_checked", 0),
                                      "ordered_scans_checked": totals.get("kseq_checked", 0)}
    ck.coverage.update({
        "evaluations": len(hists) + len(fixed),
        "steps": totals.get("steps", 0),
        "distinct_nontrivial": len(totals.get("distinct_reopen", ())),
        "rule": "generated histories over create/drop/view/index/insert/delete/compact/vacuum/reopen x storage options; non-trivial = at least one successful reopen with >= 1 live row-set on disk; distinct = distinct request lines",
        "samples": samples,
        "model_vs_impl": {"compared": totals.get("mi", 0), "disagree": totals.get("mi_bad", 0)},
        "impl_vs_oracle": {"compared": totals.get("io", 0), "disagree": totals.get("io_bad", 0)},
        "model_vs_oracle": {"compared": totals.get("mo", 0), "disagree": totals.get("mo_bad", 0)},
        "distribution": dict(g.dist, compaction_merges=totals.get("merges", 0), reopens=totals.get("reopens", 0),
                             max_rowsets_per_table=totals.get("max_rowsets", 0)),
        "witnesses_replayed": [h["expect_sig"] for h in fixed if h.get("expect_sig")],
        "notes": ck.notes[:20],
    })
    return ck.finish(level="proof", trusted_base=[
        "Lean 4 kernel", "rlverif c03 harness + checks/storegen.py (generator, canonicalisation, multiset oracle)",
        "model Model/Store.lean is tied to src/storage/secondary by this differential run only",
        "file-system durability of fsync/rename is assumed (clean shutdown needs visibility only); serde_json record encoding is observed through the manifest comparison, not modelled"])


def replay(path):
    from checks import c07
    return c07.replay(path)
