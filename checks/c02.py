"""C02 — query answers follow standard SQL semantics on the core relational subset.

Three-way correspondence on generated (schema, data, query) triples:
  impl     RisingLight (in-memory engine), `Database::run(sql)`; the optimised plan it executed is
           captured through the verif hooks
  L1       the Lean spec (Model.Rel) evaluating the query rendered by the generator as a logical plan
  L2       the Lean executor model (Model.Exec) evaluating the optimised physical plan RisingLight chose
  oracle   SQLite (python3 sqlite3) on the same schema, data and query
reported separately as model_vs_impl (L2 vs impl), impl_vs_oracle (impl vs SQLite) and
model_vs_oracle (L1 vs SQLite).  When impl differs from SQLite and the L2 model reproduces the
implementation's answer, the model's reason tags (operator + mechanism where L2 leaves L1) are the
signatures; listed ones are KNOWN-FINDINGs, anything else is a VIOLATION.
"""
import json
import os
import re
import sqlite3
from collections import Counter
import subprocess
import vlib

THEOREMS = [
    # laws of the L1 spec
    "where_keeps_only_true", "null_never_equal", "null_never_equal_in_join", "agg_skips_nulls", "agg_empty",
    "agg_all_null", "count_distinct_ignores_null", "left_outer_pads", "left_outer_decomp", "right_outer_pads",
    "distinct_idempotent", "orderCmp_laws", "order_is_sorted_perm", "limit_offset_slice",
    # refinement L2 -> L1 per physical operator (hypothesis = where the executor equals the spec)
    "exec_refines_spec_rowpath", "exec_refines_spec_rowpath_sum", "exec_refines_spec_rowpath_sum_regression",
    "exec_refines_spec_chunkpath_sum", "exec_refines_spec_chunkpath_sum_regression",
    "exec_refines_spec_count_distinct", "exec_refines_spec_count_distinct_regression",
    # correlated scalar aggregate subqueries: laws of the nested-iteration operator, the decorrelated plan refuted twice
    "scalar_subquery_empty", "scalar_group_subquery_empty", "apply_scalar_agg_keeps_outer_rows",
    "decorr_scalar_agg_count_bug_unsound", "decorr_scalar_agg_duplicate_rows_unsound",
    "exec_refines_spec_hashjoin_body", "exec_join_keys_comparable", "exec_refines_spec_hashjoin",
    "exec_refines_spec_hashjoin_null_key_regression", "exec_refines_spec_hashjoin_int_width_regression",
    # shared with C11 (imported module RlModel.Thm.C11 is audited by ./check C11)
]

CORPUS = os.path.join(vlib.VERIF, "corpus", "C02")


def unhex(h):
    return bytes.fromhex(h).decode("utf-8")


def val_of_canon(c):
    if c == "null":
        return None
    tag, rest = c.split(":", 1)
    if tag in ("i16", "i32", "i64"):
        return int(rest)
    if tag == "b":
        return 1 if rest == "true" else 0
    if tag == "s":
        return unhex(rest)
    return c


def parse_rows(s):
    s = s.strip()
    if not s:
        return []
    out = []
    for r in s.split(")"):
        r = r.strip()
        if not r:
            continue
        r = r.lstrip("(")
        out.append(tuple(val_of_canon(v) for v in r.split(" ")) if r else tuple())
    return out


def sort_key(row):
    return tuple((0, 0, "") if v is None else (1, v, "") if isinstance(v, int) else (2, 0, v) for v in row)


def canon(rows, ordered):
    rows = [tuple(r) for r in rows]
    return rows if ordered else sorted(rows, key=sort_key)


def run_sqlite(case):
    con = sqlite3.connect(":memory:")
    try:
        for t in case["tables"]:
            con.execute("create table %s(%s)" % (t["name"], ", ".join("%s %s" % (c[0], c[2]) for c in t["cols"])))
            for ch in t["chunks"]:
                for r in ch:
                    con.execute("insert into %s values (%s)" % (t["name"], ",".join("?" * len(r))), [val_of_canon(v) for v in r])
        rows = con.execute(case["sqlite"]).fetchall()
        return "ok", [tuple(r) for r in rows]
    except sqlite3.Error as e:
        return "err " + str(e), []
    finally:
        con.close()


def table_sexp(t, unordered=False):
    s = "(t (types %s)" % " ".join(c[1] for c in t["cols"])
    if unordered and t.get("pk") is not None:
        # disk engine, keyed table: the scan merges the row-sets in PRIMARY KEY order
        s += " (sortedby %d)" % t["pk"]
    elif unordered:
        s += " (unordered)"
    for ch in t["chunks"]:
        s += " (c " + " ".join("(r %s)" % " ".join(r) for r in ch) + ")"
    return s + ")"


def parse_cell(cell):
    parts = cell.split(";")
    status = parts[0].strip()
    rows = parse_rows(parts[1]) if len(parts) > 1 else []
    spec = parse_rows(parts[2]) if len(parts) > 2 else []
    tags = [t for t in (parts[3].strip().split(",") if len(parts) > 3 else []) if t]
    return status, rows, spec, tags


def shape_class(shape):
    toks = shape.split(" [")[0].split()
    return "+".join(t.split(":")[0] if t.startswith("join") else t for t in toks)


def new_stats():
    return {"evaluations": 0, "shapes": {}, "join_kinds": {}, "aggs": {}, "impl_status": {}, "nonempty": 0,
            "model_vs_impl": {"compared": 0, "disagree": 0}, "impl_vs_oracle": {"compared": 0, "disagree": 0},
            "model_vs_oracle": {"compared": 0, "disagree": 0}, "l1_of_optimised_vs_l1_of_query": {"compared": 0, "disagree": 0},
            "tags": {}, "distinct": set(), "physical_ops": {}, "order_sensitive_skipped": 0, "engines": {}, "limit_unordered": 0, "sql_regressions": 0, "order_key_sequences": 0, "scalar_sub": 0, "scalar_sub_shapes": {}, "scalar_sub_dup_outer": 0, "chunks_per_table": {}, "rows_per_table": {}, "disk_disabled_after_timeouts": False}


def neutralise_limits(plan):
    """the optimised plan with every `(limit n off` turned into `(limit null 0` (L2 of it = the full
    answer the limited one must be drawn from)"""
    plan = re.sub(r"\(limit \d+ \d+ ", "(limit null 0 ", plan)
    return re.sub(r"\(topn \d+ \d+ ", "(topn null 0 ", plan)


def parse_sexp(text):
    """'(a (b c) d)' -> ['a', ['b', 'c'], 'd'] (atoms are strings; quoted strings stay one atom)"""
    toks = re.findall(r"\(|\)|'[^']*'|[^\s()]+", text)
    pos = 0

    def rd():
        nonlocal pos
        t = toks[pos]
        pos += 1
        if t == "(":
            out = []
            while toks[pos] != ")":
                out.append(rd())
            pos += 1
            return out
        return t
    return rd()


def null_vs_false_rule_under_not(logical):
    """Does the query contain, under a NOT, a conjunction that one of C01's two open NULL-vs-FALSE rules
    rewrites?  `and-gt-lt-conflict`: (and (> x a) (< x b)), constants a >= b  =>  false (it is NULL for NULL x);
    `eq-trans`: (and (= a b) (= b c)) => (and (= a b) (= a c)) (differs when b is NULL).  Returns the rule name."""
    try:
        tree = parse_sexp(logical)
    except Exception:
        return None

    def num(a):
        try:
            return int(a)
        except Exception:
            return None

    def conj(e):
        if isinstance(e, list) and len(e) == 3 and e[0] == "and":
            return conj(e[1]) + conj(e[2])
        return [e]

    def rule_in(e):
        if not isinstance(e, list):
            return None
        if len(e) == 3 and e[0] == "and":
            parts = [p for p in conj(e) if isinstance(p, list) and len(p) == 3]
            for p in parts:
                for q in parts:
                    if p is q:
                        continue
                    if p[0] == ">" and q[0] == "<" and p[1] == q[1] and num(p[2]) is not None and num(q[2]) is not None and num(p[2]) >= num(q[2]):
                        return "and-gt-lt-conflict"
                    if p[0] == "=" and q[0] == "=" and (set(map(str, p[1:])) & set(map(str, q[1:]))) and p[1:] != q[1:] and p[1:] != q[1:][::-1]:
                        return "eq-trans"
        for x in e[1:]:
            r = rule_in(x)
            if r:
                return r
        return None

    def walk(e, under_not):
        if not isinstance(e, list):
            return None
        if under_not:
            r = rule_in(e)
            if r:
                return r
        for x in e[1:]:
            r = walk(x, under_not or e[0] == "not")
            if r:
                return r
        return None
    return walk(tree, False)


def sub_bag(a, b):
    ca, cb = Counter(a), Counter(b)
    return all(cb.get(k, 0) >= v for k, v in ca.items())


def run_batch(ck, cases_path, stats):
    cases = [json.loads(l) for l in open(cases_path).read().split("\n") if l.strip()]
    # the harness exits with code 3 after reporting a statement that does not come back (stuck
    # optimizer): restart it behind that case
    impl, start, index_of = {}, 0, {str(c["id"]): k for k, c in enumerate(cases)}
    timeouts = 0
    while True:
        # every stuck statement costs the watchdog limit: after 3 of them the remaining triples of
        # this batch run on the memory engine only
        env = {"C02_TIMEOUT_S": os.environ.get("C02_WATCHDOG_S", "15")}
        if timeouts >= 3:
            env["C02_NO_DISK"] = "1"
            stats["disk_disabled_after_timeouts"] = True
        rc, out = vlib.sh([vlib.harness_bin("c02"), "run", cases_path, str(start)], timeout=6000, env=env)
        last = None
        for l in out.split("\n"):
            f = l.split("\t")
            if len(f) >= 3:
                impl[f[0]] = f[1:]
                last = f[0]
        if rc == 3 and last is not None and index_of.get(last.split("@")[0], -1) >= start:
            # on a heavily loaded machine a harmless statement can miss the 15 s limit: the triple is run
            # again alone with 60 s; a statement that really does not come back stays a timeout
            k = index_of[last.split("@")[0]]
            one = os.path.join(ck.work, "retry_%d_%s.jsonl" % (stats["evaluations"], last.split("@")[0]))
            with open(one, "w") as fh:
                fh.write(json.dumps(cases[k]) + "\n")
            rc1, out1 = vlib.sh([vlib.harness_bin("c02"), "run", one, "0"], timeout=600, env={"C02_TIMEOUT_S": "60"})
            if rc1 == 0:
                for l in out1.split("\n"):
                    f = l.split("\t")
                    if len(f) >= 3:
                        impl[f[0]] = f[1:]
                stats["slow_statements_ok_on_retry"] = stats.get("slow_statements_ok_on_retry", 0) + 1
                start = k + 1
                continue
            if not last.endswith("@disk") and cases[index_of[last.split("@")[0]]].get("disk"):
                impl[last + "@disk"] = ["skipped ; ", "", ""]
            start = index_of[last.split("@")[0]] + 1
            timeouts += 1
            continue
        break
    for c in cases:
        for t in c["tables"]:
            n = sum(len(ch) for ch in t["chunks"])
            stats["chunks_per_table"][str(len(t["chunks"]))] = stats["chunks_per_table"].get(str(len(t["chunks"])), 0) + 1
            b = "0" if n == 0 else "1" if n == 1 else "2-9" if n < 10 else "10-1024" if n <= 1024 else ">1024"
            stats["rows_per_table"][b] = stats["rows_per_table"].get(b, 0) + 1
    # driver requests: only for cases whose plan text is a plan
    req = os.path.join(ck.work, "drv_req_%d.txt" % stats["evaluations"])
    runs = []
    with open(req, "w") as fh:
        for c in cases:
            for engine in ("memory", "disk"):
                key = str(c["id"]) + ("@disk" if engine == "disk" else "")
                if engine == "disk" and (not c.get("disk") or key not in impl):
                    continue
                runs.append((c, engine, key))
                r = impl.get(key)
                plan = r[1] if r and r[1].startswith("(") else "(unplanned)"
                logical = c["logical"].replace("@MODE@", "sql")
                plans = [logical, plan] + ([neutralise_limits(plan)] if c.get("limit") else [])
                if c.get("scalar_sub"):
                    # counterfactual readings of the correlated scalar subquery (Model/ExecPlan applyAggRows)
                    plans += [c["logical"].replace("@MODE@", m) for m in ("countbug", "collapse", "both")]
                fh.write("(case %s (tables %s) (plans %s))\n" % (
                    key, " ".join(table_sexp(t, engine == "disk") for t in c["tables"]), " ".join(plans)))
    rc2, out2 = vlib.sh([vlib.lean_exe("drv_c02")], stdin=open(req).read(), timeout=6000)
    model = {}
    for l in out2.split("\n"):
        f = l.split("\t")
        if len(f) >= 3:
            model[f[0]] = f[1:]
    for c, engine, key in runs:
        decide(ck, c, impl.get(key), model.get(key), stats, engine)
    return cases


def decide(ck, c, ir, mr, stats, engine="memory"):
    cid, shape, ordered = str(c["id"]), c["shape"], c["ordered"]
    limit = c.get("limit")
    sc = shape_class(shape)
    stats["evaluations"] += 1
    stats["engines"][engine] = stats["engines"].get(engine, 0) + 1
    stats["shapes"][sc] = stats["shapes"].get(sc, 0) + 1
    rep = {"sql": c["sql"], "sqlite": c["sqlite"], "tables": c["tables"], "logical": c["logical"], "shape": shape,
           "engine": engine, "limit": limit, "ordered": ordered}
    if "expect" in c:
        # SQL regression input with a fixed expected answer (constructs outside the SQLite-comparable core,
        # e.g. RisingLight's running-aggregate window functions): implementation vs the recorded rows only
        stats["sql_regressions"] += 1
        if ir is None:
            ck.report("corr:missing-answer", "case %s (%s): no answer from implementation" % (cid, engine), replay=rep, found_input=False)
            return
        ist = ir[0].split(";")[0].strip()
        irows = parse_rows(ir[0].split(";", 1)[1] if ";" in ir[0] else "")
        want = [tuple(r) for r in c["expect"]]
        if ist != "ok" or [tuple(r) for r in irows] != want:
            ck.report(c.get("regression_sig", "regression:" + cid), "regression input `%s`: returns %s %s, expected %s" % (c["sql"], ist, irows[:8], want[:8]), replay=rep)
        return
    if ir is None or mr is None:
        ck.report("corr:missing-answer", "case %s (%s): no answer from %s" % (cid, engine, "implementation" if ir is None else "model"), replay=rep, found_input=False)
        return
    ist, irows = ir[0].split(";")[0].strip(), parse_rows(ir[0].split(";", 1)[1] if ";" in ir[0] else "")
    plan = ir[1]
    rep["optimised_plan"] = plan
    for op in ("hashjoin", "mergejoin", "(join", "hashagg", "sortagg", "(agg", "topn", "(order", "(limit"):
        if op in plan:
            stats["physical_ops"][op.strip("(")] = stats["physical_ops"].get(op.strip("("), 0) + 1
    if re.search(r"\(limit \d+ \d+ ", plan):
        stats["physical_ops"]["limit-with-bound"] = stats["physical_ops"].get("limit-with-bound", 0) + 1
    stats["impl_status"][ist.split(" ")[0]] = stats["impl_status"].get(ist.split(" ")[0], 0) + 1
    ost, orows = run_sqlite(c)
    if ost != "ok":
        ck.report("oracle:sqlite-error", "SQLite rejects the query (generator must stay in the common dialect): %s" % ost, replay=rep, found_input=False)
        return
    l1st, _, l1rows, _ = parse_cell(mr[0])
    l2st, l2rows, l1opt, tags = parse_cell(mr[1])
    l2full = None
    if limit and len(mr) > 2:
        _, l2full, l1opt, _ = parse_cell(mr[2])
    variants = None
    if c.get("scalar_sub"):
        k0 = 3 if limit else 2
        if len(mr) >= k0 + 3:
            variants = {m: canon(parse_cell(mr[k0 + j])[2], ordered) for j, m in enumerate(("countbug", "collapse", "both"))}
        stats["scalar_sub"] += 1
        ssk = shape.split(" scalar-sub/")[1].split(" ")[0] if " scalar-sub/" in shape else "?"
        stats["scalar_sub_shapes"][ssk] = stats["scalar_sub_shapes"].get(ssk, 0) + 1
        if any(Counter(tuple(r) for ch in c["tables"][0]["chunks"] for r in ch).most_common(1)[0][1] > 1 for _ in [0] if c["tables"][0]["chunks"]):
            stats["scalar_sub_dup_outer"] += 1
    sens = [t[len("order-sensitive:"):] for t in tags if t.startswith("order-sensitive:")]
    tags = [t for t in tags if not t.startswith("order-sensitive:")]
    O, L1 = canon(orows, ordered), canon(l1rows, ordered)
    rep.update({"sqlite_rows": O[:50], "l1_rows": L1[:50]})
    if O:
        stats["nonempty"] += 1
        stats["distinct"].add(c["sql"] + json.dumps(c["tables"]) + engine)
    # ---- model_vs_oracle: the spec itself ------------------------------------------------------
    if l1st.split(" ")[0] not in ("ok", "unsupported"):  # only the spec reading of plan 1 is used
        ck.report("corr:l1-cannot-run", "L1 could not evaluate the logical plan: %s" % l1st, replay=rep, found_input=False)
        return
    stats["model_vs_oracle"]["compared"] += 1
    if L1 != O:
        stats["model_vs_oracle"]["disagree"] += 1
        ck.report("spec:l1-vs-sqlite/" + sc, "the L1 spec and SQLite disagree on %s: L1=%s SQLite=%s" % (c["sql"], L1[:5], O[:5]), replay=rep, found_input=False)
    # ---- implementation --------------------------------------------------------------------------
    stats["impl_vs_oracle"]["compared"] += 1
    if ist.startswith("skipped"):
        return
    if ist.startswith("timeout"):
        stats["impl_vs_oracle"]["disagree"] += 1
        ck.report("exec:timeout/%s" % engine, "statement does not come back within the watchdog limit on the %s engine (optimizer does not terminate): %s" % (engine, c["sql"]), replay=rep)
        return
    if ist != "ok":
        stats["impl_vs_oracle"]["disagree"] += 1
        # since /repo 4225762 a panic inside an operator task comes back as `Err(operator panicked: …)`
        # instead of Ok with rows missing: same mechanisms, same signatures
        if "not yet implemented" in ist or "unsupported join type" in ist:
            stats["tags"]["nljoin:outer-todo"] = stats["tags"].get("nljoin:outer-todo", 0) + 1
            ck.report("nljoin:outer-todo", "the chosen plan uses the nested-loop RIGHT/FULL OUTER join, which is todo!(): `%s` fails with %s" % (c["sql"], ist[:100]), replay=rep)
            return
        kind = "panic" if (ist.startswith("panic") or "operator panicked" in ist or "builder panicked" in ist) else "error"
        what = ist
        mech = ("column-not-found" if "not found from input" in ist else
                "apply-not-rewritten" if ("Apply is not supported" in ist or 'Unavailable("apply")' in ist) else
                "unwrap-none" if "Option::unwrap()" in ist else "other")
        ck.report("exec:%s/%s" % (kind, mech), "statement fails instead of answering (%s): %s" % (what[:120], c["sql"]), replay=rep)
        return
    I = canon(irows, ordered)
    rep["impl_rows"] = I[:50]
    if len(ir) > 2 and ir[2].strip() == "plan-run-differs" and not sens and not limit:
        ck.report("corr:plan-capture", "the captured optimised plan does not reproduce Database::run's answer", replay=rep, found_input=False)
    if limit:
        # LIMIT/OFFSET without ORDER BY: which rows come back is not defined; only how many, and
        # that each of them is a row of the unlimited answer (with multiplicity)
        want = min(limit[0], max(0, len(O) - limit[1]))
        rep["limit_expected_count"] = want
        observed = not (len(I) == want and sub_bag(I, O))
        stats["limit_unordered"] += 1
    else:
        observed = I != O
    okeys = c.get("order_keys")
    if okeys and not observed:
        # ORDER BY on a subset of the output columns: besides the bag, the SEQUENCE on these positions
        # (NULL lowest in both systems; rows with equal keys are free)
        stats["order_key_sequences"] += 1
        kseq = lambda rows: [tuple(r[k] for k in okeys) for r in rows]
        if kseq(irows) != kseq([tuple(r) for r in orows]):
            stats["impl_vs_oracle"]["disagree"] += 1
            l2seq = kseq(parse_cell(mr[1])[1]) if mr and len(mr) > 1 else None
            if l2seq == kseq(irows):
                # the executed plan itself does not produce the order (the model reproduces it): the planner dropped /
                # misplaced the ORDER BY
                sig = "plan-semantics:order-by-not-honoured"
            else:
                sig = "impl-vs-sqlite:order-keys/" + sc
            stats["tags"][sig] = stats["tags"].get(sig, 0) + 1
            ck.report(sig, "ORDER BY keys out of order: `%s` returns key sequence %s, SQLite %s" % (c["sql"], kseq(irows)[:12], kseq([tuple(r) for r in orows])[:12]), replay=rep)
            return
        l2seq = kseq(parse_cell(mr[1])[1])
        if parse_cell(mr[1])[0].split(" ")[0] == "ok" and l2seq != kseq(irows):
            stats["model_vs_impl"]["disagree"] += 1
            ck.report("corr:l2-vs-impl/order-keys/" + sc, "L2 model and implementation order the keys differently on %s: L2=%s impl=%s" % (c["sql"], l2seq[:12], kseq(irows)[:12]), replay=rep, found_input=False)
        l1seq = kseq(parse_cell(mr[0])[2])
        if l1seq != kseq([tuple(r) for r in orows]):
            ck.report("spec:l1-vs-sqlite/order-keys/" + sc, "L1 and SQLite order the keys differently on %s" % c["sql"], replay=rep, found_input=False)
    if observed:
        stats["impl_vs_oracle"]["disagree"] += 1
    # ---- model_vs_impl: L2 of the plan that ran --------------------------------------------------
    l2ok = l2st.split(" ")[0] == "ok"
    L2 = canon(l2rows, ordered)
    L1o = canon(l1opt, ordered)
    rep.update({"l2_rows": L2[:50], "tags": tags})
    if l2st.startswith("unsupported"):
        # the plan contains an executor that does not exist (`todo!()` nested-loop right/full outer
        # join): the operator task dies and the statement returns no rows
        if observed:
            stats["tags"]["nljoin:outer-todo"] = stats["tags"].get("nljoin:outer-todo", 0) + 1
            ck.report("nljoin:outer-todo", "the chosen plan uses the nested-loop RIGHT/FULL OUTER join, which is todo!(): `%s` returns %s, SQLite %s" % (c["sql"], I[:4], O[:4]), replay=rep)
        else:
            stats["unsupported_but_equal"] = stats.get("unsupported_but_equal", 0) + 1
        return
    if not l2ok:
        ck.report("corr:l2-cannot-run/" + l2st.split(" ")[0], "the L2 model can not interpret the optimised plan (%s): %s" % (l2st, plan[:300]), replay=rep, found_input=False)
    elif sens:
        # an order-dependent value may also feed HAVING / ORDER BY: not even the row count is predictable
        stats["order_sensitive_skipped"] += 1
    else:
        stats["model_vs_impl"]["compared"] += 1
        if limit:
            differs = not (len(L2) == len(I) and (l2full is None or sub_bag(I, canon(l2full, False))))
        else:
            differs = L2 != I
        if differs:
            stats["model_vs_impl"]["disagree"] += 1
            ck.report("corr:l2-vs-impl/" + sc, "L2 model of the executed plan and the implementation disagree on %s: L2=%s impl=%s" % (c["sql"], L2[:5], I[:5]), replay=rep, found_input=False)
    if l2ok:
        stats["l1_of_optimised_vs_l1_of_query"]["compared"] += 1
        if L1o != L1:
            stats["l1_of_optimised_vs_l1_of_query"]["disagree"] += 1
    if not observed:
        return
    # ---- the property fails on the implementation for this input: name the mechanism ------------
    what = "RisingLight and SQLite disagree on `%s`: impl=%s SQLite=%s" % (c["sql"], I[:6], O[:6])
    explained = False
    if limit and variants is not None:
        vb = variants["both"]
        predicted_by_both = len(I) == min(limit[0], max(0, len(vb) - limit[1])) and sub_bag(I, vb)
    else:
        predicted_by_both = variants is not None and I == variants["both"] and L2 == I
    if variants is not None and l2ok and predicted_by_both and not tags:
        # The decorrelated plan (pushdown-apply-scalar-agg / -group-agg) is predicted exactly: which of its
        # two mechanisms changes the answer?  `both` without the COUNT-of-padded-row reading = `collapse`,
        # without the duplicate-collapse reading = `countbug`.
        # When each mechanism ALONE already gives the observed rows (e.g. an empty answer either way) the
        # three readings coincide: both mechanisms are named.
        alone = variants["both"] == variants["collapse"] == variants["countbug"]
        sigs = []
        if variants["both"] != variants["collapse"] or alone:
            sigs.append("apply-scalar-agg:count-of-padded-row")
        if variants["both"] != variants["countbug"] or alone:
            sigs.append("apply-scalar-agg:duplicate-outer-rows")
        for t in sigs:
            stats["tags"][t] = stats["tags"].get(t, 0) + 1
            ck.report(t, what + " [" + t + ": the decorrelated plan, read with the L1 operators, predicts RisingLight's rows exactly]", replay=rep)
        if sigs:
            return
    if l2ok and (L2 == I or sens or (limit and len(L2) == len(I))):
        for t in sorted(set(tags) | set(sens)):
            explained = True
            stats["tags"][t] = stats["tags"].get(t, 0) + 1
            ck.report(t, what + " [" + t + "]", replay=rep)
        toks = shape.split()
        sub_not_in = "not-in" in toks                      # `x NOT IN (subquery)`, not the tvl `not-in-list`
        sub_not_exists = "tvl" not in toks and any(t.split("/")[0] == "not-exists" for t in toks)
        if L1o != L1 and (sub_not_in or not explained):
            # every physical operator behaves like its spec, but the plan means something else
            # than the query: binder / optimizer changed the semantics
            explained = True
            # C01's two open NULL-vs-FALSE expression rules give a wrong answer exactly under NOT
            rule = null_vs_false_rule_under_not(c["logical"])
            mech = ("not-in-null-semantics" if sub_not_in else
                    "not-exists-anti-join" if sub_not_exists else
                    "rule-%s-under-not" % rule if rule else sc)
            t = "plan-semantics:" + mech
            stats["tags"][t] = stats["tags"].get(t, 0) + 1
            ck.report(t, what + " [optimised plan read with the L1 spec already differs from the query]", replay=rep)
    if not explained:
        ck.report("impl-vs-sqlite:" + sc, what, replay=rep)


def run(ck):
    n = 500 if ck.quick() else 8000
    bad = vlib.step_lean(ck, "RlModel.Thm.C02", THEOREMS, extra_targets=["drv_c02"])
    ok, log = vlib.step_cargo(ck, ["c02"])
    if not ok:
        ck.report("build:harness", "harness does not build against the repository", replay={"log": log[-2000:]}, found_input=False)
        return ck.finish(level="proof")
    stats = new_stats()
    cfile = os.path.join(CORPUS, "cases.jsonl")
    if os.path.exists(cfile):
        ck.log("corpus: %s" % cfile)
        run_batch(ck, cfile, stats)
    corpus_evals = stats["evaluations"]
    # batches of at most 1000 triples (the disk engine is switched off for the rest of a batch after
    # 3 stuck statements); batch k uses seed + 7919 k
    cases, done, k = [], 0, 0
    while done < n:
        m = min(1000, n - done)
        cases_path = os.path.join(ck.work, "cases_%d.jsonl" % k)
        vlib.sh([vlib.harness_bin("c02"), "gen", str(m), cases_path], env={"VERIF_SEED": str(ck.seed + 7919 * k)})
        ck.log("batch %d: %d (schema, data, query) triples (seed %s)" % (k, m, ck.seed + 7919 * k))
        cases += run_batch(ck, cases_path, stats)
        done += m
        k += 1
    for name, st in bad.items():
        ck.report("thm:" + name, "theorem %s is not discharged (%s)" % (name, st.get("status")),
                  replay={"theorem": name, "status": st, "searched": "corpus + %d generated triples against SQLite" % n}, found_input=False)
    ck.coverage.update({
        "evaluations": stats["evaluations"],
        "distinct_nontrivial": len(stats["distinct"]),
        "rule": "one evaluation = one (schema, data, query) triple answered by RisingLight, L1, L2 and SQLite; distinct_nontrivial = distinct triples whose SQLite answer has at least one row",
        "samples": [c["sql"] for c in cases[:5]],
        "model_vs_impl": stats["model_vs_impl"], "impl_vs_oracle": stats["impl_vs_oracle"], "model_vs_oracle": stats["model_vs_oracle"],
        "distribution": {"query_shapes": dict(sorted(stats["shapes"].items(), key=lambda kv: -kv[1])[:60]),
                         "physical_operators_in_executed_plans": stats["physical_ops"], "impl_status": stats["impl_status"],
                         "reason_tags_seen": stats["tags"], "corpus_evaluations": corpus_evals,
                         "l1_of_optimised_plan_vs_l1_of_query": stats["l1_of_optimised_vs_l1_of_query"],
                         "order_sensitive_plans_not_compared_with_model": stats["order_sensitive_skipped"],
                         "engines": stats["engines"],
                         "chunks_per_table (one INSERT = one scan chunk; clustered tables keep the partner rows in one chosen chunk)": dict(sorted(stats["chunks_per_table"].items())),
                         "rows_per_table": stats["rows_per_table"],
                         "sql_regression_inputs_with_fixed_expected_rows": stats["sql_regressions"],
                         "order_by_on_padded_side_key_over_outer_join (keyed t1; sequence on the key compared)": stats["order_key_sequences"],
                         "correlated_scalar_aggregate_subqueries": {"runs": stats["scalar_sub"], "outer_table_with_duplicate_rows": stats["scalar_sub_dup_outer"],
                                                                    "agg/form": dict(sorted(stats["scalar_sub_shapes"].items()))}, "disk_disabled_after_3_timeouts": stats["disk_disabled_after_timeouts"], "slow_statements_ok_when_rerun_alone_with_60s": stats.get("slow_statements_ok_on_retry", 0),
                         "limit_offset_without_order_by(count+membership only)": stats["limit_unordered"]},
    })
    return ck.finish(level="proof", trusted_base=[
        "Lean 4 kernel (theorems about Model.Rel / Model.Exec)",
        "the generator's rendering of one query as RisingLight SQL, SQLite SQL and a logical plan (checked by L1 vs SQLite)",
        "Model.ExecPlan interpreter (glue), SQLite 3.40 as oracle of the spec only",
        "binder and optimizer are not modelled: the plan they produce is read back and interpreted",
    ])


def replay(path):
    d = json.load(open(path))
    rep = d.get("replay", {})
    if "sql" not in rep:
        print(json.dumps(d, indent=1))
        return 0
    work = os.path.join(vlib.WORK, "C02-replay-%d" % os.getpid())
    os.makedirs(work, exist_ok=True)
    case = {"id": 0, "shape": rep.get("shape", ""), "tables": rep["tables"], "sql": rep["sql"], "sqlite": rep["sqlite"], "logical": rep["logical"],
            "ordered": rep.get("ordered", False), "limit": rep.get("limit"), "disk": rep.get("engine") == "disk"}
    p = os.path.join(work, "case.jsonl")
    open(p, "w").write(json.dumps(case) + "\n")
    rc, out = vlib.sh([vlib.harness_bin("c02"), "run", p])
    print("implementation:", out.strip())
    print("sqlite:", run_sqlite(case))
    return 0
