"""History generator + model-free oracle shared by checks/c03.py, c05.py, c07.py (owned by the
C03/C05/C07 builder).  One PRNG (random.Random(seed)); everything a run does derives from it.

A history is a list of steps over a handful of tables:
  create / view / index / drop / insert / delete / compact / vacuum / reopen
rendered (a) as an s-expression line for the Rust harness and the Lean driver (SQL travels as a
hex atom), and (b) kept structured for the python oracle: a plain multiset per table, the
definition of "exactly the rows inserted and not since deleted".
"""
import random

TYPES = ["INT", "BIGINT", "STRING"]
INT_DOM = [-2, -1, 0, 1, 2, 3, 4, 5, 7, 9]
STR_DOM = ["", "a", "ab", "b", "ba", "zz", "Q"]


def hexs(s):
    return s.encode().hex()


def canon(v, ty):
    if v is None:
        return "null"
    if ty == "INT":
        return "i32:%d" % v
    if ty == "BIGINT":
        return "i64:%d" % v
    if ty == "STRING":
        return "s:" + hexs(v)
    if ty == "BOOLEAN":
        return "b:true" if v else "b:false"
    raise ValueError(ty)


def sql_lit(v, ty):
    if v is None:
        return "NULL"
    if ty == "STRING":
        return "'%s'" % v
    if ty == "BOOLEAN":
        return "true" if v else "false"
    return str(v)


SQLTYPE = {"INT": "int", "BIGINT": "bigint", "STRING": "varchar", "BOOLEAN": "boolean"}


class TableDef:
    def __init__(self, name, cols):
        self.name = name
        self.cols = cols  # [(name, ty, notnull, pk)]

    def sql(self):
        parts = []
        for (n, ty, nn, pk) in self.cols:
            s = "%s %s" % (n, SQLTYPE[ty])
            if pk:
                s += " primary key"
            elif nn:
                s += " not null"
            parts.append(s)
        return "create table %s (%s)" % (self.name, ", ".join(parts))

    def sexp(self):
        return " ".join("(%s %s %d %d)" % (n, ty, 1 if nn else 0, 1 if pk else 0) for (n, ty, nn, pk) in self.cols)

    def cat_text(self):
        return ",".join("%s/%s/%d/%d" % (n, ty, 1 if nn else 0, 1 if pk else 0) for (n, ty, nn, pk) in self.cols)


# ---- predicates: ("true",) | ("cmp", col, op, val) | ("isnull", col) | ("and", p, q) | ("or", p, q) | ("not", p)
OPS = {"lt": "<", "le": "<=", "eq": "=", "ne": "<>", "gt": ">", "ge": ">="}


def pred_sql(p, d, top=True):
    k = p[0]
    if k == "true":
        return None if top else "true"
    if k == "cmp":
        n, ty = d.cols[p[1]][0], d.cols[p[1]][1]
        return "(%s %s %s)" % (n, OPS[p[2]], sql_lit(p[3], ty))
    if k == "isnull":
        return "(%s is null)" % d.cols[p[1]][0]
    if k == "not":
        return "(not %s)" % pred_sql(p[1], d, False)
    return "(%s %s %s)" % (pred_sql(p[1], d, False), k, pred_sql(p[2], d, False))


def pred_sexp(p, d):
    k = p[0]
    if k == "true":
        return "(true)"
    if k == "cmp":
        return "(cmp %d %s %s)" % (p[1], p[2], canon(p[3], d.cols[p[1]][1]))
    if k == "isnull":
        return "(isnull %d)" % p[1]
    if k == "not":
        return "(not %s)" % pred_sexp(p[1], d)
    return "(%s %s %s)" % (k, pred_sexp(p[1], d), pred_sexp(p[2], d))


def pred_eval(p, row):
    """SQL three-valued: True / False / None."""
    k = p[0]
    if k == "true":
        return True
    if k == "cmp":
        v = row[p[1]]
        if v is None:
            return None
        c = p[3]
        if isinstance(v, str):
            v, c = v.encode(), c.encode()
        return {"lt": v < c, "le": v <= c, "eq": v == c, "ne": v != c, "gt": v > c, "ge": v >= c}[p[2]]
    if k == "isnull":
        return row[p[1]] is None
    if k == "not":
        x = pred_eval(p[1], row)
        return None if x is None else (not x)
    a, b = pred_eval(p[1], row), pred_eval(p[2], row)
    if k == "and":
        if a is False or b is False:
            return False
        if a is None or b is None:
            return None
        return True
    if a is True or b is True:
        return True
    if a is None or b is None:
        return None
    return False


def pred_atoms(p):
    if p[0] in ("and", "or"):
        return pred_atoms(p[1]) + pred_atoms(p[2])
    if p[0] == "not":
        return pred_atoms(p[1])
    return [p]


def safe_under_not(p):
    """A compound predicate may stand under NOT only if no open C01 expression rule can change its
    VALUE (not just its filter effect): comparison atoms on pairwise distinct columns (no range pair
    for `and-gt-lt-conflict`, also after NOT is pushed through AND/OR) and at most one (in)equality
    (`eq-trans` needs two)."""
    if p[0] not in ("and", "or", "not"):
        return True
    cmps = [a for a in pred_atoms(p) if a[0] == "cmp"]
    cols = [a[1] for a in cmps]
    return len(cols) == len(set(cols)) and sum(1 for a in cmps if a[2] in ("eq", "ne")) <= 1


class Gen:
    def __init__(self, seed, profile="c07"):
        self.r = random.Random(seed)
        self.profile = profile
        self.dist = {}

    def count(self, k, n=1):
        self.dist[k] = self.dist.get(k, 0) + n

    def gen_def(self, name, keyed=None, allow_null_in_nn=False):
        r = self.r
        ncols = r.choice([1, 2, 2, 3])
        keyed = r.random() < 0.4 if keyed is None else keyed
        cols = []
        for i in range(ncols):
            ty = r.choice(["INT", "INT", "BIGINT", "STRING"])
            pk = keyed and i == 0
            if pk:
                ty = r.choice(["INT", "INT", "BIGINT"])
            nn = pk or r.random() < 0.3
            cols.append(("abc"[i], ty, nn, pk))
        self.count("def:keyed" if keyed else "def:unkeyed")
        self.count("def:cols=%d" % ncols)
        return TableDef(name, cols)

    def gen_val(self, ty, nn, wide=False):
        r = self.r
        if not nn and r.random() < 0.15:
            return None
        if ty == "STRING":
            return r.choice(STR_DOM)
        if wide and r.random() < 0.05:
            return r.choice([2147483647, -2147483648] if ty == "INT" else [2 ** 40, -(2 ** 40)])
        return r.choice(INT_DOM)

    def gen_rows(self, d, n, base=0):
        rows = []
        for i in range(n):
            row = []
            for (cn, ty, nn, pk) in d.cols:
                if pk and n > 100:
                    row.append((base + i * 7919) % 100003)  # many distinct keys in bulk inserts
                else:
                    row.append(self.gen_val(ty, nn, wide=True))
            rows.append(tuple(row))
        return rows

    def gen_pred(self, d, depth=0, avoid_pk=True):
        r = self.r
        cand = [i for i, c in enumerate(d.cols) if not (avoid_pk and c[3])]
        # constant `true`, also nested under AND/OR/NOT (`(true or a < 7) or (a < 9 and a <= 5)` used to
        # send the optimizer into an endless saturation; repaired by repository commit 27a6bc9)
        if not cand or r.random() < (0.12 if depth == 0 else 0.06):
            return ("true",)
        x = r.random()
        if depth < 2 and x < 0.25:
            return (r.choice(["and", "or"]), self.gen_pred(d, depth + 1, avoid_pk), self.gen_pred(d, depth + 1, avoid_pk))
        if depth < 2 and x < 0.3:
            # NOT over compound predicates too (NULL-unsound simplification rules were removed by
            # repository commit 9930474), EXCEPT the shapes of the expression rules that C01 still records
            # as open (known_findings/C01.json: `and-gt-lt-conflict` folds `x > a and x < b`, a >= b, to
            # false although it is NULL for NULL x; `eq-trans`): as a filter NULL and false select the same
            # rows, under a NOT they do not (thorough tier, round 6: `insert .. select .. where not ((b > 2)
            # and (b < 1))` copies the NULL row on both engines).  The optimizer's defect, C01's subject:
            # kept out of the storage checks.
            p = self.gen_pred(d, depth + 1, avoid_pk)
            if not safe_under_not(p):
                p = self.gen_pred(d, 2, avoid_pk)
            return ("not", p)
        i = r.choice(cand)
        ty = d.cols[i][1]
        if x < 0.4:
            return ("isnull", i)
        if ty == "STRING":
            return ("cmp", i, r.choice(["eq", "ne", "lt", "ge"]), r.choice(STR_DOM))
        return ("cmp", i, r.choice(list(OPS)), r.choice(INT_DOM))

    def gen_opts(self):
        r = self.r
        rowset = r.choice([512, 2048, 4096, 16384, 1 << 20, 256 << 20])
        block = r.choice([32, 64, 128, 1024, 16384])
        o = (rowset, block, r.choice([0, 1]), r.choice([0, 1]))
        self.count("opt:rowset=%d" % rowset)
        self.count("opt:block=%d" % block)
        return o

    def history(self, hid, nsteps=None, weights=None, bulk=False, followup=True):
        """Returns dict(id, line, steps, opts, names)."""
        r = self.r
        nsteps = nsteps or r.randint(6, 22)
        w = dict(weights or {"insert": 34, "delete": 24, "compact": 14, "vacuum": 5, "reopen": 9,
                             "create": 7, "drop": 3, "view": 0, "index": 0})
        names = ["t0", "t1", "t2"]
        live = {}      # name -> TableDef
        views = []
        indexes = []
        steps = []
        opts = self.gen_opts()
        nview = nidx = 0

        def add(step):
            steps.append(step)
            self.count("step:" + step["k"])

        d0 = self.gen_def("t0")
        live["t0"] = d0
        add({"k": "create", "def": d0, "sql": d0.sql()})
        base = 0
        while len(steps) < nsteps:
            kinds = [k for k in w for _ in range(w[k])]
            k = r.choice(kinds)
            if k == "create":
                free = [n for n in names if n not in live and n not in views]
                if r.random() < 0.1 and live:
                    # duplicate name: must be rejected
                    n = r.choice(sorted(live))
                    d = self.gen_def(n)
                    add({"k": "create", "def": d, "sql": d.sql(), "dup": True})
                    continue
                if not free:
                    continue
                d = self.gen_def(free[0])
                live[d.name] = d
                add({"k": "create", "def": d, "sql": d.sql()})
            elif k == "drop":
                if r.random() < 0.15:
                    n = r.choice(names)
                else:
                    if not live:
                        continue
                    n = r.choice(sorted(live))
                add({"k": "drop", "name": n, "sql": "drop table %s" % n})
                live.pop(n, None)
            elif k == "view":
                if not live:
                    continue
                n = "v%d" % nview
                nview += 1
                base_t = r.choice(sorted(live))
                views.append(n)
                add({"k": "view", "name": n, "sql": "create view %s (%s) as select * from %s" % (
                    n, ", ".join("w%d" % j for j in range(len(live[base_t].cols))), base_t)})
            elif k == "index":
                if not live:
                    continue
                n = "i%d" % nidx
                nidx += 1
                t = r.choice(sorted(live))
                indexes.append(n)
                add({"k": "index", "name": n, "table": t,
                     "sql": "create index %s on %s using btree (%s)" % (n, t, live[t].cols[0][0])})
            elif k == "insert":
                if not live:
                    continue
                t = r.choice(sorted(live))
                d = live[t]
                x = r.random()
                if bulk and x < 0.12:
                    n = r.choice([1024, 1025, 1500, 2048, 2300])
                elif x < 0.15:
                    n = r.randint(20, 60)
                else:
                    n = r.randint(1, 6)
                rows = self.gen_rows(d, n, base)
                base += n
                self.count("insert:rows<=6" if n <= 6 else ("insert:rows<=60" if n <= 60 else "insert:bulk"))
                sql = "insert into %s values %s" % (t, ", ".join(
                    "(" + ", ".join(sql_lit(v, c[1]) for v, c in zip(row, d.cols)) + ")" for row in rows))
                add({"k": "insert", "table": t, "rows": rows, "def": d, "sql": sql})
            elif k == "delete":
                if not live:
                    continue
                t = r.choice(sorted(live))
                d = live[t]
                p = self.gen_pred(d)
                ps = pred_sql(p, d)
                self.count("pred:" + p[0])
                add({"k": "delete", "table": t, "pred": p, "def": d,
                     "sql": "delete from %s" % t + ("" if ps is None else " where " + ps)})
            else:
                add({"k": k})
                if k == "reopen" and followup:
                    # ids handed out right after a reopen are where a wrongly restored counter shows:
                    # touch every table that is alive - DELETE (new DV ids, on row-sets that may already
                    # carry DVs), INSERT (new row-set ids), a second DELETE with another predicate so
                    # that other row-sets are hit as well
                    for t in sorted(live):
                        d = live[t]
                        for kind in ("delete", "insert", "delete"):
                            if kind == "insert":
                                rows = self.gen_rows(d, r.randint(1, 3), base)
                                base += len(rows)
                                sql = "insert into %s values %s" % (t, ", ".join(
                                    "(" + ", ".join(sql_lit(v, c[1]) for v, c in zip(row, d.cols)) + ")" for row in rows))
                                add({"k": "insert", "table": t, "rows": rows, "def": d, "sql": sql, "followup": True})
                            else:
                                p = self.gen_pred(d, 2)
                                ps = pred_sql(p, d)
                                add({"k": "delete", "table": t, "pred": p, "def": d, "followup": True,
                                     "sql": "delete from %s" % t + ("" if ps is None else " where " + ps)})
                        self.count("reopen:followup-tables")
        line = "(hist %d (opts %d %d %d %d) (names %s) %s)" % (
            hid, opts[0], opts[1], opts[2], opts[3], " ".join(names), " ".join(step_sexp(s) for s in steps))
        return {"id": hid, "line": line, "steps": steps, "opts": opts, "names": names}


def step_sexp(s):
    k = s["k"]
    if k == "create":
        return "(create %s %s %s)" % (hexs(s["sql"]), s["def"].name, s["def"].sexp())
    if k == "view":
        return "(view %s %s)" % (hexs(s["sql"]), s["name"])
    if k == "index":
        return "(index %s %s %s)" % (hexs(s["sql"]), s["name"], s["table"])
    if k == "drop":
        return "(drop %s %s)" % (hexs(s["sql"]), s["name"])
    if k == "insert":
        d = s["def"]
        rows = " ".join("(" + " ".join(canon(v, c[1]) for v, c in zip(row, d.cols)) + ")" for row in s["rows"])
        return "(insert %s %s %s)" % (hexs(s["sql"]), s["table"], rows)
    if k == "delete":
        return "(delete %s %s %s)" % (hexs(s["sql"]), s["table"], pred_sexp(s["pred"], s["def"]))
    return "(%s)" % k


# ------------------------------------------------------------------------------------------
# model-free oracle: a multiset per table
# ------------------------------------------------------------------------------------------

def row_hash(vals):
    h = 1469598103
    for v in vals:
        for b in v.encode():
            h = ((h * 1099511) ^ b) % 1000000007
        h = ((h * 1099511) ^ 32) % 1000000007
    return h


def render_bag(rows):
    """rows: list of tuples of canonical value strings -> the text both sides print."""
    if len(rows) > 48:
        return "#%d:%d" % (len(rows), sum(row_hash(r) for r in rows) % 1000000007)
    return "".join("(" + " ".join(r) + ")" for r in sorted(rows))


def canon_bag_text(txt):
    """canonicalises a printed bag: sorts the rows."""
    if txt.startswith("#") or txt in ("absent",) or txt.startswith("panic"):
        return txt
    rows = [x for x in txt.replace(")(", ")\n(").split("\n") if x]
    return "".join(sorted(rows))


class Oracle:
    """Applies acknowledged statements to plain multisets."""

    def __init__(self, names):
        self.names = names
        self.tables = {}   # name -> (TableDef, [rows as python tuples])
        self.views = set()

    def apply(self, s):
        """returns expected outcome text: ok:<n> | err"""
        k = s["k"]
        if k == "create":
            d = s["def"]
            if d.name in self.tables or d.name in self.views:
                return "err"
            self.tables[d.name] = (d, [])
            return "ok:1"
        if k == "view":
            if s["name"] in self.tables or s["name"] in self.views:
                return "err"
            self.views.add(s["name"])
            return "ok:1"
        if k == "index":
            return "ok:1" if s["table"] in self.tables else "err"
        if k == "drop":
            if s["name"] in self.tables:
                del self.tables[s["name"]]
                return "ok:1"
            if s["name"] in self.views:
                self.views.discard(s["name"])
                return "ok:1"
            return "err"
        if k == "insert":
            if s["table"] not in self.tables:
                return "err"
            d = self.tables[s["table"]][0]
            # NOT NULL / PRIMARY KEY: the whole statement is rejected
            if any(v is None and c[2] for row in s["rows"] for v, c in zip(row, d.cols)):
                return "err"
            self.tables[s["table"]][1].extend(s["rows"])
            return "ok:%d" % len(s["rows"])
        if k == "delete":
            if s["table"] not in self.tables:
                return "err"
            d, rows = self.tables[s["table"]]
            keep = [r for r in rows if pred_eval(s["pred"], r) is not True]
            n = len(rows) - len(keep)
            self.tables[s["table"]] = (d, keep)
            return "ok:%d" % n
        return "ok:0"

    def cat_tables(self):
        """name -> declared column list `col/ty/nn/pk,...` (a key column is NOT NULL)"""
        return {n: ",".join("%s/%s/%d/%d" % (c[0], c[1], 1 if (c[2] or c[3]) else 0, 1 if c[3] else 0) for c in d.cols)
                for n, (d, _) in self.tables.items()}

    def tabs_text(self):
        out = []
        for n in self.names:
            if n in self.tables:
                d, rows = self.tables[n]
                out.append("%s=%s" % (n, render_bag([tuple(canon(v, c[1]) for v, c in zip(r, d.cols)) for r in rows])))
            else:
                out.append("%s=absent" % n)
        return ";".join(out)


def parse_fields(line):
    """`H1.3\tout=..\ttabs=..` -> (key, {field: value})"""
    parts = line.rstrip("\n").split("\t")
    d = {}
    for p in parts[1:]:
        k, _, v = p.partition("=")
        d[k] = v
    return parts[0], d


def canon_tabs(txt):
    return ";".join("%s=%s" % (x.partition("=")[0], canon_bag_text(x.partition("=")[2])) for x in txt.split(";") if x)


def canon_manifest(txt, rename=None, rename_av=None):
    """Canonical form of a printed manifest: per transaction, table ops in order, the other
    records sorted.  Which DV id goes to which row-set of one DELETE follows hash-map order in the
    implementation, so `AddDV` records are compared as (row-sets touched, SET of ids allocated) - the
    raw ids, which is what makes a wrongly restored id counter visible - and `DeleteDV` records with
    the ids renamed through the pairing established when the DVs were created."""
    recs = txt.split()
    txns, cur, loose = [], None, []
    for r in recs:
        if r == "B":
            cur = [] if cur is None else cur
        elif r == "E":
            txns.append(cur or [])
            cur = None
        elif cur is not None:
            cur.append(r)
        else:
            loose.append(r)
    out = []
    for t in txns:
        tab = [x for x in t if x[0] in "CD" and not x.startswith("DR") and not x.startswith("DV")]
        rest = sorted(x for x in t if x.startswith("AR") or x.startswith("DR"))
        adds = sorted(x.rsplit(".", 1)[0] for x in t if x.startswith("AV:"))
        # ids of DVs that already existed before this step (a rewritten manifest lists the survivors,
        # and which ids survive a compaction follows the hash-order assignment) are renamed through the
        # pairing; ids allocated by this step stay raw
        add_ids = sorted(int((rename_av or {}).get(x[3:], x[3:]).rsplit(".", 1)[1]) for x in t if x.startswith("AV:"))
        dels = [x[3:] for x in t if x.startswith("DV:")]
        if rename:
            dels = [rename.get(x, x) for x in dels]
        del_keys = sorted("DV:" + x.rsplit(".", 1)[0] for x in dels)
        del_ids = sorted(int(x.rsplit(".", 1)[1]) for x in dels)
        out.append(" ".join(tab + rest + adds + del_keys) + " new_dv_ids=" + ",".join(map(str, add_ids))
                   + " del_dv_ids=" + ",".join(map(str, del_ids)))
    if cur:
        out.append("OPEN " + " ".join(cur))
    if loose:
        out.append("LOOSE " + " ".join(loose))
    return " | ".join(out)


def canon_list(txt):
    return " ".join(sorted(txt.split()))


# ------------------------------------------------------------------------------------------
# running histories on implementation + model, comparing (shared by c03 / c07)
# ------------------------------------------------------------------------------------------
import json
import os
import subprocess
from concurrent.futures import ThreadPoolExecutor


def step_to_json(s):
    d = dict(s)
    if "def" in d:
        d["def"] = {"name": d["def"].name, "cols": [list(c) for c in d["def"].cols]}
    if "rows" in d:
        d["rows"] = [list(r) for r in d["rows"]]
    if "pred" in d:
        d["pred"] = pred_to_json(d["pred"])
    return d


def pred_to_json(p):
    return [pred_to_json(x) if isinstance(x, tuple) else x for x in p]


def pred_from_json(p):
    return tuple(pred_from_json(x) if isinstance(x, list) else x for x in p)


def step_from_json(d):
    s = dict(d)
    if "def" in s:
        s["def"] = TableDef(s["def"]["name"], [tuple(c) for c in s["def"]["cols"]])
    if "rows" in s:
        s["rows"] = [tuple(r) for r in s["rows"]]
    if "pred" in s:
        s["pred"] = pred_from_json(s["pred"])
    return s


def hist_to_json(h):
    return {"id": h["id"], "opts": list(h["opts"]), "names": h["names"], "steps": [step_to_json(s) for s in h["steps"]],
            "expect_sig": h.get("expect_sig")}


def hist_from_json(j, hid=None):
    steps = [step_from_json(s) for s in j["steps"]]
    return make_hist(j["id"] if hid is None else hid, tuple(j["opts"]), j["names"], steps, j.get("expect_sig"))


def make_hist(hid, opts, names, steps, expect_sig=None):
    line = "(hist %d (opts %d %d %d %d) (names %s) %s)" % (
        hid, opts[0], opts[1], opts[2], opts[3], " ".join(names), " ".join(step_sexp(s) for s in steps))
    return {"id": hid, "line": line, "steps": steps, "opts": opts, "names": names, "expect_sig": expect_sig}


def run_hists(work, harness_bin, driver_bin, hists, tag, shards=8, env=None, shard_timeout=1500):
    """Runs the histories on the implementation (sharded over processes) and then the annotated
    requests on the Lean model.  Returns (impl: key->fields, model: key->fields, annotated lines)."""
    shards = max(1, min(shards, len(hists)))
    jobs = []
    for i in range(shards):
        part = hists[i::shards]
        req = os.path.join(work, "%s_req_%d.txt" % (tag, i))
        with open(req, "w") as f:
            f.write("\n".join(h["line"] for h in part) + "\n")
        jobs.append((req, os.path.join(work, "%s_db_%d" % (tag, i)), os.path.join(work, "%s_impl_%d.txt" % (tag, i)),
                     os.path.join(work, "%s_mreq_%d.txt" % (tag, i))))
    e = dict(os.environ)
    e["RUST_LOG"] = "off"
    if env:
        e.update(env)

    def one(j):
        try:
            p = subprocess.run([harness_bin, "run", j[0], j[1], j[2], j[3], "detail"], env=e, stdout=subprocess.PIPE,
                               stderr=subprocess.PIPE, text=True, errors="replace", timeout=shard_timeout)
        except subprocess.TimeoutExpired:
            return 124, "harness shard %s did not finish within %d s (a statement does not terminate?)" % (j[0], shard_timeout)
        return p.returncode, p.stderr[-2000:]

    with ThreadPoolExecutor(max_workers=shards) as ex:
        rcs = list(ex.map(one, jobs))
    impl, ann = {}, []
    errs = [r for r in rcs if r[0] != 0]
    for j in jobs:
        if os.path.exists(j[2]):
            for l in open(j[2], errors="replace"):
                if l.strip():
                    k, f = parse_fields(l)
                    impl[k] = f
        if os.path.exists(j[3]):
            ann += [l for l in open(j[3]).read().split("\n") if l.strip()]
    mreq = os.path.join(work, "%s_mreq_all.txt" % tag)
    with open(mreq, "w") as f:
        f.write("\n".join(ann) + "\n")
    p = subprocess.run([driver_bin], stdin=open(mreq), stdout=subprocess.PIPE, stderr=subprocess.PIPE, text=True)
    model = {}
    for l in p.stdout.split("\n"):
        if l.strip() and "\t" in l:
            k, f = parse_fields(l)
            model[k] = f
    return impl, model, ann, errs


FIELDS = [("tabs", canon_tabs), ("man", canon_manifest), ("cat", lambda x: x), ("rs", canon_list),
          ("dv", canon_list), ("phys", canon_list)]

# reason tags computed by the model -> known-finding signatures (one mechanism each)
TAG_SIGS = [
    ("dv-file-exists", "delete:dv-file-reused-after-reopen"),
    ("dead:dv-of-unknown-table", "reopen:stale-dv-of-dropped-table"),
    ("new-rowset-under-stale-dv", "reopen:rowset-id-reissued-under-stale-dv"),
    ("id-shift", "reopen:view-shifts-table-id"),
    ("view-lost", "reopen:view-not-persisted"),
]


def sig_of_tags(tags):
    for t, sig in TAG_SIGS:
        if t in tags:
            return sig
    return None


def keyed_tids(cat_txt):
    """table ids whose definition has a sort key (column flagged primary)"""
    out = set()
    for e in cat_txt.split():
        p = e.split(":", 3)
        if len(p) == 4 and p[2] == "t" and any(c.endswith("/1") for c in p[3].split(",")):
            out.add(p[0])
    return out


def canon_positions(txt, keyed):
    """`tid.rs:pos,pos` tokens, sorted; for keyed tables only the number of positions is kept (the
    order in which a merge emits rows with equal keys is not defined by the implementation)."""
    out = []
    for tok in txt.split():
        k, _, pos = tok.partition(":")
        if k.split(".")[0] in keyed:
            out.append("%s:#%d" % (k, len([x for x in pos.split(",") if x])))
        else:
            out.append(tok)
    return " ".join(sorted(out))


def key_disorder(kseq):
    """kseq = `t=k1|k2|..;u=..` (harness: `select pk from t order by pk`, in the order returned).
    Returns None, or a description of the first place where the keys are out of order."""
    for ent in kseq.split(";"):
        if not ent:
            continue
        n, _, body = ent.partition("=")
        if body.startswith("!"):
            return "%s: ordered scan %s" % (n, body[1:])
        ks = body.split("|") if body else []

        def val(x):
            ty, _, v = x.partition(":")
            if x == "null":
                return (0, 0)
            try:
                return (1, int(v)) if ty in ("i16", "i32", "i64") else (1, v)
            except ValueError:
                return (1, v)
        vs = [val(x) for x in ks]
        for j in range(len(vs) - 1):
            if vs[j] > vs[j + 1]:
                return "%s: position %d of %d: %s before %s (..%s..)" % (n, j, len(vs), ks[j], ks[j + 1], "|".join(ks[max(0, j - 3):j + 4]))
    return None


def compare_hist(h, impl, model):
    """Walks one history.  Returns dict with per-comparison counters and a list of events:
    ("corr", step, field, impl, model) | ("prop", step, what, impl, expected, tags)."""
    orc = Oracle(h["names"])
    ev = []
    cnt = {"mi": 0, "mi_bad": 0, "io": 0, "io_bad": 0, "mo": 0, "mo_bad": 0, "steps": 0}
    tags = set()
    dvmap = {}
    stats = {"max_rowsets": 0, "deleted_rows": 0, "merges": 0, "reopens": 0, "dv_rowsets": 0, "bulk_parts": 0,
             "reopens_with_data": 0}
    prev_tabs = None
    model_off = False
    for k, s in enumerate(h["steps"]):
        key = "H%d.%d" % (h["id"], k)
        i, m = impl.get(key), model.get(key)
        if i is None or (m is None and not model_off):
            ev.append(("corr", k, "missing-line", str(i)[:200], str(m)[:200]))
            cnt["mi"] += 1
            cnt["mi_bad"] += 1
            break
        cnt["steps"] += 1
        exp = orc.apply(s)
        for t in ((m or {}).get("tag") or "").split(","):
            if t:
                tags.add(t)
        iout = i["out"]
        if s["k"] == "delete" and iout == "err" and "File exists" in i.get("msg", ""):
            # `create_new` of a delete-vector file that already exists: DV files are never unlinked and
            # both id counters restarted (which DV id goes to which row-set is hash order in the
            # implementation, so the model's own tag need not fire on the same statement)
            tags.add("dv-file-exists")
        # --- model vs impl
        diffs = []
        if model_off:
            m = {"out": iout, "tabs": None} if "tabs" in i else {"out": iout}
        else:
            cnt["mi"] += 1
        if iout != m["out"]:
            diffs.append(("out", iout, m["out"]))
        if "tabs" in i and "tabs" in m and not model_off:
            keyed = keyed_tids(i.get("cat", ""))
            # which DV id goes to which row-set of one DELETE follows hash-map order in the
            # implementation: pair the DVs that are new in this step by their row-set and carry
            # the renaming (impl "t.r.id" -> model "t.r.id") through the rest of the history
            dvmap_before = dict(dvmap)
            new_i = [r[3:] for r in i.get("man", "").split() if r.startswith("AV:") and r[3:] not in dvmap]
            new_m = [r[3:] for r in m.get("man", "").split() if r.startswith("AV:") and r[3:] not in dvmap.values()]
            by_rs = {}
            for x in new_m:
                by_rs.setdefault(x.rsplit(".", 1)[0], []).append(x)
            for x in new_i:
                cands = by_rs.get(x.rsplit(".", 1)[0])
                if cands:
                    dvmap[x] = cands.pop(0)
            for f, c in FIELDS:
                if f == "man":
                    a, b = canon_manifest(i.get(f, ""), dvmap, dvmap_before), canon_manifest(m.get(f, ""))
                elif f in ("dv", "phys"):
                    a, b = canon_positions(i.get(f, ""), keyed), canon_positions(m.get(f, ""), keyed)
                else:
                    a, b = c(i.get(f, "")), c(m.get(f, ""))
                if a != b:
                    diffs.append((f, a, b))
            # a DV that no record of the log names any more (not carried over by a manifest rewrite) leaves
            # the pairing: after everything was deleted, compacted and the database reopened, row-set and DV
            # ids legitimately start again at 0, and a stale entry would rename the new DV of the same name
            # (false alarm corr:delete:man of the thorough tier, round 7)
            recs = i.get("man", "").split()
            # (the whole log is canonicalised at every step, so an entry stays as long as ANY record of the
            # log - AddDV or DeleteDV - still names the DV; a manifest rewrite at reopen drops the dead ones)
            live_dv = set(x[3:] for x in recs if x.startswith("AV:") or x.startswith("DV:"))
            for x in [x for x in dvmap if x not in live_dv]:
                del dvmap[x]
        elif ("tabs" in i) != ("tabs" in m):
            diffs.append(("shape", "tabs" in i, "tabs" in m))
        corr_pending = diffs[0] if diffs else None
        # --- impl vs oracle (model-free)
        cnt["io"] += 1
        bad = None
        if s["k"] in ("insert", "delete", "create", "drop", "view", "index"):
            if iout != exp and not (iout.startswith("ok") and exp.startswith("ok") and s["k"] in ("create", "drop", "view", "index")):
                bad = ("outcome of %s" % s["k"], iout, exp)
        elif not iout.startswith("ok"):
            bad = ("%s does not succeed" % s["k"], iout, "ok")
        if bad is None and "cat" in i:
            # the catalog is part of the property: the set of tables and, per table, the column list with
            # type, NOT NULL and PRIMARY KEY flags (the harness' catalog dump, ids left out) must be what
            # the acknowledged DDL declared - after every step, in particular after every reopen
            have = {}
            for e in i["cat"].split():
                p = e.split(":", 3)
                if len(p) == 4 and p[2] == "t":
                    have[p[1]] = p[3]
            want = orc.cat_tables()
            if have != want:
                def txt(c):
                    return " ".join("%s(%s)" % (n, c[n]) for n in sorted(c)) or "(no table)"
                bad = ("catalog after %s" % s["k"], txt(have), txt(want))
            else:
                stats["cat_checked"] = stats.get("cat_checked", 0) + 1
        if bad is None and "tabs" in i:
            it, ot = canon_tabs(i["tabs"]), canon_tabs(orc.tabs_text())
            if it != ot:
                what = "table contents after %s" % s["k"]
                if s["k"] in ("compact", "vacuum", "reopen") and prev_tabs is not None and prev_tabs != it:
                    what = "%s changed query results" % s["k"]
                bad = (what, it, ot)
            else:
                # count(*) agrees with the bag
                for x in i.get("cnt", "").split(";"):
                    if not x:
                        continue
                    n, _, c = x.partition("=")
                    d_rows = orc.tables.get(n)
                    if d_rows is not None and c != "ok:%d" % len(d_rows[1]):
                        bad = ("count(*) of %s" % n, c, "ok:%d" % len(d_rows[1]))
                # the ordered scan of a keyed table (`select pk from t order by pk`, sort planned away on the
                # disk engine: merging scan over the row-sets) returns the keys in key order; together with
                # the bag equality above: exactly the sorted keys of the acknowledged rows
                if bad is None:
                    dis = key_disorder(i.get("kseq", ""))
                    if dis:
                        stats["kseq_bad"] = stats.get("kseq_bad", 0) + 1
                        bad = ("key order of the ordered scan after %s" % s["k"], dis, "keys in non-decreasing order")
                    elif i.get("kseq"):
                        stats["kseq_checked"] = stats.get("kseq_checked", 0) + len([x for x in i["kseq"].split(";") if x])
            prev_tabs = it
        if bad is None and "cat" in i and orc.views:
            have = set(e.split(":")[1] for e in i["cat"].split() if e.endswith(":v"))
            lost = sorted(orc.views - have)
            if lost:
                cnt["io_bad"] += 1
                ev.append(("viewlost", k, "views after %s" % s["k"], " ".join(sorted(have)), " ".join(sorted(orc.views)), sorted(tags)))
                orc.views -= set(lost)
        if bad:
            cnt["io_bad"] += 1
            ev.append(("prop", k, bad[0], bad[1], bad[2], sorted(tags)))
        if corr_pending:
            model_deviates = bool(m.get("tag")) or m.get("out") in ("panic", "dead")
            if bad is None and model_deviates and sig_of_tags(tags):
                # the model is in a recorded-defect mode, the implementation satisfies the property:
                # the defect was repaired and the model is behind; not a property failure
                ev.append(("fixed?", k, sig_of_tags(tags)))
            else:
                cnt["mi_bad"] += 1
                ev.append(("corr", k, corr_pending[0], corr_pending[1], corr_pending[2]))
        # --- model vs oracle
        if "spec" in m:
            cnt["mo"] += 1
            if canon_tabs(m["spec"]) != canon_tabs(orc.tabs_text()) or m.get("specout") != exp and s["k"] in ("insert", "delete"):
                cnt["mo_bad"] += 1
                ev.append(("spec", k, "spec", m["spec"][:300], orc.tabs_text()[:300]))
        # --- statistics for the evidence
        if "rs" in i:
            per = {}
            for x in i["rs"].split():
                per[x.split(".")[0]] = per.get(x.split(".")[0], 0) + 1
            stats["max_rowsets"] = max([stats["max_rowsets"]] + list(per.values()))
            stats["dv_rowsets"] = max(stats["dv_rowsets"], len(i.get("dv", "").split()))
        if s["k"] == "delete" and iout.startswith("ok:") and iout[3:].isdigit():
            stats["deleted_rows"] += int(iout[3:])
        if s["k"] == "compact" and " DR:" in " " + i.get("man", "")[len(impl.get("H%d.%d" % (h["id"], k - 1), {}).get("man", "")):]:
            stats["merges"] += 1
        if s["k"] == "reopen" and iout.startswith("ok"):
            stats["reopens"] += 1
            if i.get("rs", "").strip():
                stats["reopens_with_data"] += 1
        if bad:
            break
        if diffs:
            # model and implementation have parted: the model is out of the walk from here on, the
            # model-free oracle (outcomes, bags, counts, key order, catalog) goes on to the end of the
            # history, so that a property failure behind the first difference is found with its input
            model_off = True
    return cnt, ev, stats, tags


def replay_obj(h, k, impl, model):
    key = "H%d.%d" % (h["id"], k)
    return {"history": hist_to_json(h), "line": h["line"], "step": k,
            "sql_so_far": [s.get("sql", s["k"]) for s in h["steps"][:k + 1]],
            "impl": impl.get(key), "model": model.get(key)}


def evaluate(ck, hists, impl, model, totals, samples):
    for h in hists:
        cnt, ev, stats, tags = compare_hist(h, impl, model)
        for a in cnt:
            totals[a] = totals.get(a, 0) + cnt[a]
        nontriv = stats["max_rowsets"] >= 2 and stats["deleted_rows"] >= 1
        totals["nontrivial"] = totals.get("nontrivial", 0) + (1 if nontriv else 0)
        for a in ("merges", "reopens", "kseq_checked", "kseq_bad", "cat_checked"):
            totals[a] = totals.get(a, 0) + stats.get(a, 0)
        totals["max_rowsets"] = max(totals.get("max_rowsets", 0), stats["max_rowsets"])
        if nontriv:
            totals.setdefault("distinct", set()).add(h["line"])
        if stats["reopens_with_data"] >= 1:
            totals.setdefault("distinct_reopen", set()).add(h["line"])
            if len(samples) < 3 and not nontriv:
                samples.append([s.get("sql", s["k"])[:160] for s in h["steps"]])
        if len(samples) < 3 and nontriv:
            samples.append([s.get("sql", s["k"])[:160] for s in h["steps"]])
        seen_sig = None
        for e in ev:
            if e[0] == "viewlost":
                _, k, what, got, exp, tg = e
                ck.report("reopen:view-not-persisted",
                          "%s: the catalog has views [%s], acknowledged CREATE VIEW statements say [%s] (CREATE VIEW is never logged)" % (what, got, exp),
                          replay=replay_obj(h, k, impl, model))
                if h.get("expect_sig") == "reopen:view-not-persisted":
                    seen_sig = "reopen:view-not-persisted"
            if e[0] == "prop":
                _, k, what, got, exp, tg = e
                sig = sig_of_tags(tg)
                step_kind = h["steps"][k]["k"]
                m = model.get("H%d.%d" % (h["id"], k), {})
                predicted = ("tabs" in m and canon_tabs(m["tabs"]) == got) or (m.get("out") == got)
                # once table ids have shifted, row-set files are read under another table's schema:
                # the model does not define the values that come out, only that the state is wrong
                if sig in ("reopen:view-shifts-table-id", "delete:dv-file-reused-after-reopen"):
                    predicted = True
                if sig and predicted:
                    ck.report(sig, "%s: implementation has %s, a plain multiset of the acknowledged statements has %s "
                              "(model reproduces the implementation; reason %s)" % (what, got[:160], exp[:160], ",".join(tg)),
                              replay=replay_obj(h, k, impl, model))
                    seen_sig = sig
                else:
                    ck.report("impl:%s:%s" % (step_kind, what.split(" ")[0]),
                              "%s: implementation %s, expected %s" % (what, got[:200], exp[:200]),
                              replay=replay_obj(h, k, impl, model))
            elif e[0] == "corr":
                _, k, field, a, b = e
                # a disagreement that is also a property failure is reported by the "prop" event
                if any(x[0] == "prop" and x[1] == k for x in ev) and sig_of_tags(tags) in (None, "reopen:view-shifts-table-id", "delete:dv-file-reused-after-reopen"):
                    continue
                found = any(x[0] == "prop" for x in ev)
                ck.report("corr:%s:%s" % (h["steps"][k]["k"], field),
                          "model and implementation disagree on `%s` after step %d (%s): impl=%s model=%s" % (
                              field, k, h["steps"][k].get("sql", h["steps"][k]["k"])[:100], str(a)[:200], str(b)[:200]),
                          replay=replay_obj(h, k, impl, model), found_input=found)
            elif e[0] == "fixed?":
                ck.notes.append("history %d step %d: model predicts recorded defect %s, implementation behaves correctly" % (h["id"], e[1], e[2]))
                totals.setdefault("defect_not_shown", []).append(e[2])
            elif e[0] == "spec":
                _, k, field, a, b = e
                ck.report("spec:model-vs-oracle", "the Lean specification and the python multiset oracle disagree at step %d: %s vs %s" % (k, a, b),
                          replay=replay_obj(h, k, impl, model), found_input=False)
        if h.get("expect_sig") and seen_sig != h["expect_sig"]:
            ck.report("witness:%s" % h["expect_sig"],
                      "the recorded defect %s no longer reproduces on the implementation (repaired? then move it to `fixed`)" % h["expect_sig"],
                      replay={"history": hist_to_json(h)}, found_input=False)
            # not a property violation by itself: tell the reader, do not fail the check
            ck.violations = [v for v in ck.violations if v[0] != "witness:%s" % h["expect_sig"]]
            ck.notes.append("witness for %s did not reproduce" % h["expect_sig"])
            totals.setdefault("witness_not_reproduced", []).append(h["expect_sig"])


