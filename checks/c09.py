"""C09 — background compaction never loses or resurrects rows under concurrency."""
import itertools
import json
import re
import vlib
from checks import c08 as S

THEOREMS = [
    # theorem I (both invariants) and what C09 uses from it
    "SC.inv_reachable", "SC.inv_reachable_init", "SC.assert_epoch_unreachable",
    "SC.dvinv_init", "SC.dvinv_kstep", "SC.dvinv_reachable", "SC.reserved_no_dv",
    # only the publishing step of a commit changes a table
    "SC.kstep_stable_gen", "SC.frame_other_steps", "SC.commit_result",
    # under the lock-discipline hypothesis the changesets are the sequential ones
    "SC.fresh_plan_eq", "SC.fresh_handlers_eq", "SC.fresh_changesets_sequential",
    # exactness of each kind of commit
    "SC.insert_commit_exact",
    "SC.liveFrom_extra", "SC.mem_scan", "SC.scan?_filter", "SC.applyOps_dvOps", "SC.mem_deadOf_push",
    "SC.delete_commit_exact",
    # DELETE without FreshSnapshot: exactly the rows the handlers name; the repaired code validates them
    "SC.liveFrom_extra_pos", "SC.scan?_filter_pos", "SC.delete_commit_exact_handlers", "SC.delete_validated",
    "SC.applyOps_dels_eq", "SC.applyOps_append", "SC.applyOps_delDvs", "SC.dvDels_eq",
    "SC.rows_after_compaction", "SC.compaction_commit_exact", "SC.compaction_fresh_exact",
    # a pass over a SUBSET of the row-sets leaves the unselected row-sets and their delete vectors alone
    "SC.applyOps_dels_plain", "SC.compact_subset_keeps_other_dvs",
    "SC.sortKeys_perm", "SC.scan?_perm", "SC.compaction_rows_perm",
    "SC.applyOps_dels_other", "SC.compaction_empty_commit_exact",
    # the table lock is one lock per table id: compaction / DELETE / DROP of a table exclude each other
    "SC.lockinv_step", "SC.lockinv_reachable", "SC.table_lock_exclusive",
    # the bundle: insert + delete + compaction on any number of tables, only FreshSnapshot assumed
    "SC.final_state_exact",
    # the two defects of the original code (fixed in /repo f6c3dfb, a61a0a6): regression inputs
    "SC.stale_snapshot_regression", "SC.delete_after_compaction_regression",
]

KNOWN_SIGS = {
    "stale": "sched:compact-stale-snapshot-two-tables",
    "pinned": "sched:delete-pinned-before-compaction-commit",
}


def cmd_table(desc):
    p = desc.split(":")
    return p[1] if len(p) > 1 else None


def apply_cmd(rows, desc):
    p = desc.split(":")
    if p[0] == "ins":
        return sorted(rows + [int(x) for x in p[2].split("+") if x])
    if p[0] == "del":
        op, c = p[2], int(p[3])
        keep = {"lt": lambda v: not v < c, "eq": lambda v: v != c, "ge": lambda v: not v >= c, "all": lambda v: False,
                "bt": lambda v: not (c <= v <= c + 2)}[op]
        return [v for v in rows if keep(v)]
    return rows


def acked_dml(trace):
    """per actor: list of (desc, acked) in order; setup actor 0 first."""
    cur = {}
    per = {}
    for _, (a, th, name, detail) in trace.events():
        if name == "cmd.begin":
            cur[a] = detail
        elif name == "cmd.done":
            d = cur.get(a, "")
            if d.split(":")[0] in ("ins", "del", "create", "drop"):
                per.setdefault(a, []).append((d, detail.startswith("rows:")))
    return per


def possible_finals(trace, table):
    """All final contents of `table` that some serial order of the acknowledged inserts/deletes
    (per-actor order kept, setup first) explains."""
    per = acked_dml(trace)
    setup = [d for d, ok in per.get(0, []) if ok and cmd_table(d) == table]
    base = []
    for d in setup:
        base = apply_cmd(base, d)
    seqs = [[d for d, ok in per[a] if ok and cmd_table(d) == table and d.split(":")[0] in ("ins", "del")]
            for a in sorted(per) if a != 0]
    seqs = [q for q in seqs if q]
    out = set()

    def go(rows, idx):
        if all(i == len(q) for i, q in zip(idx, seqs)):
            out.add(tuple(sorted(rows)))
            return
        for k, q in enumerate(seqs):
            if idx[k] < len(q):
                go(apply_cmd(rows, q[idx[k]]), idx[:k] + [idx[k] + 1] + idx[k + 1:])
    go(base, [0] * len(seqs))
    return out


def rows_of(text):
    if not text.startswith("rows:"):
        return None
    return tuple(sorted(int(x) for x in text[5:].split("+") if x))


def classify(trace, table_id):
    """Which known mechanism(s) the schedule exhibits on table `table_id` (a string)."""
    # positions (global event index) of the interesting events
    evs = [e for _, e in trace.events()]
    cur = {}
    cp_pin = {}      # actor -> index of cp.pinned of the pass in progress
    cp_lock = []     # (actor, idx_lock, idx_pin, table)
    cp_commit = []   # (actor, idx_commit, table)
    del_scan_pin = {}   # actor -> idx of scan pin (txn.pinned ro on an operator thread)
    del_commit = []  # (actor, idx_commit, idx_scan_pin, table)
    cp_cur_table = {}
    mode = {}
    for i, (a, th, name, detail) in enumerate(evs):
        if name == "cmd.begin":
            cur[a] = detail
        elif name == "vm.pin" and th == 0 and cur.get(a, "") == "compact":
            cp_pin[a] = i       # the compactor's most recent pin
        elif name == "cp.locked":
            cp_lock.append((a, i, cp_pin.get(a, -1), detail))
            cp_cur_table[a] = detail
        elif name == "vm.committed" and detail == "cp":
            cp_commit.append((a, i, cp_cur_table.get(a)))
        elif name == "txn.pinned" and th != 0:
            m, t, _ = detail.split(",")
            mode[(a, th)] = (m, t)
            if m == "ro" and cur.get(a, "").startswith("del:"):
                del_scan_pin[a] = i
        elif name == "vm.committed" and detail == "txn" and cur.get(a, "").startswith("del:"):
            m, t = mode.get((a, th), ("", ""))
            del_commit.append((a, i, del_scan_pin.get(a, -1), t))
    found = set()
    for (da, dc, dp, dt) in del_commit:
        if dt != table_id:
            continue
        for (ca, li, pi, lt) in cp_lock:
            if lt != table_id:
                continue
            commits = [ci for (xa, ci, ct) in cp_commit if xa == ca and ct == table_id and ci > li]
            if not commits:
                continue
            cc = min(commits)
            if pi < dc < li:
                found.add("stale")
            if dp < cc < dc:
                found.add("pinned")
    return found


def table_ids(trace):
    """name -> id from create order in the trace (ids are handed out in creation order)."""
    ids = {}
    cur = {}
    n = 0
    for _, (a, th, name, detail) in trace.events():
        if name == "cmd.begin":
            cur[a] = detail
        elif name == "ddl.create.applied":
            ids[detail] = str(n)
            n += 1
    return ids


def final_oracle(trace, reopen=True):
    """[(table, observed, possible, where)] for every table whose final content is not explained
    by a serial order of the acknowledged operations."""
    bad = []
    for where, obs in (("final", trace.final), ("reopen", trace.reopen)):
        if where == "reopen" and (not reopen or trace.reopen_status != "ok"):
            continue
        for t, text in obs.items():
            got = rows_of(text)
            poss = possible_finals(trace, t)
            if got is None or got not in poss:
                bad.append({"table": t, "observed": text, "possible": sorted(poss)[:6], "where": where})
    return bad


EXHAUSTIVE_TEMPLATES = [
    # one table: a compaction pass against a DELETE (both known mechanisms live here)
    "(case e1 (gate cmd.begin txn.lock.begin txn.pinned txn.locked vm.commit.begin vm.committed cp.pass.begin cp.locked)"
    " (setup create:t1 ins:t1:1+2 ins:t1:3) (actors (compact) (del:t1:eq:1)) (sched ) (rng 0) (sticky 0) (script ))",
    # two tables: the stale-snapshot window
    "(case e2 (gate cmd.begin txn.lock.begin txn.pinned vm.commit.begin vm.committed cp.pass.begin cp.locked)"
    " (setup create:t1 create:t2 ins:t1:1+2 ins:t1:3 ins:t2:101 ins:t2:102) (actors (compact) (del:t2:eq:101)) (sched ) (rng 0) (sticky 0) (script ))",
    # compaction against an INSERT
    "(case e3 (gate cmd.begin txn.lock.begin txn.pinned vm.commit.begin vm.committed cp.pass.begin cp.locked)"
    " (setup create:t1 ins:t1:1+2 ins:t1:3) (actors (compact) (ins:t1:7)) (sched ) (rng 0) (sticky 0) (script ))",
    # a table WITH a primary key, three interleaved row-sets merged by one compaction pass, against a
    # key-predicate DELETE and a key-predicate SELECT
    "(case e4 (gate cmd.begin txn.lock.begin vm.commit.begin vm.committed cp.pass.begin cp.locked)"
    " (setup create:t51 ins:t51:1+4+7 ins:t51:2+5+8 ins:t51:3+6+9) (actors (compact) (del:t51:eq:5 seleq:t51:8 selo:t51)) (sched ) (rng 0) (sticky 0) (script ))",
    # tiny target_rowset_size: an oversized row-set with deletions is left alone by the pass that
    # merges the two small ones, against a DELETE on the oversized row-set
    "(case e5 (gate cmd.begin txn.lock.begin vm.commit.begin vm.committed cp.pass.begin cp.locked)"
    " (setup create:t1 ins:t1:1000+1001+1002+1003+1004+1005+1006+1007+1008+1009+1010+1011+1012+1013+1014+1015+1016+1017+1018+1019+1020+1021+1022+1023+1024+1025+1026+1027+1028+1029+1030+1031+1032+1033+1034+1035+1036+1037+1038+1039+1040+1041+1042+1043+1044+1045+1046+1047+1048+1049+1050+1051+1052+1053+1054+1055+1056+1057+1058+1059+1060+1061+1062+1063+1064+1065+1066+1067+1068+1069+1070+1071+1072+1073+1074+1075+1076+1077+1078+1079+1080+1081+1082+1083+1084+1085+1086+1087+1088+1089+1090+1091+1092+1093+1094+1095+1096+1097+1098+1099+1100+1101+1102+1103+1104+1105+1106+1107+1108+1109+1110+1111+1112+1113+1114+1115+1116+1117+1118+1119+1120+1121+1122+1123+1124+1125+1126+1127+1128+1129+1130+1131+1132+1133+1134+1135+1136+1137+1138+1139+1140+1141+1142+1143+1144+1145+1146+1147+1148+1149+1150+1151+1152+1153+1154+1155+1156+1157+1158+1159+1160+1161+1162+1163+1164+1165+1166+1167+1168+1169+1170+1171+1172+1173+1174+1175+1176+1177+1178+1179+1180+1181+1182+1183+1184+1185+1186+1187+1188+1189+1190+1191+1192+1193+1194+1195+1196+1197+1198+1199+1200+1201+1202+1203+1204+1205+1206+1207+1208+1209+1210+1211+1212+1213+1214+1215+1216+1217+1218+1219+1220+1221+1222+1223+1224+1225+1226+1227+1228+1229+1230+1231+1232+1233+1234+1235+1236+1237+1238+1239+1240+1241+1242+1243+1244+1245+1246+1247+1248+1249+1250+1251+1252+1253+1254+1255+1256+1257+1258+1259+1260+1261+1262+1263+1264+1265+1266+1267+1268+1269+1270+1271+1272+1273+1274+1275+1276+1277+1278+1279+1280+1281+1282+1283+1284+1285+1286+1287+1288+1289+1290+1291+1292+1293+1294+1295+1296+1297+1298+1299+1300+1301+1302+1303+1304+1305+1306+1307+1308+1309+1310+1311+1312+1313+1314+1315+1316+1317+1318+1319 del:t1:lt:1003 ins:t1:1+2 ins:t1:3) (actors (compact) (del:t1:eq:1050 cnt:t1))"
    " (sched ) (rng 0) (sticky 0) (script ) (target 1024))",
]


def run(ck):
    n = 200 if ck.quick() else 600
    if not S.lean_and_build(ck, "RlModel.Thm.C09", THEOREMS, "drv_c09", "c09"):
        return ck.finish(level="proof", trusted_base=S.TRUSTED)
    cases = S.corpus_cases("C09") + S.gen_cases(ck, "c09", n)
    ck.log("running %d schedules" % len(cases))
    res, err = S.run_cases(ck, "c09", "drv_c09", cases)
    traces = [t for _, t, _ in res if t]
    cnt = {"compared": 0, "disagree": 0}
    orc = {"compared": 0, "disagree": 0}
    mvo = {"compared": 0, "disagree": 0}
    nontrivial = set()
    reasons = {}
    missing = [c for c, t, m in res if t is None]
    if missing:
        ck.report("harness:no-trace", "the harness produced no trace for %d case(s)" % len(missing),
                  replay={"case": missing[0], "harness_tail": err[1]}, found_input=False)
    def judge(c, t, m):
        if t is None:
            return
        if t.deadlock != "none":
            ck.report("sched:deadlock", "schedule did not finish: %s" % t.deadlock, replay={"case": c, "trace": t.line})
            return
        cnt["compared"] += 1
        d = S.compare(t, m)
        if d:
            cnt["disagree"] += 1
        # model-free oracle on the implementation
        orc["compared"] += 1
        bad = final_oracle(t)
        ids = table_ids(t)
        if t.reopen_status != "ok":
            bad.append({"table": "*", "observed": "reopen " + t.reopen_status, "where": "reopen"})
        if bad:
            orc["disagree"] += 1
            for b in bad:
                if b["table"] == "*":
                    ck.report("reopen:fails", "the database does not reopen after the schedule (%s)" % t.reopen_status,
                              replay={"case": c, "trace": t.line})
                    return
                mech = classify(t, ids.get(b["table"], "?"))
                for k in mech:
                    reasons[k] = reasons.get(k, 0) + 1
                what = "table %s ends with %s (%s); serial orders of the acknowledged operations allow only %s" % (
                    b["table"], b["observed"], b["where"], b["possible"])
                if len(mech) == 1:
                    ck.report(KNOWN_SIGS[list(mech)[0]], what, replay={"case": c, "problem": b, "trace": t.line})
                elif len(mech) > 1:
                    # both windows open on the same table: attribute to each
                    for k in mech:
                        ck.report(KNOWN_SIGS[k], what, replay={"case": c, "problem": b, "trace": t.line})
                else:
                    ck.report("final:unexplained:" + b["where"], what, replay={"case": c, "problem": b, "trace": t.line})
        # the model's final contents against the same oracle
        if m and not d:
            mvo["compared"] += 1
            mbad = [tb for tb, text in m["final"].items() if rows_of(text) not in possible_finals(t, tb)]
            if mbad:
                mvo["disagree"] += 1
        if d:
            ck.report("corr:model-vs-impl", "model and implementation disagree at step %s: %s" % (d["step"], d["what"]),
                      replay={"case": c, "diff": d, "trace": t.line}, found_input=bool(bad) and False)
        if any(e[2] == "vm.committed" and e[3] == "cp" for _, e in t.events()) and len(acked_dml(t)) > 1:
            nontrivial.add(t.driver_line().split("(steps", 1)[1][:4000])
    for c, t, m in res:
        judge(c, t, m)
    exh = {}
    if not ck.quick():
        for k, tmpl in enumerate(EXHAUSTIVE_TEMPLATES):
            n_done, n_left, n_cut = S.exhaustive(ck, "c09", "drv_c09", tmpl, 8000, judge)
            exh["template%d" % k] = {"schedules": n_done, "unexplored_frontier": n_left}
            ck.log("exhaustive template %d: %d schedules, frontier left %d" % (k, n_done, n_left))
            if n_left:
                ck.notes.append("exhaustive template %d not completed within the cap" % k)
    ck.coverage.update({
        "evaluations": len(traces),
        "distinct_nontrivial": len(nontrivial),
        "rule": "a schedule counts when a compaction committed and at least one client session ran a DML statement; distinct = distinct event sequences",
        "samples": cases[:3],
        "model_vs_impl": cnt, "impl_vs_oracle": orc,
        "model_vs_oracle": dict(mvo, note="the model predicts the same lost deletes as the implementation shows (reason tags below)"),
        "reason_tags": reasons,
        "distribution": S.summarize_distribution(traces),
        "exhaustive_templates": exh,
    })
    return ck.finish(level="proof", trusted_base=S.TRUSTED)


def replay(path):
    rp = json.load(open(path))
    case = rp.get("replay", {}).get("case")
    if not case:
        print(json.dumps(rp, indent=1)[:3000])
        return 0
    ck = vlib.Check("C09", "quick", 1)
    res, _ = S.run_cases(ck, "c09", "drv_c09", [case], tag="replay")
    for c, t, m in res:
        print("case:", c)
        if t:
            for i, st in enumerate(t.steps):
                print(" step %d pick=%s %s" % (i, st["pick"], [S.canon_impl_event(e[2], e[3]) for e in st["evs"]]))
            print(" final impl:", t.final, "reopen:", t.reopen_status, t.reopen)
            print(" model final:", m["final"] if m else None)
            print(" oracle:", final_oracle(t))
            print(" model-vs-impl:", S.compare(t, m))
    import shutil
    shutil.rmtree(ck.work, ignore_errors=True)
    return 0
