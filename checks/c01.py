"""C01 — query optimization never changes a query's answer.

1. translator: re-extract all rw! rules from /repo (Gen/Rules.lean, Gen/rules.json)
2. Lean: every expression-rule instantiation has `sound_…` or (`unsound_…` + known finding);
   plan-rule theorems (Thm/C01Plan.lean) likewise, keyed by rule name
3. harness: (A) the model's operator semantics vs the real evaluator on every rule side;
   (B) every rule's two sides on the implementation (rule-level oracle), witnesses of refuted
       rules replayed; (C) whole optimizer on vs off vs "all rules except the known-unsound ones"
       on generated queries, both engines
4. decide.
"""
import itertools
import json
import os
import random
import re
import sys

import vlib

HERE = os.path.dirname(os.path.abspath(__file__))
sys.path.insert(0, HERE)
import c01_gen  # noqa: E402  query generator (shared with C17)

# plan rules whose statement is generated but whose proof is not finished yet: named in the
# evidence, not counted as obligations
UNPROVED_PLAN_RULES = set()
# rules the translator is known not to be able to state (an aggregate-level rule, vector index scans)
KNOWN_UNTRANSLATABLE = {"avg", "vector-index-scan-1", "vector-index-scan-2", "vector-index-scan-3"}
# theorems that are not the statement of a rule as it is, but say how far a refuted rule is sound,
# why a repaired rule needs its guard, or that a removed rule was not an equivalence: audited by
# name (a deleted or weakened-by-renaming theorem is an undischarged obligation)
EXTRA_THEOREMS = [
    "psound_pushdown_filter_limit_partial", "pushdown_filter_limit_not_equivalence", "pushdown_filter_topn_not_equivalence",
    "pushdown_join_condition_left_needs_type_guard", "pushdown_join_condition_right_needs_type_guard",
    "psound_pushdown_join_condition_left_partial", "psound_pushdown_join_condition_right_partial",
    "psound_in_to_exists_partial", "psound_left_outer_apply_to_inner_apply_partial",
    "psound_pushdown_apply_scalar_agg_partial", "psound_pushdown_apply_group_agg_partial",
    "pushdown_apply_scalar_agg_merges_equal_left_rows",
    "lift_extends", "dfilter_extends", "dproj_extends", "dagg_extends",
    # rewriting below other operators (Thm/C01Congr.lean)
    "Ctx.out_eq", "ctx_congr", "ctx_congr_perm",
    # … below joins (Thm/C01CongrJoin.lean) and aggregations (Thm/C01CongrAgg.lean)
    "join_out", "join_congr_left", "join_congr_right", "join_congr_left_perm", "join_congr_right_perm",
    "hashjoin_out", "hashjoin_congr_left", "hashjoin_congr_right",
    "hashagg_out", "agg_out", "hashagg_congr", "agg_congr",
    # the translator's condition dictionary (Thm/C01Cond.lean): syntactic => semantic
    "DE.eval_congr", "indep_of_cols_disjoint", "readsWithin_of_cols_subset", "indepB_of_cols_disjoint",
    "readsWithinB_of_cols_subset", "depend_on_is_only_syntactic",
    # regression statements for removed rules (/repo bf65f8a)
    "and_null_not_equivalence", "or_null_not_equivalence",
    # the order property behind useless-order / sort-agg / merge-join (Thm/C01Order.lean); `is_orderby` and the
    # analysis' `merge` are pinned (c01_condition_pins.json)
    "sortRows_id_iff", "sortedBy_prefix", "is_orderby_sound", "class_claim_common_prefix_sound", "class_claim_max_unsound",
    # the two open value-unsound expression rules are truth-preserving; sound under AND / OR, not under NOT (Thm/C01Truth.lean)
    "truth_eq_trans_NNN", "truth_eq_trans_BBB", "truth_eq_trans_SSS", "truth_and_gt_lt_conflict_NNN", "truth_and_gt_lt_conflict_BBB",
    "truth_and_gt_lt_conflict_SSS", "PCtx.truth_congr", "truth_not_congr_fails",
]
RULES_JSON = os.path.join(vlib.LEAN, "RlModel/Gen/rules.json")
DOM = {"N": ["null", "n:0", "n:1", "n:-1", "n:2", "n:3", "n:-2"],
       "B": ["null", "b:true", "b:false"],
       "S": ["null", "s:", "s:a", "s:b"]}
SQLTY = {"N": "int", "B": "boolean", "S": "varchar"}


def sql_lit(tok):
    if tok == "null":
        return "NULL"
    if tok.startswith("n:"):
        return tok[2:]
    if tok == "b:true":
        return "true"
    if tok == "b:false":
        return "false"
    if tok.startswith("s:"):
        return "'%s'" % tok[2:]
    raise ValueError(tok)


def canon_to_tok(c):
    """harness canonical value -> model token"""
    if c == "null":
        return "null"
    if c.startswith("i32:") or c.startswith("i64:") or c.startswith("i16:"):
        return "n:" + c.split(":", 1)[1]
    if c.startswith("b:"):
        return c
    if c.startswith("s:"):
        return "s:" + bytes.fromhex(c[2:]).decode()
    return "?" + c


BIN = {"+": "+", "-": "-", "*": "*", "/": "/", "%": "%", "=": "=", "<>": "<>", ">": ">", "<": "<",
       ">=": ">=", "<=": "<=", "and": "AND", "or": "OR"}


def sql_of(ast, env):
    """pattern AST -> SQL text; env maps ?var -> SQL text (column name or literal)"""
    if isinstance(ast, str):
        if ast.startswith("?"):
            return env[ast]
        if ast == "null":
            return "NULL"
        return ast
    h, args = ast[0], ast[1:]
    if h == "if":
        return "(CASE WHEN %s THEN %s ELSE %s END)" % tuple(sql_of(a, env) for a in args)
    if len(args) == 2 and h in BIN:
        return "(%s %s %s)" % (sql_of(args[0], env), BIN[h], sql_of(args[1], env))
    if len(args) == 1 and h == "-":
        return "(- %s)" % sql_of(args[0], env)
    if len(args) == 1 and h == "not":
        return "(NOT %s)" % sql_of(args[0], env)
    if len(args) == 1 and h == "isnull":
        return "(%s IS NULL)" % sql_of(args[0], env)
    raise ValueError("cannot render %r" % (ast,))


def stages_env(rj):
    """stage composition for the harness' custom optimizer, from the translator's output"""
    calls = rj["stage_calls"]
    names = ["STAGE1_RULES", "STAGE2_RULES", "STAGE3_RULES"]
    st = []
    for k, nm in enumerate(names):
        lists = list(rj["stages"][nm])
        if k == 1:
            lists += rj["extra_rules"]
        st.append({"lists": lists, "iterations": int(calls[k][1]), "iter_limit": int(calls[k][2])})
    return json.dumps(st)


REQUEST_TIMEOUT_S = 90


# ---- join keys of mixed numeric class (recorded finding plan:join-key-of-mixed-numeric-class) -------------
def _sexp(text):
    toks = re.findall(r"\(|\)|\"[^\"]*\"|[^\s()]+", text)
    pos = [0]

    def rd():
        t = toks[pos[0]]
        pos[0] += 1
        if t == "(":
            out = []
            while pos[0] < len(toks) and toks[pos[0]] != ")":
                out.append(rd())
            pos[0] += 1
            return out
        return t
    try:
        return rd()
    except IndexError:
        return []


def _num_class(e, coltypes):
    """'int' | 'decimal' | 'float' | None (not a number, or unknown)"""
    if isinstance(e, str):
        m = re.fullmatch(r"\"?\$(\d+)\.(\d+)(?:\(\d+\))?\"?", e)
        if m:
            ty = coltypes.get((int(m.group(1)), int(m.group(2))), "")
            return "int" if re.match(r"(int|smallint|bigint)", ty) else "float" if re.match(r"(double|float|real)", ty) else "decimal" if re.match(r"(decimal|numeric)", ty) else None
        if re.fullmatch(r"-?\d+", e):
            return "int"
        if re.fullmatch(r"-?\d+\.\d+", e):
            return "decimal"
        return None
    if not e:
        return None
    h = e[0]
    if h == "cast" and len(e) == 3:
        ty = str(e[1]).lower()
        return "int" if re.match(r"(int|smallint|bigint)", ty) else "float" if re.match(r"(double|float|real)", ty) else "decimal" if re.match(r"(decimal|numeric)", ty) else None
    if h in ("+", "-", "*", "/", "%") or h == '"%"':
        cls = [_num_class(x, coltypes) for x in e[1:]]
        if any(c is None for c in cls):
            return None
        return "float" if "float" in cls else "decimal" if "decimal" in cls else "int"
    if h in ("ref", "desc") and len(e) == 2:
        return _num_class(e[1], coltypes)
    return None


def mixed_class_join_keys(plan, setup):
    """pairs (left key, right key) of a hash / merge join of the plan whose two sides are numbers of different class
    (INT / DECIMAL / DOUBLE): `=` compares them by value, the join's hash table and the merge compare them by variant"""
    coltypes = {}
    ti = 0
    for st in setup:
        m = re.match(r"create table (\w+)\s*\((.*)\)\s*$", st.strip(), re.I | re.S)
        if m:
            ci = 0
            for part in re.split(r",(?![^()]*\))", m.group(2)):
                part = part.strip()
                if re.match(r"(primary key|unique|constraint|foreign)\b", part, re.I):
                    continue
                w = part.split()
                if len(w) >= 2:
                    coltypes[(ti, ci)] = w[1].lower()
                ci += 1
            ti += 1
    out = []

    def walk(n):
        if isinstance(n, list) and n:
            if n[0] in ("hashjoin", "mergejoin") and len(n) == 7 and isinstance(n[3], list) and isinstance(n[4], list):
                for lk, rk in zip(n[3][1:], n[4][1:]):
                    a, b = _num_class(lk, coltypes), _num_class(rk, coltypes)
                    if a and b and a != b:
                        out.append((lk, rk, a, b))
            for x in n[1:]:
                walk(x)
    walk(_sexp(plan or ""))
    return out


HJ_MIXED_SIG = "plan:join-key-of-mixed-numeric-class"


def language_heads(rj):
    """the string heads of `define_language! { pub enum Expr` in src/planner/mod.rs"""
    try:
        src = open(os.path.join(vlib.REPO, "src/planner/mod.rs")).read()
    except OSError:
        return []
    return sorted(set(re.findall(r'^\s*"([^"]+)"\s*=\s*[A-Z]', src, re.M)))


def run_harness(ck, reqs, tag, stages):
    """Runs the requests through the c01 harness binary.  The optimizer is synchronous CPU-bound
    code: a statement that does not come back (egg not terminating) cannot be cancelled from
    inside, so the harness process is watched from here: no answer line for REQUEST_TIMEOUT_S
    seconds kills it, the pending request is answered `timeout`, and the rest is resumed."""
    import select
    import subprocess
    res = {}
    pending = list(reqs)
    round_ = 0
    while pending:
        round_ += 1
        path = os.path.join(ck.work, "%s.%d.jsonl" % (tag, round_))
        with open(path, "w") as f:
            for r in pending:
                f.write(json.dumps(r) + "\n")
        env = dict(vlib.ENV)
        env["VERIF_STAGES"] = stages
        p = subprocess.Popen([vlib.harness_bin("c01"), "sql", path], env=env, stdout=subprocess.PIPE, stderr=subprocess.DEVNULL, text=True)
        answered = 0
        timed_out = False
        while True:
            ready, _, _ = select.select([p.stdout], [], [], REQUEST_TIMEOUT_S)
            if not ready:
                timed_out = True
                p.kill()
                break
            line = p.stdout.readline()
            if not line:
                break
            line = line.strip()
            if line.startswith("{"):
                try:
                    j = json.loads(line)
                    res[j["id"]] = j
                    answered += 1
                except ValueError:
                    pass
        p.wait()
        if timed_out and answered < len(pending):
            hung = pending[answered]
            res[hung["id"]] = {"id": hung["id"], "setup_ok": True, "setup_msg": "", "timeout": True,
                               "results": [{"class": "timeout", "msg": "no answer within %d s (harness killed)" % REQUEST_TIMEOUT_S} for _ in hung["queries"]]}
            pending = pending[answered + 1:]
        elif answered < len(pending) and not timed_out:
            # the harness died (abort): answer the request it was on and go on
            hung = pending[answered]
            res[hung["id"]] = {"id": hung["id"], "setup_ok": True, "setup_msg": "", "timeout": False,
                               "results": [{"class": "panic", "msg": "harness process died"} for _ in hung["queries"]]}
            pending = pending[answered + 1:]
        else:
            pending = []
    return res


def run_driver(lines):
    rc, out = vlib.sh([vlib.lean_exe("drv_c01")], stdin="\n".join(lines) + "\n", timeout=1200)
    return out.split("\n")


def rows_key(rows):
    return sorted(tuple(r) for r in rows)


def concurrent_map(n):
    import concurrent.futures
    return concurrent.futures.ThreadPoolExecutor(max_workers=n)


def run(ck):
    # ---------------------------------------------------------------- 1. translator
    rc, out = vlib.sh([sys.executable, os.path.join(vlib.VERIF, "translator/gen_rules.py"), vlib.REPO])
    ck.log(out.strip().split("\n")[-1])
    if rc != 0:
        ck.report("translator:rules", "rule translator failed on the current source: " + out[-500:],
                  replay={"translator_output": out[-2000:]}, found_input=False)
        return ck.finish(level="proof")
    rj = json.load(open(RULES_JSON))
    stages = stages_env(rj)
    rules = rj["rules"]
    kf_excl = [(f["sig"], f["exclude_rules"]) for f in ck.known.values() if f["property"] == "C01" and f.get("exclude_rules")]
    known_rule_names = sorted({n for _, ex in kf_excl for n in ex})
    # findings whose root cause is an executor defect keep their rules in the second custom
    # variant, which is the reference where the unoptimized plan cannot run at all
    plan_level_names = sorted({n for f in ck.known.values() if f["property"] == "C01" and f.get("exclude_rules") and not f.get("executor_level") for n in f["exclude_rules"]})

    # ---------------------------------------------------------------- 2. Lean obligations
    insts = [(r, i) for r in rules for i in r.get("insts", [])]
    cand = []
    for r, i in insts:
        cand += ["C01.sound_" + i["thm"], "C01.unsound_" + i["thm"]]
    plan_rules = [r for r in rules if r["kind"] == "plan"]
    other_rules = [r for r in rules if r["kind"] in ("plan-other", "expr-other")]
    for r in plan_rules:
        cand += ["C01.psound_" + r["id"], "C01.punsound_" + r["id"]]
    cand += ["C01." + n for n in EXTRA_THEOREMS]
    status = {}
    errs_all = {}
    for mod, extra in (("RlModel.Thm.C01", ["drv_c01"]), ("RlModel.Thm.C01Plan", []), ("RlModel.Thm.C01PlanPerm", []), ("RlModel.Thm.C01Apply", []), ("RlModel.Thm.C01Congr", []), ("RlModel.Thm.C01CongrJoin", []), ("RlModel.Thm.C01CongrAgg", []), ("RlModel.Thm.C01Order", []), ("RlModel.Thm.C01Truth", []), ("RlModel.Thm.C01Cond", [])):
        st, log, errs = vlib.check_lean_obligations(mod, cand, "RlModel", extra)
        for n, v in st.items():
            if n not in status or (v["status"] == "ok" and status[n]["status"] != "ok") or (status[n]["status"] == "missing" and v["status"] != "missing"):
                status[n] = v
        errs_all.update(errs)
    forb = vlib.lean_forbidden(vlib.lean_sources("RlModel.Thm.C01") + vlib.lean_sources("RlModel.Thm.C01Plan") + vlib.lean_sources("RlModel.Thm.C01PlanPerm") + vlib.lean_sources("RlModel.Thm.C01Apply") + vlib.lean_sources("RlModel.Thm.C01Congr") + vlib.lean_sources("RlModel.Thm.C01CongrJoin") + vlib.lean_sources("RlModel.Thm.C01CongrAgg") + vlib.lean_sources("RlModel.Thm.C01Order") + vlib.lean_sources("RlModel.Thm.C01Truth") + vlib.lean_sources("RlModel.Thm.C01Cond"))
    obligations = {}
    refuted, broken = [], []
    prefuted, pbroken = [], []
    for r, i in insts:
        s_ok = status.get("C01.sound_" + i["thm"], {}).get("status") == "ok" and not forb
        u_ok = status.get("C01.unsound_" + i["thm"], {}).get("status") == "ok" and not forb
        name = "stmt_" + i["thm"]
        if s_ok:
            obligations[name] = dict(status["C01.sound_" + i["thm"]], by="sound_" + i["thm"])
        elif u_ok:
            obligations[name] = dict(status["C01.unsound_" + i["thm"]], by="unsound_" + i["thm"], refuted=True)
            refuted.append((r, i))
        else:
            st = status.get("C01.sound_" + i["thm"], {"status": "missing"})
            obligations[name] = {"status": st.get("status", "missing") if st.get("status") != "ok" else "forbidden",
                                 "axioms": [], "detail": st.get("detail", [])[:2]}
            broken.append((r, i))
    for r in plan_rules:
        s_ok = status.get("C01.psound_" + r["id"], {}).get("status") == "ok" and not forb
        u_ok = status.get("C01.punsound_" + r["id"], {}).get("status") == "ok" and not forb
        name = r["pstmt"]
        if s_ok:
            obligations[name] = dict(status["C01.psound_" + r["id"]], by="psound_" + r["id"])
        elif u_ok:
            obligations[name] = dict(status["C01.punsound_" + r["id"]], by="punsound_" + r["id"], refuted=True)
            prefuted.append(r)
        else:
            st = status.get("C01.psound_" + r["id"], {"status": "missing"})
            if st.get("status") == "missing" and r["name"] in UNPROVED_PLAN_RULES:
                continue   # listed as unproved (not counted as an obligation), see below
            obligations[name] = {"status": st.get("status", "missing") if st.get("status") != "ok" else "forbidden",
                                 "axioms": [], "detail": st.get("detail", [])[:2]}
            pbroken.append(r)
    for n in EXTRA_THEOREMS:
        st = status.get("C01." + n, {"status": "missing"})
        ok_ = st.get("status") == "ok" and not forb
        obligations["thm:" + n] = dict(st, by=n) if ok_ else {"status": st.get("status", "missing") if st.get("status") != "ok" else "forbidden", "axioms": [], "detail": st.get("detail", [])[:2]}
        if not ok_:
            ck.report("obligation:" + n, "theorem %s (a partial-soundness / guard-necessity / regression statement) no longer checks" % n,
                      replay={"theorem": n, "status": obligations["thm:" + n]}, found_input=False)
    ck.add_obligations(obligations)
    ck.coverage["unproved"] = {
        "not_translatable (avg, vector index rules; covered by the differential run only)": [r["name"] for r in other_rules],
        "translated, proof not finished (covered by the differential run only)": sorted(n for n in UNPROVED_PLAN_RULES if any(r["name"] == n for r in plan_rules) and ("pstmt_" + vlib.slug(n).replace("-", "_")) not in obligations),
    }
    ck.coverage["relative_to_contracts"] = {"C12 (scan order) / C13 (range scan) / C11 (merge join, sort agg = hash variants)": ["useless-order", "merge-join", "sort-agg", "filter-scan", "filter-scan-1"]}
    # rules the translator cannot state have no theorem; their exact text is pinned, so that an edit
    # to one of them is at least reported (the differential run is then the only search)
    pins = json.load(open(os.path.join(vlib.VERIF, "checks", "c01_untranslatable_rules.json")))
    for r in other_rules:
        if r["name"] in pins and pins[r["name"]] != r["sig"]:
            ck.report("rule-text-changed:" + r["name"], "rule %s has no Lean statement (not translatable) and its definition changed: was `%s`, is `%s`" % (r["name"], pins[r["name"]], r["sig"]),
                      replay={"rule": r["name"], "was": pins[r["name"]], "is": r["sig"]}, found_input=False)
    # the side conditions and appliers are translated by NAME (condition dictionary): the text of
    # the Rust functions behind the names is pinned, so that an edit is at least reported
    import c17 as _c17
    cpins = json.load(open(os.path.join(vlib.VERIF, "checks", "c01_condition_pins.json")))
    for key, was in cpins.items():
        base, fn = key.split(":")
        try:
            now = _c17.fn_text(os.path.join(vlib.REPO, "src/planner/rules", base), fn)
        except (ValueError, OSError):
            now = "<not found>"
        if now != was:
            ck.report("condition-source-changed:" + fn, "`%s` (src/planner/rules/%s) is a side condition / applier the translator reads by name, and its definition changed: the statements no longer follow it" % (fn, base),
                      replay={"function": key, "was": was, "is": now}, found_input=False)
    # constant analysis acts like a rewrite (`union_constant` replaces an e-class by its constant): the arms of
    # `eval_constant` are read from the source; the fold model (Model/KernelFold.lean, C14/C16) and this check's
    # witnesses cover constants, binary / unary operators, IS NULL and CAST — an arm for anything else (a reference
    # to a column, an aggregate: both were defects, fixes b5b0fad / 72f907b) is outside what is shown sound
    try:
        ec = _c17.fn_text(os.path.join(vlib.REPO, "src/planner/rules/expr.rs"), "eval_constant")
        ec_arms = sorted(set(re.findall(r"let &?([A-Z][A-Za-z0-9]*)\s*[\(\[]", ec)) | set(re.findall(r"\|\s*&?([A-Z][A-Za-z0-9]*)\s*\(", ec)))
        extra_arms = [a for a in ec_arms if a not in ("Constant", "IsNull", "Cast", "Some")]
        if extra_arms or "binary_op()" not in ec or "unary_op()" not in ec:
            ck.report("condition-source-changed:eval_constant-arms", "constant analysis (`eval_constant`, src/planner/rules/expr.rs) has an arm for %s: folding through it is not covered by any theorem (a reference to a constant column is NULL on the padded rows of an outer join; an aggregate of a constant is NULL on empty input)" % extra_arms,
                      replay={"function": "expr.rs:eval_constant", "arms": ec_arms, "text": ec}, found_input=False)
        ck.coverage["eval_constant_arms"] = ec_arms
    except (ValueError, OSError) as e:
        ck.report("condition-source-changed:eval_constant-arms", "eval_constant cannot be read (%s)" % e, replay={"function": "expr.rs:eval_constant"}, found_input=False)
    # a rule nobody knows about (new in the source): neither translated-and-proved nor listed
    for r in other_rules:
        if r["name"] not in KNOWN_UNTRANSLATABLE:
            ck.report("rule-untranslatable:" + r["name"], "rule %s is in the source but the translator cannot state it (%s): no theorem covers it" % (r["sig"], r.get("untranslatable")),
                      replay={"rule": r["sig"], "reason": r.get("untranslatable")}, found_input=False)
    for r in pbroken:
        ck.report("obligation:" + r["id"], "no theorem discharges %s (rule %s as it is in the source now)" % (r["pstmt"], r["sig"]),
                  replay={"theorem": "psound_" + r["id"], "status": obligations[r["pstmt"]], "rule": r["sig"]}, found_input=False)
    ck.coverage["refuted_plan_rules"] = [r["name"] for r in prefuted]
    ck.log("lean: %d expression-rule obligations (%d sound, %d refuted, %d broken); %d plan-rule statements (%d refuted, %d broken)" % (
        len(insts), len(insts) - len(refuted) - len(broken), len(refuted), len(broken), len(plan_rules), len(prefuted), len(pbroken)))

    # ---------------------------------------------------------------- 3. harness
    ok, clog = vlib.step_cargo(ck, ["c01"])
    if not ok:
        ck.report("build:harness", "harness does not build against the repository", replay={"log": clog[-2000:]}, found_input=False)
        return ck.finish(level="proof")

    # (A)+(B): every instantiation, all domain rows
    reqs, meta = [], {}
    drv_lines, drv_idx = [], []
    for r, i in insts:
        vs = i["vars"]
        cols = ["v%d" % k for k in range(len(vs))]
        env = {v: c for v, c in zip(vs, cols)}
        try:
            lhs_sql, rhs_sql = sql_of(r["lhs_ast"], env), sql_of(r["rhs_ast"], env)
        except ValueError as e:
            ck.notes.append("cannot render %s: %s" % (r["name"], e))
            continue
        doms = [DOM[s] for s in i["sorts"]]
        rows = list(itertools.product(*doms)) if vs else [()]
        setup = []
        if vs:
            setup.append("create table t(%s)" % ", ".join("%s %s" % (c, SQLTY[s]) for c, s in zip(cols, i["sorts"])))
            for chunk in range(0, len(rows), 50):
                setup.append("insert into t values " + ", ".join("(" + ", ".join(sql_lit(t) for t in row) + ")" for row in rows[chunk:chunk + 50]))
            q = "select %s, %s, %s from t" % (", ".join(cols), lhs_sql, rhs_sql)
        else:
            q = "select %s, %s" % (lhs_sql, rhs_sql)
        rid = "x:" + i["thm"]
        reqs.append({"id": rid, "engine": "mem", "setup": setup, "queries": [{"sql": q, "opt": "off"}]})
        meta[rid] = (r, i, rows, q, setup)
        for row in rows:
            drv_lines.append("eval %s %s" % (i["thm"], " ".join(row)))
            drv_idx.append((rid, row))
    res = run_harness(ck, reqs, "xrules", stages)
    model = {}
    for (rid, row), ans in zip(drv_idx, run_driver(drv_lines)):
        model.setdefault(rid, {})[row] = ans.strip().split(" ")
    n_eval = n_mism = n_rule_diff = 0
    mv_samples = []
    unexplained = []
    known_rule_sigs = {}
    for rid, (r, i, rows, q, setup) in meta.items():
        a = res.get(rid)
        if not a or not a["setup_ok"] or not a["results"] or a["results"][0]["class"] != "ok":
            # the unoptimized statement itself does not run: not comparable; record it
            ck.notes.append("rule side not executable unoptimized: %s (%s)" % (i["thm"], (a or {}).get("results", [{}])[0].get("msg", (a or {}).get("setup_msg", "no answer"))[:120]))
            continue
        nv = len(i["vars"])
        impl = {}
        for row in a["results"][0]["rows"]:
            toks = [canon_to_tok(c) for c in row]
            impl[tuple(toks[:nv])] = (toks[nv], toks[nv + 1])
        for row in rows:
            n_eval += 1
            m = model.get(rid, {}).get(row)
            im = impl.get(tuple(row))
            if m is None or len(m) != 3 or im is None:
                n_mism += 1
                ck.report("corr:expr-eval:" + i["thm"], "no comparable answer for %s on %s (model %s, impl %s)" % (i["thm"], row, m, im),
                          replay={"inst": i["thm"], "row": row, "sql": q, "setup": setup}, found_input=False)
                continue
            cond, ml, mr = m
            if (ml, mr) != im:
                n_mism += 1
                # the model's operator semantics is not what the evaluator computes: is a rule
                # thereby unsound on the implementation?  (decided by the rule-level oracle just
                # below: if the two sides differ on the implementation at this very row, that is
                # the concrete failing input)
                if len(mv_samples) < 5:
                    mv_samples.append({"inst": i["thm"], "row": row, "model": [ml, mr], "impl": list(im)})
                if not (cond == "1" and im[0] != im[1]):
                    unexplained.append({"inst": i["thm"], "row": row, "model": [ml, mr], "impl": list(im)})
            if cond == "1" and im[0] != im[1]:
                n_rule_diff += 1
                sig = r["sig"]
                replay = {"rule": r["name"], "inst": i["thm"], "row": dict(zip(i["vars"], row)), "sql": q, "setup": setup,
                          "lhs_value": im[0], "rhs_value": im[1],
                          "requests": [{"id": "replay", "engine": "mem", "setup": setup, "queries": [{"sql": q, "opt": "off"}]}]}
                what = "rewrite rule %s changes the value: with %s the left side is %s, the right side %s (real evaluator)" % (
                    r["name"], dict(zip(i["vars"], row)), im[0], im[1])
                if ck.report(sig, what, replay=replay) == "known":
                    known_rule_sigs[sig] = r["name"]
    if unexplained:
        ck.report("corr:expr-semantics", "the model's operator semantics and the real evaluator disagree on %d of %d rule-side evaluations without the two sides of the rule differing on the implementation there, e.g. %s" % (len(unexplained), n_eval, unexplained[0]),
                  replay={"samples": unexplained[:10], "stream": "model_vs_impl (expression rule sides)"},
                  found_input=False)
    # rule sides that cannot be executed unoptimized (literal NULL operands, CASE over
    # non-numeric branches): compare the OPTIMIZED answer of `select vars, lhs` with the model's
    # value of lhs.  For a refuted rule this is how its witness is replayed.
    reqs2, meta2 = [], {}
    for rid, (r, i, rows, q, setup) in meta.items():
        a = res.get(rid)
        if a and a["setup_ok"] and a["results"] and a["results"][0]["class"] == "ok":
            continue
        cols = ["v%d" % k for k in range(len(i["vars"]))]
        env = {v: c for v, c in zip(i["vars"], cols)}
        q2 = ("select %s, %s from t" % (", ".join(cols), sql_of(r["lhs_ast"], env))) if cols else "select %s" % sql_of(r["lhs_ast"], env)
        reqs2.append({"id": rid, "engine": "mem", "setup": setup, "queries": [{"sql": q2, "opt": "on"}]})
        meta2[rid] = q2
    res2 = run_harness(ck, reqs2, "xrules2", stages) if reqs2 else {}
    for rid, q2 in meta2.items():
        r, i, rows, q, setup = meta[rid]
        a = res2.get(rid)
        if not a or not a["setup_ok"] or not a["results"] or a["results"][0]["class"] != "ok":
            ck.notes.append("rule side not executable at all: %s" % i["thm"])
            continue
        nv = len(i["vars"])
        impl = {tuple(canon_to_tok(c) for c in row[:nv]): canon_to_tok(row[nv]) for row in a["results"][0]["rows"]}
        for row in rows:
            m = model.get(rid, {}).get(row)
            im = impl.get(tuple(row))
            if m is None or len(m) != 3 or im is None:
                continue
            n_eval += 1
            cond, ml, mr = m
            if cond == "1" and im != ml:
                n_rule_diff += 1
                what = "with rule %s present the optimized value of %s at %s is %s; SQL semantics (model) gives %s" % (
                    r["name"], r["lhs"], dict(zip(i["vars"], row)), im, ml)
                ck.report(r["sig"], what, replay={"rule": r["name"], "inst": i["thm"], "row": dict(zip(i["vars"], row)), "sql": q2, "setup": setup,
                                                    "optimized_value": im, "sql_value_per_model": ml,
                                                    "requests": [{"id": "replay", "engine": "mem", "setup": setup, "queries": [{"sql": q2, "opt": "on", "plans": True}]}]})
    # refuted obligations must be reproduced + known
    for r, i in refuted:
        if r["sig"] not in ck.known_seen and not any(v[0] == r["sig"] for v in ck.violations):
            # Lean says unsound, implementation did not show it on the domain rows
            ck.report("refuted-not-reproduced:" + i["thm"], "unsound_%s is proved in the model but the witness does not reproduce on the implementation (model no longer matches the code)" % i["thm"],
                      replay={"theorem": "unsound_" + i["thm"]}, found_input=False)
    # broken obligations: search
    for r, i in broken:
        sig = r["sig"]
        if any(v[0] == sig for v in ck.violations) or sig in ck.known_seen:
            continue  # the rule-level oracle above already produced the concrete failing input
        cex = run_driver(["cex " + i["thm"]])[0].strip()
        ck.report("obligation:" + i["thm"], "no theorem discharges stmt_%s (rule %s as it is in the source now); model counterexample: %s; not reproduced on the implementation" % (i["thm"], r["sig"], cex),
                  replay={"theorem": "sound_" + i["thm"], "status": obligations["stmt_" + i["thm"]], "model_counterexample": cex, "rule": r["sig"]},
                  found_input=False)

    # (B3) single-rule witnesses (corpus/C01/rules): both sides of ONE rule as concrete plans,
    # executed as they are; egg, saturating with exactly that rule, must put them in one e-class
    wdir = os.path.join(vlib.VERIF, "corpus", "C01", "rules")
    wreqs, wmeta = [], {}
    by_name = {r["name"]: r for r in rules}
    if os.path.isdir(wdir):
        for fn in sorted(os.listdir(wdir)):
            if fn.endswith(".json"):
                w = json.load(open(os.path.join(wdir, fn)))
                wreqs.append({"id": "w:" + w["rule"], "engine": "mem", "setup": w["setup"], "queries": [
                    {"plan": w["lhs"], "equiv": {"rhs": w["rhs"], "rules": [w["rule"]]}}, {"plan": w["rhs"]}]})
                wmeta["w:" + w["rule"]] = w
    wres = run_harness(ck, wreqs, "witness", stages) if wreqs else {}
    n_wit = 0
    for wid, w in wmeta.items():
        a = wres.get(wid)
        r = by_name.get(w["rule"])
        if not a or not a["setup_ok"] or len(a["results"]) != 2 or r is None:
            continue
        l, rr = a["results"]
        if l["class"] != "ok" or rr["class"] != "ok" or not l.get("equiv"):
            if w.get("must_rewrite"):
                # the right-hand side is what the Lean model of the rule's applier predicts
                # (Thm/C17Proj.lean applyProjOrder_witness): the real rule must produce it
                ck.report("rule-witness-not-rewritten:" + w["rule"], "egg, saturating with rule %s only, does not rewrite %s into %s (what the model of its applier builds), or a side does not run (equiv=%s, %s %s / %s %s)" % (
                    w["rule"], w["lhs"], w["rhs"], l.get("equiv"), l["class"], l.get("msg", "")[:80], rr["class"], rr.get("msg", "")[:80]),
                    replay={"rule": w["rule"], "witness": w, "lhs": l, "rhs": rr, "requests": [wreqs[[q["id"] for q in wreqs].index(wid)]]})
                continue
            ck.notes.append("rule witness %s not applicable any more (equiv=%s, %s/%s)" % (w["rule"], l.get("equiv"), l["class"], rr["class"]))
            continue
        n_wit += 1
        if rows_key(l["rows"]) != rows_key(rr["rows"]):
            ck.report(r["sig"], "rule %s rewrites %s into %s (one e-class in egg) but the two plans return different rows: %s vs %s" % (
                w["rule"], w["lhs"], w["rhs"], rows_key(l["rows"]), rows_key(rr["rows"])),
                replay={"rule": w["rule"], "witness": w, "lhs_rows": l["rows"], "rhs_rows": rr["rows"], "requests": [wreqs[[q["id"] for q in wreqs].index(wid)]]})

    # (B4) every executable plan rule on concrete instances of its left-hand side: egg saturates with
    # exactly that rule, one plan per e-node of the root class is run; all must return the rows of the
    # left-hand side (c01_ruleinst.py)
    import c01_ruleinst as RI
    ireqs, imeta, inoinst = [], {}, {}
    for r in plan_rules:
        try:
            ins = RI.instances(r)
        except RI.NoInst as e:
            inoinst[r["name"]] = str(e)
            continue
        for k, (text, env) in enumerate(ins):
            rid = "ri:%s#%d" % (r["name"], k)
            ireqs.append({"id": rid, "engine": env.get("engine", "mem"), "setup": RI.SETUP, "queries": [{"plan": text, "alts": {"rules": [r["name"]], "iters": 2}}]})
            imeta[rid] = (r, text, env)
    ires = {}
    if ireqs:
        nch = 8
        with concurrent_map(nch) as ex:
            for part in ex.map(lambda jc: run_harness(ck, jc[1], "ri%d" % jc[0], stages), enumerate([ireqs[j::nch] for j in range(nch)])):
                ires.update(part)
    istats = {"instances": len(ireqs), "lhs_not_executable": 0, "rule_did_not_fire": 0, "alternatives_run": 0, "rules_with_a_rewritten_instance": 0,
              "not_instantiated": inoinst}
    fired = set()
    for rid, (r, text, env) in imeta.items():
        a = ires.get(rid)
        if not a or not a["setup_ok"] or not a["results"]:
            ck.report("corr:rule-instances", "harness gave no answer for a rule instance (%s)" % rid, replay={"id": rid, "plan": text}, found_input=False)
            continue
        res0 = a["results"][0]
        if res0["class"] != "ok":
            istats["lhs_not_executable"] += 1       # the instantiator built an ill-formed left-hand side: not an instance
            continue
        alts = res0.get("alts", [])
        if len(alts) < 2:
            istats["rule_did_not_fire"] += 1
            continue
        fired.add(r["name"])
        ref = rows_key(res0["rows"])
        for alt in alts:
            istats["alternatives_run"] += 1
            if alt["class"] != "ok" or rows_key(alt["rows"]) != ref:
                ck.report(r["sig"], "rule %s rewrites %s into %s, which %s, while the left-hand side returns %s" % (
                    r["name"], text, alt["plan"], ("returns %s" % rows_key(alt["rows"])) if alt["class"] == "ok" else ("fails: %s %s" % (alt["class"], alt.get("msg", "")[:100])), ref),
                    replay={"rule": r["name"], "instance": env, "lhs": text, "lhs_rows": res0["rows"], "alternative": alt,
                            "requests": [q for q in ireqs if q["id"] == rid]})
                break
    istats["rules_with_a_rewritten_instance"] = len(fired)
    istats["rules_instantiated_but_never_rewritten"] = sorted({r["name"] for r, _, _ in imeta.values()} - fired)
    ck.coverage["rule_instances"] = istats
    ck.log("rule instances: %d (%d ill-formed, %d not rewritten), %d alternatives run, %d rules rewritten at least once, %d rules not instantiated" % (
        istats["instances"], istats["lhs_not_executable"], istats["rule_did_not_fire"], istats["alternatives_run"], len(fired), len(inoinst)))

    # (C) whole optimizer: on vs off vs custom(exclude known-unsound rules)
    nq = 120 if ck.quick() else 2500
    rng = random.Random(ck.seed * 7919 + 17)
    cases = c01_gen.gen_cases(rng, nq)
    # corpus first
    cdir = os.path.join(vlib.VERIF, "corpus", "C01")
    corpus = []
    if os.path.isdir(cdir):
        for fn in sorted(os.listdir(cdir)):
            if fn.endswith(".json"):
                corpus.append(json.load(open(os.path.join(cdir, fn))))
    cases = corpus + cases
    # hand-built witnesses with their own reference query (an equivalent formulation that can be
    # run unoptimized), for rules whose left-hand side the executor cannot run unoptimized
    wq = [c for c in cases if c.get("reference_sql")]
    cases = [c for c in cases if not c.get("reference_sql")]
    if wq:
        wr = run_harness(ck, [{"id": "rw%d" % k, "engine": "mem", "setup": c["setup"], "queries": [
            {"sql": c["sql"], "opt": "on", "plans": True}, {"sql": c["reference_sql"], "opt": "off"}]} for k, c in enumerate(wq)], "refwit", stages)
        for k, c in enumerate(wq):
            a = wr.get("rw%d" % k)
            r = by_name.get(c.get("witness_for_rule"))
            if not a or not a["setup_ok"] or len(a["results"]) != 2 or r is None:
                continue
            on, ref = a["results"]
            if on["class"] == "ok" and ref["class"] == "ok" and rows_key(on["rows"]) != rows_key(ref["rows"]):
                ck.report(r["sig"], "`%s` (optimized; plan %s) returns %s, the equivalent `%s` run unoptimized returns %s" % (
                    c["sql"], on.get("optimized"), rows_key(on["rows"]), c["reference_sql"], rows_key(ref["rows"])),
                    replay={"case": c, "on": on, "reference": ref})
    reqs = []
    for k, c in enumerate(cases):
        for eng in ("mem", "disk"):
            reqs.append({"id": "q%d:%s" % (k, eng), "engine": eng, "setup": c["setup"], "queries": [
                {"sql": c["sql"], "opt": "off", "plans": True}, {"sql": c["sql"], "opt": "on", "plans": True},
                {"sql": c["sql"], "opt": "custom", "exclude": known_rule_names, "plans": True},
                {"sql": c["sql"], "opt": "custom", "exclude": plan_level_names, "plans": True}]})
    # run in parallel chunks
    res = {}
    import concurrent.futures
    nchunks = 16
    chunks = [reqs[j::nchunks] for j in range(nchunks)]
    with concurrent.futures.ThreadPoolExecutor(max_workers=nchunks) as ex:
        for part in ex.map(lambda jc: run_harness(ck, jc[1], "opt%d" % jc[0], stages), enumerate(chunks)):
            res.update(part)
    stats = {"cases": len(cases), "runs": 0, "off_not_runnable": 0, "on_eq_off": 0, "known_rule_diffs": 0, "new_diffs": 0,
             "nonempty": 0, "features": {}, "on_fail": 0}
    # which operators of the plan language occur in the optimized plans that were run and compared
    # (the generator's reach, measured: a head that never occurs is named in the evidence)
    plan_heads = {}

    def count_heads(plan):
        for h in set(re.findall(r"\(([^\s()]+)", plan or "")) | set(re.findall(r"(?<=[\s(])(inner|left_outer|right_outer|full_outer|semi|anti|rowcount|row_number)(?=[\s)])", plan or "")):
            h = h.strip('"')
            plan_heads[h] = plan_heads.get(h, 0) + 1
    distinct = set()
    for k, c in enumerate(cases):
        for f in c.get("features", []):
            stats["features"][f] = stats["features"].get(f, 0) + 1
        for eng in ("mem", "disk"):
            a = res.get("q%d:%s" % (k, eng))
            if not a or not a["setup_ok"] or len(a["results"]) != 4:
                ck.report("corr:optimizer-run", "harness gave no answer for a generated case (%s)" % ((a or {}).get("setup_msg", "no answer")[:200]),
                          replay={"case": c, "engine": eng}, found_input=False)
                continue
            off, on, cu, cu2 = a["results"]
            stats["runs"] += 1
            if on["class"] == "ok":
                count_heads(on.get("optimized"))

            def key(x):
                return ("fail",) if x["class"] != "ok" else c01_gen.result_key(c, x["rows"])

            def has_nl_outer(plan):
                return False    # nested-loop right/full outer joins run since fix 7d07810 (were todo!())
            off_ok = off["class"] == "ok"
            on_nl = False
            if not off_ok:
                stats["off_not_runnable"] += 1
            # reference: the unoptimized answer; where the bound plan cannot run, the optimizer
            # without the rules of the recorded findings
            if off_ok:
                ref, refname = off, "off"
            else:
                ref, refname = (cu2, "custom2") if has_nl_outer(off.get("bound")) else (cu, "custom")
                if ref["class"] != "ok" or has_nl_outer(ref.get("optimized")):
                    continue    # nothing to compare with
            if ref["rows"]:
                stats["nonempty"] += 1
                distinct.add(c["sql"])
            if on["class"] != "ok":
                stats["on_fail"] += 1
            if key(on) == key(ref) and not on_nl:
                stats["on_eq_off"] += 1
                continue
            replay = {"case": c, "engine": eng, "reference": refname, "ref": ref, "off": off, "on": on, "custom": cu,
                      "requests": [{"id": "replay", "engine": eng, "setup": c["setup"], "queries": [{"sql": c["sql"], "opt": "off", "plans": True}, {"sql": c["sql"], "opt": "on", "plans": True}]}]}
            if on_nl:
                stats["known_rule_diffs"] += 1
                ck.report("plan:nl-outer-join-left-in-optimized-plan", "the optimized plan of `%s` keeps a nested-loop right/full outer join, which the executor cannot run (todo!(): the statement fails)" % c["sql"], replay=replay)
                continue
            # the recorded finding `plan:join-key-of-mixed-numeric-class`: BOTH a join key pair of different numeric
            # class in the optimized plan AND the reference's answer again without the hash-join rules (nothing else
            # about hash joins is attributed to it)
            mixed = mixed_class_join_keys(on.get("optimized"), c["setup"]) if on["class"] == "ok" else []
            if mixed:
                hj_rules = sorted(n for n in by_name if n.startswith("hash-join"))
                one = run_harness(ck, [{"id": "one", "engine": eng, "setup": c["setup"], "queries": [{"sql": c["sql"], "opt": "custom", "exclude": hj_rules, "plans": True}]}], "hjm%d" % k, stages).get("one")
                if one and one["results"] and key(one["results"][0]) == key(ref) and not mixed_class_join_keys(one["results"][0].get("optimized"), c["setup"]):
                    stats["known_rule_diffs"] += 1
                    ck.report(HJ_MIXED_SIG, "optimizer changes the answer of `%s` on %s: the optimized plan joins on the key pair %s = %s (%s vs %s), which `=` compares by value and the hash / merge join by variant; the answer is the reference's again without the hash-join rules" % (
                        c["sql"], eng, mixed[0][0], mixed[0][1], mixed[0][2], mixed[0][3]), replay=replay)
                    continue
            # differs.  Is it explained by the rules of ONE recorded finding (the answer is the
            # reference's again once exactly those rules are left out)?
            explained = (refname != "off") or (key(cu) == key(off)) or on["class"] == "timeout"
            culprit = None
            if on["class"] == "timeout":
                # try the non-termination finding first (every other attempt would wait for the watchdog)
                kf_try = sorted(kf_excl, key=lambda se: 0 if "does-not-terminate" in se[0] else 1)[:1]
            else:
                kf_try = [se for se in kf_excl if "does-not-terminate" not in se[0]]
            if explained:
                for sig, ex in kf_try:
                    one = run_harness(ck, [{"id": "one", "engine": eng, "setup": c["setup"], "queries": [{"sql": c["sql"], "opt": "custom", "exclude": ex, "plans": True}]}], "one%d" % k, stages).get("one")
                    if one and one["results"] and not has_nl_outer(one["results"][0].get("optimized")) and key(one["results"][0]) == key(ref):
                        culprit = sig
                        break
            if culprit:
                stats["known_rule_diffs"] += 1
                ck.report(culprit, "optimizer changes the answer of `%s` (%s instead of %s); the answer is the reference's again without the rule(s) of this finding" % (
                    c["sql"], on.get("msg") or str(on.get("rows"))[:80], str(ref.get("rows"))[:80]), replay=replay)
                continue
            if explained:
                stats["known_rule_diffs"] += 1
                ck.report("optimizer:combination-of-known-unsound-rules", "optimizer changes the answer of `%s`; it is the reference's again with all recorded unsound rules removed together (no single finding explains it)" % c["sql"][:160], replay=replay)
                continue
            stats["new_diffs"] += 1
            ck.report("opt:on-off-differ:" + vlib.slug(c["sql"])[:60], "optimizer changes the answer of `%s` on %s (reference: %s; not explained by any recorded finding)" % (c["sql"], eng, refname), replay=replay)
    # ---------------------------------------------------------------- (C2) data-modifying statements
    # INSERT … SELECT / DELETE plans are optimized too: the tables afterwards must be the same whether
    # the statement ran optimized or as bound (one database per mode; probes run unoptimized)
    dml_cases = c01_gen.gen_dml_cases(random.Random(ck.seed * 7919 + 5))
    dreqs = []

    def dml_req(rid, eng, c, mode, exclude=None):
        dq = [dict({"sql": q, "opt": mode}, **({"exclude": exclude} if exclude is not None else {})) for q in c["dml"]]
        return {"id": rid, "engine": eng, "setup": c["setup"], "queries": dq + [{"sql": q, "opt": "off"} for q in c["probes"]]}
    for k, c in enumerate(dml_cases):
        for eng in ("mem", "disk"):
            dreqs.append(dml_req("d%d:%s:off" % (k, eng), eng, c, "off"))
            dreqs.append(dml_req("d%d:%s:on" % (k, eng), eng, c, "on"))
            dreqs.append(dml_req("d%d:%s:custom" % (k, eng), eng, c, "custom", known_rule_names))
    dres = {}
    dchunks = [dreqs[j::8] for j in range(8)]
    with concurrent.futures.ThreadPoolExecutor(max_workers=8) as ex:
        for part in ex.map(lambda jc: run_harness(ck, jc[1], "dml%d" % jc[0], stages), enumerate(dchunks)):
            dres.update(part)
    dstats = {"cases": len(dml_cases), "compared": 0, "differ": 0, "explained_by_known_rules": 0, "reference_custom": 0, "not_runnable": 0}

    def dkey(a, c):
        n = len(c["dml"]) + len(c["probes"])
        if not a or not a["setup_ok"] or len(a["results"]) != n or any(x["class"] != "ok" for x in a["results"]):
            return None
        return [sorted(map(tuple, x["rows"])) for x in a["results"]]
    for k, c in enumerate(dml_cases):
        for eng in ("mem", "disk"):
            off, on, cu = (dkey(dres.get("d%d:%s:%s" % (k, eng, m)), c) for m in ("off", "on", "custom"))
            # reference: the statement run as bound; where the bound plan cannot run (a subquery the executor
            # has no operator for), the optimizer without the rules of the recorded findings
            ref, refname = (off, "off") if off is not None else (cu, "custom")
            if ref is None:
                dstats["not_runnable"] += 1
                continue
            if refname == "custom":
                dstats["reference_custom"] += 1
            dstats["compared"] += 1
            if on == ref:
                continue
            dstats["differ"] += 1
            rp = {"case": c, "engine": eng, "reference": refname, "on": dres.get("d%d:%s:on" % (k, eng)), "ref": dres.get("d%d:%s:%s" % (k, eng, refname)),
                  "requests": [dml_req("replay-off", eng, c, "off"), dml_req("replay-on", eng, c, "on")]}
            culprit = None
            if refname == "custom" or cu == ref:
                for sig, ex in [se for se in kf_excl if "does-not-terminate" not in se[0]]:
                    one = run_harness(ck, [dml_req("one", eng, c, "custom", ex)], "done%d" % k, stages).get("one")
                    if dkey(one, c) == ref:
                        culprit = sig
                        break
                dstats["explained_by_known_rules"] += 1
                ck.report(culprit or "optimizer:combination-of-known-unsound-rules",
                          "the tables after `%s` differ between the optimized run and the reference (%s) on %s; they agree again without the rule(s) of this finding" % (
                              " ; ".join(c["dml"]), refname, eng), replay=rp)
                continue
            ck.report("opt:dml-on-off-differ:" + vlib.slug(" ; ".join(c["dml"]))[:60],
                      "the tables after `%s` differ between the optimized run and the reference (%s) on %s (not explained by any recorded finding)" % (
                          " ; ".join(c["dml"]), refname, eng), replay=rp)
    stats["dml"] = dstats
    # every refuted plan rule must have been reproduced on the implementation (corpus cases do that)
    for r in prefuted:
        sigs = [f["sig"] for f in ck.known.values() if f["property"] == "C01" and (r["name"] in (f.get("exclude_rules") or []) or f.get("rule") == r["name"])]
        if not any(sg in ck.known_seen for sg in sigs) and not any(v[0] in sigs for v in ck.violations):
            ck.report("refuted-not-reproduced:" + r["id"], "punsound_%s is proved in the model but no generated or corpus query reproduces it on the implementation" % r["id"],
                      replay={"theorem": "punsound_" + r["id"], "rule": r["sig"]}, found_input=False)
    ck.coverage.update({
        "evaluations": n_eval + stats["runs"],
        "distinct_nontrivial": len(distinct) + len(meta),
        "rule": "(A/B) every expression-rule instantiation evaluated on the full product of small per-sort domains through SQL with the optimizer off, vs the Lean model and lhs vs rhs; (C) generated queries (joins, filters, aggregates, order/limit, subqueries) x {mem, disk} x optimizer {off, on, on-without-known-unsound-rules}; distinct_nontrivial = distinct query texts with a non-empty answer + rule instantiations compared",
        "samples": [c["sql"] for c in cases[:6]] + drv_lines[:3],
        "model_vs_impl": {"compared": n_eval, "disagree": n_mism},
        "optimized_plan_operators": {"occurrences": dict(sorted(plan_heads.items(), key=lambda kv: -kv[1])),
                                     "language_heads_never_in_a_compared_optimized_plan": sorted(h for h in language_heads(rj) if h not in plan_heads)},
        "impl_vs_oracle": {"rule_sides_compared": n_eval, "rule_sides_differ": n_rule_diff, "optimizer": stats},
        "single_rule_witnesses_run": n_wit,
        "rules_in_source": len(rules), "expression_rule_instantiations": len(insts),
        "known_unsound_rules_excluded_in_custom_mode": known_rule_names,
        "notes": ck.notes[:20],
    })
    return ck.finish(level="proof",
                     checker_cmd="python3 translator/gen_rules.py /repo && lake build RlModel.Thm.C01 && #print axioms audit",
                     trusted_base=["Lean 4 kernel (axioms: propext, Classical.choice, Quot.sound)",
                                   "translator/gen_rules.py (pattern parser, sort inference, condition dictionary)",
                                   "typed operator semantics Model/XSem.lean, tied to the evaluator by the exhaustive small-domain comparison (A)",
                                   "egg saturation/extraction trusted to stay within the proved rewrite relation; checked by differential (C)",
                                   "rlverif c01 harness, python query generator"])


def replay(path):
    j = json.load(open(path))
    reqs = (j.get("replay") or {}).get("requests")
    if not reqs:
        print(json.dumps(j, indent=1))
        return 0
    rj = json.load(open(RULES_JSON))
    ok, log = vlib.cargo_build(["c01"])
    p = path + ".req.jsonl"
    with open(p, "w") as f:
        for r in reqs:
            f.write(json.dumps(r) + "\n")
    rc, out = vlib.sh([vlib.harness_bin("c01"), "sql", p], env={"VERIF_STAGES": stages_env(rj)})
    os.unlink(p)
    print(out)
    return 0
