"""C01 — query optimization never changes a query's answer.

1. translator: re-extract all rw! rules from /repo (Gen/Rules.lean, Gen/rules.json)
2. Lean: every expression-rule instantiation has `sound_…` or (`unsound_…` + known finding);
   plan-rule theorems (Thm/C01Plan.lean) likewise, keyed by rule name
3. harness: (A) the model's operator semantics vs the real evaluator on every rule side;
   (B) every rule's two sides on the implementation (rule-level oracle), witnesses of refuted
       rules replayed; (C) whole optimizer on vs off vs "all rules except the known-unsound ones"
       on generated queries, both engines
4. decide.
"""
import itertools
import json
import os
import random
import re
import sys

import vlib

HERE = os.path.dirname(os.path.abspath(__file__))
sys.path.insert(0, HERE)
import c01_gen  # noqa: E402  query generator (shared with C17)

RULES_JSON = os.path.join(vlib.LEAN, "RlModel/Gen/rules.json")
DOM = {"N": ["null", "n:0", "n:1", "n:-1", "n:2", "n:3", "n:-2"],
       "B": ["null", "b:true", "b:false"],
       "S": ["null", "s:", "s:a", "s:b"]}
SQLTY = {"N": "int", "B": "boolean", "S": "varchar"}


def sql_lit(tok):
    if tok == "null":
        return "NULL"
    if tok.startswith("n:"):
        return tok[2:]
    if tok == "b:true":
        return "true"
    if tok == "b:false":
        return "false"
    if tok.startswith("s:"):
        return "'%s'" % tok[2:]
    raise ValueError(tok)


def canon_to_tok(c):
    """harness canonical value -> model token"""
    if c == "null":
        return "null"
    if c.startswith("i32:") or c.startswith("i64:") or c.startswith("i16:"):
        return "n:" + c.split(":", 1)[1]
    if c.startswith("b:"):
        return c
    if c.startswith("s:"):
        return "s:" + bytes.fromhex(c[2:]).decode()
    return "?" + c


BIN = {"+": "+", "-": "-", "*": "*", "/": "/", "%": "%", "=": "=", "<>": "<>", ">": ">", "<": "<",
       ">=": ">=", "<=": "<=", "and": "AND", "or": "OR"}


def sql_of(ast, env):
    """pattern AST -> SQL text; env maps ?var -> SQL text (column name or literal)"""
    if isinstance(ast, str):
        if ast.startswith("?"):
            return env[ast]
        if ast == "null":
            return "NULL"
        return ast
    h, args = ast[0], ast[1:]
    if h == "if":
        return "(CASE WHEN %s THEN %s ELSE %s END)" % tuple(sql_of(a, env) for a in args)
    if len(args) == 2 and h in BIN:
        return "(%s %s %s)" % (sql_of(args[0], env), BIN[h], sql_of(args[1], env))
    if len(args) == 1 and h == "-":
        return "(- %s)" % sql_of(args[0], env)
    if len(args) == 1 and h == "not":
        return "(NOT %s)" % sql_of(args[0], env)
    if len(args) == 1 and h == "isnull":
        return "(%s IS NULL)" % sql_of(args[0], env)
    raise ValueError("cannot render %r" % (ast,))


def stages_env(rj):
    """stage composition for the harness' custom optimizer, from the translator's output"""
    calls = rj["stage_calls"]
    names = ["STAGE1_RULES", "STAGE2_RULES", "STAGE3_RULES"]
    st = []
    for k, nm in enumerate(names):
        lists = list(rj["stages"][nm])
        if k == 1:
            lists += rj["extra_rules"]
        st.append({"lists": lists, "iterations": int(calls[k][1]), "iter_limit": int(calls[k][2])})
    return json.dumps(st)


def run_harness(ck, reqs, tag, stages):
    path = os.path.join(ck.work, tag + ".jsonl")
    with open(path, "w") as f:
        for r in reqs:
            f.write(json.dumps(r) + "\n")
    rc, out = vlib.sh([vlib.harness_bin("c01"), "sql", path], env={"VERIF_STAGES": stages}, timeout=3000)
    res = {}
    for line in out.split("\n"):
        line = line.strip()
        if line.startswith("{"):
            try:
                j = json.loads(line)
                res[j["id"]] = j
            except ValueError:
                pass
    return res


def run_driver(lines):
    rc, out = vlib.sh([vlib.lean_exe("drv_c01")], stdin="\n".join(lines) + "\n", timeout=1200)
    return out.split("\n")


def rows_key(rows):
    return sorted(tuple(r) for r in rows)


def run(ck):
    # ---------------------------------------------------------------- 1. translator
    rc, out = vlib.sh([sys.executable, os.path.join(vlib.VERIF, "translator/gen_rules.py"), vlib.REPO])
    ck.log(out.strip().split("\n")[-1])
    if rc != 0:
        ck.report("translator:rules", "rule translator failed on the current source: " + out[-500:],
                  replay={"translator_output": out[-2000:]}, found_input=False)
        return ck.finish(level="proof")
    rj = json.load(open(RULES_JSON))
    stages = stages_env(rj)
    rules = rj["rules"]
    kf_excl = [(f["sig"], f["exclude_rules"]) for f in ck.known.values() if f["property"] == "C01" and f.get("exclude_rules")]
    known_rule_names = sorted({n for _, ex in kf_excl for n in ex})
    # findings whose root cause is an executor defect keep their rules in the second custom
    # variant, which is the reference where the unoptimized plan cannot run at all
    plan_level_names = sorted({n for f in ck.known.values() if f["property"] == "C01" and f.get("exclude_rules") and not f.get("executor_level") for n in f["exclude_rules"]})

    # ---------------------------------------------------------------- 2. Lean obligations
    insts = [(r, i) for r in rules for i in r.get("insts", [])]
    cand = []
    for r, i in insts:
        cand += ["C01.sound_" + i["thm"], "C01.unsound_" + i["thm"]]
    plan_rules = [r for r in rules if r["kind"] != "xexpr"]
    plan_mod = os.path.exists(os.path.join(vlib.LEAN, "RlModel/Thm/C01Plan.lean"))
    status, log, errs = vlib.check_lean_obligations("RlModel.Thm.C01", cand, "RlModel", ["drv_c01"])
    forb = vlib.lean_forbidden(vlib.lean_sources("RlModel.Thm.C01"))
    obligations = {}
    refuted, broken = [], []
    for r, i in insts:
        s_ok = status.get("C01.sound_" + i["thm"], {}).get("status") == "ok" and not forb
        u_ok = status.get("C01.unsound_" + i["thm"], {}).get("status") == "ok" and not forb
        name = "stmt_" + i["thm"]
        if s_ok:
            obligations[name] = dict(status["C01.sound_" + i["thm"]], by="sound_" + i["thm"])
        elif u_ok:
            obligations[name] = dict(status["C01.unsound_" + i["thm"]], by="unsound_" + i["thm"], refuted=True)
            refuted.append((r, i))
        else:
            st = status.get("C01.sound_" + i["thm"], {"status": "missing"})
            obligations[name] = {"status": st.get("status", "missing") if st.get("status") != "ok" else "forbidden",
                                 "axioms": [], "detail": st.get("detail", [])[:2]}
            broken.append((r, i))
    ck.add_obligations(obligations)
    ck.coverage["unproved"] = {"plan_rules_covered_by_correspondence_only": [r["name"] for r in plan_rules]} if not plan_mod else {}
    ck.log("lean: %d expression-rule obligations, %d sound, %d refuted (need known finding), %d broken" % (
        len(insts), len(insts) - len(refuted) - len(broken), len(refuted), len(broken)))

    # ---------------------------------------------------------------- 3. harness
    ok, clog = vlib.step_cargo(ck, ["c01"])
    if not ok:
        ck.report("build:harness", "harness does not build against the repository", replay={"log": clog[-2000:]}, found_input=False)
        return ck.finish(level="proof")

    # (A)+(B): every instantiation, all domain rows
    reqs, meta = [], {}
    drv_lines, drv_idx = [], []
    for r, i in insts:
        vs = i["vars"]
        cols = ["v%d" % k for k in range(len(vs))]
        env = {v: c for v, c in zip(vs, cols)}
        try:
            lhs_sql, rhs_sql = sql_of(r["lhs_ast"], env), sql_of(r["rhs_ast"], env)
        except ValueError as e:
            ck.notes.append("cannot render %s: %s" % (r["name"], e))
            continue
        doms = [DOM[s] for s in i["sorts"]]
        rows = list(itertools.product(*doms)) if vs else [()]
        setup = []
        if vs:
            setup.append("create table t(%s)" % ", ".join("%s %s" % (c, SQLTY[s]) for c, s in zip(cols, i["sorts"])))
            for chunk in range(0, len(rows), 50):
                setup.append("insert into t values " + ", ".join("(" + ", ".join(sql_lit(t) for t in row) + ")" for row in rows[chunk:chunk + 50]))
            q = "select %s, %s, %s from t" % (", ".join(cols), lhs_sql, rhs_sql)
        else:
            q = "select %s, %s" % (lhs_sql, rhs_sql)
        rid = "x:" + i["thm"]
        reqs.append({"id": rid, "engine": "mem", "setup": setup, "queries": [{"sql": q, "opt": "off"}]})
        meta[rid] = (r, i, rows, q, setup)
        for row in rows:
            drv_lines.append("eval %s %s" % (i["thm"], " ".join(row)))
            drv_idx.append((rid, row))
    res = run_harness(ck, reqs, "xrules", stages)
    model = {}
    for (rid, row), ans in zip(drv_idx, run_driver(drv_lines)):
        model.setdefault(rid, {})[row] = ans.strip().split(" ")
    n_eval = n_mism = n_rule_diff = 0
    mv_samples = []
    unexplained = []
    known_rule_sigs = {}
    for rid, (r, i, rows, q, setup) in meta.items():
        a = res.get(rid)
        if not a or not a["setup_ok"] or not a["results"] or a["results"][0]["class"] != "ok":
            # the unoptimized statement itself does not run: not comparable; record it
            ck.notes.append("rule side not executable unoptimized: %s (%s)" % (i["thm"], (a or {}).get("results", [{}])[0].get("msg", (a or {}).get("setup_msg", "no answer"))[:120]))
            continue
        nv = len(i["vars"])
        impl = {}
        for row in a["results"][0]["rows"]:
            toks = [canon_to_tok(c) for c in row]
            impl[tuple(toks[:nv])] = (toks[nv], toks[nv + 1])
        for row in rows:
            n_eval += 1
            m = model.get(rid, {}).get(row)
            im = impl.get(tuple(row))
            if m is None or len(m) != 3 or im is None:
                n_mism += 1
                ck.report("corr:expr-eval:" + i["thm"], "no comparable answer for %s on %s (model %s, impl %s)" % (i["thm"], row, m, im),
                          replay={"inst": i["thm"], "row": row, "sql": q, "setup": setup}, found_input=False)
                continue
            cond, ml, mr = m
            if (ml, mr) != im:
                n_mism += 1
                # the model's operator semantics is not what the evaluator computes: is a rule
                # thereby unsound on the implementation?  (decided by the rule-level oracle just
                # below: if the two sides differ on the implementation at this very row, that is
                # the concrete failing input)
                if len(mv_samples) < 5:
                    mv_samples.append({"inst": i["thm"], "row": row, "model": [ml, mr], "impl": list(im)})
                if not (cond == "1" and im[0] != im[1]):
                    unexplained.append({"inst": i["thm"], "row": row, "model": [ml, mr], "impl": list(im)})
            if cond == "1" and im[0] != im[1]:
                n_rule_diff += 1
                sig = r["sig"]
                replay = {"rule": r["name"], "inst": i["thm"], "row": dict(zip(i["vars"], row)), "sql": q, "setup": setup,
                          "lhs_value": im[0], "rhs_value": im[1],
                          "requests": [{"id": "replay", "engine": "mem", "setup": setup, "queries": [{"sql": q, "opt": "off"}]}]}
                what = "rewrite rule %s changes the value: with %s the left side is %s, the right side %s (real evaluator)" % (
                    r["name"], dict(zip(i["vars"], row)), im[0], im[1])
                if ck.report(sig, what, replay=replay) == "known":
                    known_rule_sigs[sig] = r["name"]
    if unexplained:
        ck.report("corr:expr-semantics", "the model's operator semantics and the real evaluator disagree on %d of %d rule-side evaluations without the two sides of the rule differing on the implementation there, e.g. %s" % (len(unexplained), n_eval, unexplained[0]),
                  replay={"samples": unexplained[:10], "stream": "model_vs_impl (expression rule sides)"},
                  found_input=False)
    # rule sides that cannot be executed unoptimized (literal NULL operands, CASE over
    # non-numeric branches): compare the OPTIMIZED answer of `select vars, lhs` with the model's
    # value of lhs.  For a refuted rule this is how its witness is replayed.
    reqs2, meta2 = [], {}
    for rid, (r, i, rows, q, setup) in meta.items():
        a = res.get(rid)
        if a and a["setup_ok"] and a["results"] and a["results"][0]["class"] == "ok":
            continue
        cols = ["v%d" % k for k in range(len(i["vars"]))]
        env = {v: c for v, c in zip(i["vars"], cols)}
        q2 = ("select %s, %s from t" % (", ".join(cols), sql_of(r["lhs_ast"], env))) if cols else "select %s" % sql_of(r["lhs_ast"], env)
        reqs2.append({"id": rid, "engine": "mem", "setup": setup, "queries": [{"sql": q2, "opt": "on"}]})
        meta2[rid] = q2
    res2 = run_harness(ck, reqs2, "xrules2", stages) if reqs2 else {}
    for rid, q2 in meta2.items():
        r, i, rows, q, setup = meta[rid]
        a = res2.get(rid)
        if not a or not a["setup_ok"] or not a["results"] or a["results"][0]["class"] != "ok":
            ck.notes.append("rule side not executable at all: %s" % i["thm"])
            continue
        nv = len(i["vars"])
        impl = {tuple(canon_to_tok(c) for c in row[:nv]): canon_to_tok(row[nv]) for row in a["results"][0]["rows"]}
        for row in rows:
            m = model.get(rid, {}).get(row)
            im = impl.get(tuple(row))
            if m is None or len(m) != 3 or im is None:
                continue
            n_eval += 1
            cond, ml, mr = m
            if cond == "1" and im != ml:
                n_rule_diff += 1
                what = "with rule %s present the optimized value of %s at %s is %s; SQL semantics (model) gives %s" % (
                    r["name"], r["lhs"], dict(zip(i["vars"], row)), im, ml)
                ck.report(r["sig"], what, replay={"rule": r["name"], "inst": i["thm"], "row": dict(zip(i["vars"], row)), "sql": q2, "setup": setup,
                                                    "optimized_value": im, "sql_value_per_model": ml,
                                                    "requests": [{"id": "replay", "engine": "mem", "setup": setup, "queries": [{"sql": q2, "opt": "on", "plans": True}]}]})
    # refuted obligations must be reproduced + known
    for r, i in refuted:
        if r["sig"] not in ck.known_seen and not any(v[0] == r["sig"] for v in ck.violations):
            # Lean says unsound, implementation did not show it on the domain rows
            ck.report("refuted-not-reproduced:" + i["thm"], "unsound_%s is proved in the model but the witness does not reproduce on the implementation (model no longer matches the code)" % i["thm"],
                      replay={"theorem": "unsound_" + i["thm"]}, found_input=False)
    # broken obligations: search
    for r, i in broken:
        sig = r["sig"]
        if any(v[0] == sig for v in ck.violations) or sig in ck.known_seen:
            continue  # the rule-level oracle above already produced the concrete failing input
        cex = run_driver(["cex " + i["thm"]])[0].strip()
        ck.report("obligation:" + i["thm"], "no theorem discharges stmt_%s (rule %s as it is in the source now); model counterexample: %s; not reproduced on the implementation" % (i["thm"], r["sig"], cex),
                  replay={"theorem": "sound_" + i["thm"], "status": obligations["stmt_" + i["thm"]], "model_counterexample": cex, "rule": r["sig"]},
                  found_input=False)

    # (C) whole optimizer: on vs off vs custom(exclude known-unsound rules)
    nq = 120 if ck.quick() else 2500
    rng = random.Random(ck.seed * 7919 + 17)
    cases = c01_gen.gen_cases(rng, nq)
    # corpus first
    cdir = os.path.join(vlib.VERIF, "corpus", "C01")
    corpus = []
    if os.path.isdir(cdir):
        for fn in sorted(os.listdir(cdir)):
            if fn.endswith(".json"):
                corpus.append(json.load(open(os.path.join(cdir, fn))))
    cases = corpus + cases
    reqs = []
    for k, c in enumerate(cases):
        for eng in ("mem", "disk"):
            reqs.append({"id": "q%d:%s" % (k, eng), "engine": eng, "setup": c["setup"], "queries": [
                {"sql": c["sql"], "opt": "off", "plans": True}, {"sql": c["sql"], "opt": "on"},
                {"sql": c["sql"], "opt": "custom", "exclude": known_rule_names},
                {"sql": c["sql"], "opt": "custom", "exclude": plan_level_names}]})
    # run in parallel chunks
    res = {}
    import concurrent.futures
    nchunks = 12
    chunks = [reqs[j::nchunks] for j in range(nchunks)]
    with concurrent.futures.ThreadPoolExecutor(max_workers=nchunks) as ex:
        for part in ex.map(lambda jc: run_harness(ck, jc[1], "opt%d" % jc[0], stages), enumerate(chunks)):
            res.update(part)
    stats = {"cases": len(cases), "runs": 0, "off_not_runnable": 0, "on_eq_off": 0, "known_rule_diffs": 0, "new_diffs": 0,
             "nonempty": 0, "features": {}, "on_fail": 0}
    distinct = set()
    for k, c in enumerate(cases):
        for f in c.get("features", []):
            stats["features"][f] = stats["features"].get(f, 0) + 1
        for eng in ("mem", "disk"):
            a = res.get("q%d:%s" % (k, eng))
            if not a or not a["setup_ok"] or len(a["results"]) != 4:
                ck.report("corr:optimizer-run", "harness gave no answer for a generated case (%s)" % ((a or {}).get("setup_msg", "no answer")[:200]),
                          replay={"case": c, "engine": eng}, found_input=False)
                continue
            off, on, cu, cu2 = a["results"]
            stats["runs"] += 1
            cmpf = (lambda x: c01_gen.result_key(c, x))
            if on["class"] != "ok":
                stats["on_fail"] += 1
                if off["class"] == "ok":
                    ck.report("opt:optimized-plan-fails:" + vlib.slug(c["sql"])[:40], "query runs unoptimized but fails optimized (%s): %s" % (on.get("msg", "")[:100], c["sql"]),
                              replay={"case": c, "engine": eng, "on": on, "requests": [{"id": "replay", "engine": eng, "setup": c["setup"], "queries": [{"sql": c["sql"], "opt": "off"}, {"sql": c["sql"], "opt": "on", "plans": True}]}]})
                continue
            # nested-loop right/full outer joins are `todo!()` in the executor (and the panic is
            # swallowed, see C15): a bound plan containing one cannot be run unoptimized
            nl_outer = ("(join right_outer" in off.get("bound", "")) or ("(join full_outer" in off.get("bound", ""))
            if off["class"] != "ok" or nl_outer:
                stats["off_not_runnable"] += 1
                ref, refname = (cu2, "custom2") if nl_outer else (cu, "custom")
                if ref["class"] != "ok":
                    continue
            else:
                ref, refname = off, "off"
            if ref["rows"]:
                stats["nonempty"] += 1
                distinct.add(c["sql"])
            if cmpf(on["rows"]) == cmpf(ref["rows"]):
                stats["on_eq_off"] += 1
                continue
            # differs: attributable to the known-unsound rules?
            if refname == "off" and cu["class"] == "ok" and cmpf(cu["rows"]) == cmpf(off["rows"]):
                # equal again once the rules of the recorded findings are left out: attribute it
                # to the one finding whose rules alone explain it
                stats["known_rule_diffs"] += 1
                culprit = None
                for sig, ex in kf_excl:
                    one = run_harness(ck, [{"id": "one", "engine": eng, "setup": c["setup"], "queries": [{"sql": c["sql"], "opt": "custom", "exclude": ex}]}], "one%d" % k, stages).get("one")
                    if one and one["results"] and one["results"][0]["class"] == "ok" and cmpf(one["results"][0]["rows"]) == cmpf(off["rows"]):
                        culprit = sig
                        break
                if culprit:
                    ck.report(culprit, "optimizer on/off differ on `%s`; equal again without the rule(s) of this finding" % c["sql"], replay={"case": c})
                else:
                    ck.known_seen.setdefault("optimizer:combination-of-known-unsound-rules", "on/off differ on `%s`; equal with all known-unsound rules removed" % c["sql"][:120])
                continue
            stats["new_diffs"] += 1
            ck.report("opt:on-off-differ:" + vlib.slug(c["sql"])[:60], "optimizer changes the answer of `%s` on %s (not explained by the known-unsound rules)" % (c["sql"], eng),
                      replay={"case": c, "engine": eng, "off": off, "on": on, "custom": cu,
                              "requests": [{"id": "replay", "engine": eng, "setup": c["setup"], "queries": [{"sql": c["sql"], "opt": "off", "plans": True}, {"sql": c["sql"], "opt": "on", "plans": True}]}]})
    ck.coverage.update({
        "evaluations": n_eval + stats["runs"],
        "distinct_nontrivial": len(distinct) + len(meta),
        "rule": "(A/B) every expression-rule instantiation evaluated on the full product of small per-sort domains through SQL with the optimizer off, vs the Lean model and lhs vs rhs; (C) generated queries (joins, filters, aggregates, order/limit, subqueries) x {mem, disk} x optimizer {off, on, on-without-known-unsound-rules}; distinct_nontrivial = distinct query texts with a non-empty answer + rule instantiations compared",
        "samples": [c["sql"] for c in cases[:6]] + drv_lines[:3],
        "model_vs_impl": {"compared": n_eval, "disagree": n_mism},
        "impl_vs_oracle": {"rule_sides_compared": n_eval, "rule_sides_differ": n_rule_diff, "optimizer": stats},
        "rules_in_source": len(rules), "expression_rule_instantiations": len(insts),
        "known_unsound_rules_excluded_in_custom_mode": known_rule_names,
        "notes": ck.notes[:20],
    })
    return ck.finish(level="proof",
                     checker_cmd="python3 translator/gen_rules.py /repo && lake build RlModel.Thm.C01 && #print axioms audit",
                     trusted_base=["Lean 4 kernel (axioms: propext, Classical.choice, Quot.sound)",
                                   "translator/gen_rules.py (pattern parser, sort inference, condition dictionary)",
                                   "typed operator semantics Model/XSem.lean, tied to the evaluator by the exhaustive small-domain comparison (A)",
                                   "egg saturation/extraction trusted to stay within the proved rewrite relation; checked by differential (C)",
                                   "rlverif c01 harness, python query generator"])


def replay(path):
    j = json.load(open(path))
    reqs = (j.get("replay") or {}).get("requests")
    if not reqs:
        print(json.dumps(j, indent=1))
        return 0
    rj = json.load(open(RULES_JSON))
    ok, log = vlib.cargo_build(["c01"])
    p = path + ".req.jsonl"
    with open(p, "w") as f:
        for r in reqs:
            f.write(json.dumps(r) + "\n")
    rc, out = vlib.sh([vlib.harness_bin("c01"), "sql", p], env={"VERIF_STAGES": stages_env(rj)})
    os.unlink(p)
    print(out)
    return 0
