"""C17 — every accepted query is planned into an executable plan.

1. Lean: theorems about the plan checker `check` / `resolve` / `schema` (Thm/C17.lean)
2. translator tie: the executor builder's match arms (node kinds with an executor) re-extracted
   from src/executor/mod.rs and compared with the model's table
3. harness (shared with C01): for generated statements x engines x statistics, the bound plan
   and the optimized plan of the REAL optimizer are (a) judged by the Lean checker — the same
   function the theorems are about — and (b) built and executed by the real executor
4. decide: model verdict vs real outcome (model_vs_impl); every accepted statement must get an
   accepted, executable optimized plan with the bound query's output arity (impl_vs_oracle).
"""
import json
import os
import random
import re
import sys

import vlib

HERE = os.path.dirname(os.path.abspath(__file__))
sys.path.insert(0, HERE)
import c01  # noqa: E402
import c01_gen  # noqa: E402

THEOREMS = ["Wf.indexOf?_bound", "Wf.resolve_bounded", "Wf.resolveList_bounded", "Wf.resolvesAll_ok",
            "Wf.check_filter_ok", "Wf.check_proj_ok", "Wf.check_order_ok", "Wf.check_hashagg_ok", "Wf.check_join_ok",
            "Wf.check_hashjoin_residual", "Wf.check_mergejoin_ok", "Wf.obligationsOk_ok", "Wf.check_apply", "Wf.schema_filter", "Wf.schema_order", "Wf.schema_limit",
            "Wf.schema_topn", "Wf.schema_proj", "Wf.schema_list", "Wf.applyProjOrder_schema", "Wf.wPlan_ok", "Wf.applyProjOrderOld_unsound",
            "Wf.applyProjOrder_regression",
            # expressions the evaluator can evaluate (no subquery form left in an operator's expressions)
            "Wf.evalOk_of_mem", "Wf.evalOk_subquery", "Wf.evalOk_node", "Wf.verdict_ok_iff", "Wf.verdict_ok_node",
            "Wf.wSub_builder_accepts", "Wf.wSub_not_evaluable", "Wf.wSub_verdict"]
# Thm/C17Proj.lean: projection pushdown keeps accepted plans accepted (repaired applier, fix 5c889c5)
# Thm/C17Agg.lean: an aggregate / window call in a scalar position is a reference to a column nobody produced
THEOREMS_AGG = ["Wf.scalarOk_of_mem", "Wf.scalarOk_agg_call", "Wf.scalarOk_iff_visited", "Wf.scalarOkList_iff_visited",
                "Wf.scalarOk_mono", "Wf.scalarOkList_mono", "Wf.aggRefsCheck_node", "Wf.wWin_ok", "Wf.wNoWin_builds_but_refused"]
THEOREMS_PROJ = ["Wf.Tm.beq_eq", "Wf.kept_resolves", "Wf.resolve_kept", "Wf.resolveList_kept", "Wf.applyProjOrder_keeps_ok",
                 "Wf.applyProjOrder_witness"]

# node kinds for which `build_id_subscriber` has an arm, as the model assumes (compared with the
# source on every run)
MODEL_ARMS = {"Scan", "Values", "Proj", "Filter", "Order", "Limit", "TopN", "Join", "HashJoin", "MergeJoin", "Apply",
              "Agg", "HashAgg", "SortAgg", "Window", "CreateTable", "CreateIndex", "CreateView", "CreateFunction", "Drop",
              "Insert", "Delete", "CopyFrom", "CopyTo", "Explain", "Analyze", "Empty"}


def extract_arms(repo):
    src = open(os.path.join(repo, "src/executor/mod.rs")).read()
    a = src.index("fn build_id_subscriber")
    b = src.index("node => panic!(\"not a plan", a)
    body = src[a:b]
    arms = set(re.findall(r"^\s{12}([A-Z][A-Za-z]+)\(", body, re.M))
    return arms


EXTRA_SQL = [
    "select a from t1 where a in (select x from t2)",
    "select a from t1 where a not in (select x from t2)",
    "select a from t1 where exists (select * from t2 where t2.x = t1.a)",
    "select a, (select count(*) from t2 where t2.x = t1.a) from t1",
    "select t1.a, t2.x from t1 join t2 on t1.a = t2.x join t3 on t2.y = t3.p",
    "select a, count(*) from t1 group by a having count(*) > 0 order by a",
    "select distinct a, b from t1 order by a desc, b limit 2 offset 1",
    "insert into t1 select x, y, z from t2",
    "delete from t1 where a in (select x from t2)",
    "select a from t1 union all select x from t2",
    "with c as (select a from t1) select * from c where a > 0",
    "select sum(a) over (partition by b) from t1",
    # aggregate / window calls that occur ONLY outside the select list: each must still be computed by an operator
    "select a from t1 order by row_number() over (order by a) desc",
    "select a, b from t1 order by sum(b) over (order by a, b, c), a",
    "select distinct a from t1 order by row_number() over (order by a)",
    "select a from t1 group by a order by count(*) desc, a",
    "select a from t1 group by a having max(b) > 1 order by min(b)",
    "select a + 1 from t1 group by a having count(distinct b) > 0",
    "select a, row_number() over (order by a) from t1 order by sum(b) over (order by a), a",
    "select count(*) from t1 having sum(b) > 0",
    "select a from t1 where b > 0 group by a order by sum(b) + count(*)",
    "select * from t1 full join t2 on t1.a = t2.x",
    "select * from t1 right join t2 on t1.a = t2.x and t2.y > 1",
    "select * from t1 left join t2 on t1.a = t2.x and t1.b > 1",
    "select t1.a from t1 where not exists (select * from t2 where t2.x = t1.a and t2.y > t1.b)",
    "explain select a from t1 where a > 1",
]


MUST_WORK_SETUP = ["create table t1(a int, b int, c varchar)", "insert into t1 values (1, 10, 'x'), (2, 20, 'y'), (NULL, 30, 'z'), (4, 40, 'w')",
                   "create table t2(x int, y int, z varchar)", "insert into t2 values (2, 200, 'q'), (NULL, 300, 'r'), (5, 1, 's')",
                   "create table t3(p int, q int, r boolean)", "insert into t3 values (1, 1, true), (2, 2, false)"]
EXTRA_MUST_WORK = [
    "select a from t1 where exists (select * from t2 where t2.x = t1.a)",
    "select a from t1 where not exists (select * from t2 where t2.x = t1.a)",
    "select b from t1 where a in (select x from t2 where y > 0)",
    "select count(*) from t1 where a in (select x from t2)",
    "select a from t1 where b < (select sum(y) from t2 where x = a group by x)",
    "select a from t1 where b > (select count(*) from t2 where t2.x = t1.a)",
    "select a from t1 where a in (select x from t2 group by x)",
    "select a from t1 where b > (select max(y) from t2 where t2.x = t1.a)",
    "select a from t1 where b = (select min(q) from t3 where p = a group by p)",
    "select a from t1 where not exists (select * from t3 where t3.p = t1.a and t3.q > 1)",
    # predicates the optimizer folds to FALSE put an `empty` node into the plan: every operator above
    # it (ordering, limits, joins on either side, aggregation, set operations) must still build and run
    "select a from t1 where false",
    "select a from t1 where b > 50 and b < 30 order by a",
    "select a, b from t1 where b > 50 and b < 30 order by a desc limit 2",
    "select a from t1 where 1 = 2 limit 3 offset 1",
    "select t1.a, t2.x from t1 join t2 on t1.a = t2.x where t2.y > 500 and t2.y < 100",
    "select t1.a, t2.x from t1 left join t2 on t1.a = t2.x and false",
    "select t1.a, t2.x from t1 left join t2 on t1.a = t2.x where t1.b > 50 and t1.b < 30 order by t1.a",
    "select t1.a, t2.x from t1 right join t2 on t1.a = t2.x and t1.b > 50 and t1.b < 30",
    "select t1.a, t2.x from t1 full join t2 on t1.a < t2.x and 1 = 2",
    "select count(*), sum(a) from t1 where b > 50 and b < 30",
    "select b, count(*) from t1 where b > 50 and b < 30 group by b order by b",
    "select distinct a from t1 where false order by a",
    "select a from t1 where a in (select x from t2 where y > 500 and y < 100)",
    "select a from t1 where exists (select * from t2 where false)",
    # a bare boolean column as a condition, alone and below other operators
    "select p from t3 where r",
    "select p from t3 where r order by p limit 1",
    "select t1.a from t1 join t3 on t3.r",
    "select q, count(*) from t3 group by q having min(p) > 0",
]


def fn_text(path, name):
    """normalised text (comments and white space removed) of the function `name` in a Rust file"""
    src = open(path).read()
    m = re.search(r"\bfn\s+%s\s*[(<]" % re.escape(name), src)
    if not m:
        raise ValueError(name)
    i = m.start()
    j = src.index("{", i)
    depth, k = 0, j
    while True:
        if src[k] == "{":
            depth += 1
        elif src[k] == "}":
            depth -= 1
            if depth == 0:
                break
        k += 1
    head = src[:i].rstrip()
    start = i - 4 if head.endswith("pub") else i
    return " ".join(re.sub(r"//[^\n]*", "", src[start:k + 1]).split())


def run(ck):
    # ---- translator tie: builder arms
    try:
        arms = extract_arms(vlib.REPO)
    except ValueError as e:
        ck.report("translator:builder-arms", "cannot find build_id_subscriber's match in src/executor/mod.rs: %s" % e, replay={}, found_input=False)
        return ck.finish(level="proof")
    if arms != MODEL_ARMS:
        ck.report("translator:builder-arms-changed", "the executor builder's node kinds changed: added %s removed %s — the plan checker model no longer describes it" % (
            sorted(arms - MODEL_ARMS), sorted(MODEL_ARMS - arms)), replay={"source_arms": sorted(arms), "model_arms": sorted(MODEL_ARMS)}, found_input=False)
    # hand-modelled functions (resolve, usedCols, producedOf, keptColumns): their source text is
    # pinned, so that an edit is at least reported (the differential run below is then the search
    # for a concrete input; a harmless rewrite is reported too: the correspondence is no longer shown)
    pins = json.load(open(os.path.join(vlib.VERIF, "checks", "c17_pins.json")))
    MODELLED_AS = {"executor/mod.rs:resolve_column_index_on_schema": "Wf.resolve", "planner/rules/plan.rs:analyze_columns": "Wf.usedCols",
                   "planner/rules/plan.rs:produced": "Wf.producedOf", "planner/rules/plan.rs:apply_proj": "Wf.keptColumns / applyProjOrder",
                   "executor/mod.rs:build_id_subscriber": "Wf.check", "executor/mod.rs:build_hashjoin": "Wf.check (hashjoin arm)",
                   "executor/mod.rs:build_hashsemijoin": "Wf.check (hash semi/anti join arm)", "executor/mod.rs:build_mergejoin": "Wf.check (mergejoin arm)"}
    for key, was in pins.items():
        path, fn = key.split(":")
        try:
            now = fn_text(os.path.join(vlib.REPO, "src", path), fn)
        except ValueError:
            now = "<not found>"
        if now != was:
            ck.report("model-source-changed:" + fn, "%s in src/%s is modelled by hand as %s and its text changed (was %d characters, is %d): the model is no longer shown to describe it" % (
                fn, path, MODELLED_AS.get(key, "?"), len(was), len(now)), replay={"function": key, "was": was, "is": now, "model": MODELLED_AS.get(key)}, found_input=False)
    # the evaluator has no arm for the subquery forms (model: `subqueryHead`): read from Evaluator::eval
    try:
        ev = fn_text(os.path.join(vlib.REPO, "src/executor/evaluator.rs"), "eval")
        arms = set(re.findall(r"\b([A-Z][A-Za-z0-9]*)\s*(?:\(|\[|\|)", ev.split("match", 1)[1]))
        evaluable_now = sorted(arms & {"Exists", "Max1Row", "Apply", "Scan", "Proj", "Filter", "Order", "Limit", "TopN", "Join", "HashJoin",
                                       "MergeJoin", "Agg", "HashAgg", "SortAgg", "Window", "Values", "Empty"})
        if evaluable_now or "can not evaluate expression" not in ev:
            ck.report("model-source-changed:evaluator-arms", "Evaluator::eval now has an arm for %s (or lost its `can not evaluate expression` default): the model's `subqueryHead` no longer describes it" % evaluable_now,
                      replay={"function": "executor/evaluator.rs:eval", "arms": sorted(arms), "model": "Wf.subqueryHead"}, found_input=False)
        ck.coverage["evaluator_arms_read"] = len(arms)
    except (ValueError, IndexError, OSError) as e:
        ck.report("model-source-changed:evaluator-arms", "Evaluator::eval cannot be read (%s)" % e, replay={"function": "executor/evaluator.rs:eval"}, found_input=False)
    # the heads the model treats as aggregate / window calls (`Wf.aggHeadNames`) are the ones the plan language
    # declares in its "aggregations" and "window functions" sections (src/planner/mod.rs define_language!)
    try:
        lang = open(os.path.join(vlib.REPO, "src/planner/mod.rs")).read()
        sec = lang[lang.index("// aggregations"):lang.index("// subquery related")]
        heads_src = set(re.findall(r'^\s*"([^"]+)"\s*=\s*[A-Z]', sec, re.M))
        pw = open(os.path.join(vlib.VERIF, "lean/RlModel/Model/PlanWf.lean")).read()
        heads_model = set(re.findall(r'"([^"]+)"', pw[pw.index("def aggHeadNames"):pw.index("def isAggHd")]))
        if heads_src != heads_model:
            ck.report("model-source-changed:aggregate-heads", "the plan language declares the aggregate / window heads %s, the model's aggHeadNames are %s" % (sorted(heads_src), sorted(heads_model)),
                      replay={"source": sorted(heads_src), "model": sorted(heads_model)}, found_input=False)
        ck.coverage["aggregate_heads"] = sorted(heads_src)
    except (ValueError, OSError) as e:
        ck.report("model-source-changed:aggregate-heads", "the aggregate section of the plan language cannot be read (%s)" % e, replay={"file": "src/planner/mod.rs"}, found_input=False)
    # `schema` of the plan checker is regenerated from rules/schema.rs analyze_schema
    rc, out = vlib.sh([sys.executable, os.path.join(vlib.VERIF, "translator/gen_schema.py"), vlib.REPO])
    ck.log(out.strip().split("\n")[-1][:160])
    if rc != 0:
        ck.report("translator:schema", "schema translator failed (rules/schema.rs analyze_schema is no longer of a shape the model is generated from): " + out[-300:],
                  replay={"out": out[-1500:]}, found_input=False)
    # which expression each builder arm resolves against which input, accepted join types and
    # asserted residuals are regenerated from executor/mod.rs
    rc, out = vlib.sh([sys.executable, os.path.join(vlib.VERIF, "translator/gen_builder.py"), vlib.REPO])
    ck.log(out.strip().split("\n")[-1][:200])
    if rc != 0:
        ck.report("translator:builder", "builder translator failed (executor/mod.rs build_id_subscriber is no longer of a shape the model is generated from): " + out[-300:],
                  replay={"out": out[-1500:]}, found_input=False)
    # the row-estimate arms are regenerated from rules/rows.rs (one statement per arm: estimates never negative)
    rc, out = vlib.sh([sys.executable, os.path.join(vlib.VERIF, "translator/gen_rows.py"), vlib.REPO])
    ck.log(out.strip().split("\n")[-1][:160])
    rows_thms = []
    if rc != 0:
        ck.report("translator:rows", "row-estimate translator failed (rules/rows.rs analyze_rows is no longer of a shape the statements are generated from): " + out[-300:],
                  replay={"out": out[-1500:]}, found_input=False)
    else:
        ra = json.load(open(os.path.join(vlib.LEAN, "RlModel/Gen/rows_arms.json")))
        rows_thms = ["Rows.%s_inv" % a for a in ra["arms"]]
        ck.coverage["row_estimate_arms"] = len(ra["arms"])
        if not ra.get("clamped"):
            ck.report("translator:rows-clamp", "analyze_rows no longer clamps its result (`rows.min(f32::MAX)`): estimates may be infinite, `inf * 0.0` is NaN", replay={"arms": ra["arms"]}, found_input=False)
    # the cost arms are regenerated from planner/cost.rs (one statement per arm: costs never negative)
    rc, out = vlib.sh([sys.executable, os.path.join(vlib.VERIF, "translator/gen_cost.py"), vlib.REPO])
    ck.log(out.strip().split("\n")[-1][:160])
    cost_thms = []
    if rc != 0:
        ck.report("translator:cost", "cost translator failed (planner/cost.rs CostFn::cost is no longer of a shape the statements are generated from): " + out[-300:],
                  replay={"out": out[-1500:]}, found_input=False)
    else:
        ca = json.load(open(os.path.join(vlib.LEAN, "RlModel/Gen/cost_arms.json")))
        cost_thms = ["Cost.%s_inv" % a for a in ca["arms"]]
        ck.coverage["cost_arms"] = len(ca["arms"])
        if not ca.get("clamped"):
            ck.report("translator:cost-clamp", "CostFn::cost no longer clamps its result (`c.min(f32::MAX)`): a cost may be infinite, `0.0 * inf` is NaN", replay={"arms": ca["arms"]}, found_input=False)
    # rules translator (stage composition is needed by the harness)
    rc, out = vlib.sh([sys.executable, os.path.join(vlib.VERIF, "translator/gen_rules.py"), vlib.REPO])
    if rc != 0:
        ck.report("translator:rules", "rule translator failed: " + out[-300:], replay={"out": out[-1500:]}, found_input=False)
        return ck.finish(level="proof")
    rj = json.load(open(c01.RULES_JSON))
    stages = c01.stages_env(rj)

    # ---- Lean
    bad = vlib.step_lean(ck, "RlModel.Thm.C17", THEOREMS, extra_targets=["drv_c17"])
    bad.update(vlib.step_lean(ck, "RlModel.Thm.C17Proj", THEOREMS_PROJ))
    bad.update(vlib.step_lean(ck, "RlModel.Thm.C17Agg", THEOREMS_AGG))
    if cost_thms:
        bad.update(vlib.step_lean(ck, "RlModel.Thm.C17Cost", cost_thms + ["Cost.discounted_cost_negative"]))
    if rows_thms:
        bad.update(vlib.step_lean(ck, "RlModel.Thm.C17Rows", rows_thms + ["Rows.est_inv", "Rows.merge_min_inv", "Rows.not_of_unclamped_in_negative", "Rows.limit_minus_offset_negative"]))
    for name, st in bad.items():
        ck.report("thm:" + name, "theorem %s no longer checks: %s" % (name, st.get("detail", st["status"])), replay={"theorem": name, "status": st}, found_input=False)

    ok, clog = vlib.step_cargo(ck, ["c01"])
    if not ok:
        ck.report("build:harness", "harness does not build against the repository", replay={"log": clog[-2000:]}, found_input=False)
        return ck.finish(level="proof")

    # ---- cases
    n = 250 if ck.quick() else 4000
    rng = random.Random(ck.seed * 104729 + 5)
    cases = c01_gen.gen_cases(rng, n)
    base_setup = c01_gen.gen_setup(random.Random(ck.seed), True)
    for q in EXTRA_SQL:
        cases.append({"setup": base_setup, "sql": q, "features": ["extra"], "ordered": False, "nkeys": 0})
    cdir = os.path.join(vlib.VERIF, "corpus", "C17")
    if os.path.isdir(cdir):
        for fn in sorted(os.listdir(cdir)):
            if fn.endswith(".json"):
                cases.insert(0, json.load(open(os.path.join(cdir, fn))))
    # statements with subqueries that get an executable plan on the unchanged tree in every
    # configuration of this check: they must keep doing so (guards the broad subquery findings)
    must_work = set(EXTRA_MUST_WORK)
    for q in EXTRA_MUST_WORK:
        cases.append({"setup": MUST_WORK_SETUP, "sql": q, "features": ["must-work"], "ordered": False, "nkeys": 0, "real_stats_only": True})
    pp = [r["name"] for r in rj["rules"] if "plan::projection_pushdown_rules" in r["lists"]]
    reqs = []
    configs = [("mem", []), ("disk", []), ("disk", ["set mock_rowcount_t1 = 1000000", "set mock_rowcount_t2 = 1", "set mock_rowcount_t3 = 5000"])]
    for k, c in enumerate(cases):
        for ci, (eng, extra) in enumerate(configs):
            if ci == 2 and (k % 3 or c.get("real_stats_only")):
                continue
            reqs.append({"id": "s%d:%d" % (k, ci), "engine": eng, "setup": c["setup"] + extra, "queries": [
                {"sql": c["sql"], "opt": "off", "plans": True}, {"sql": c["sql"], "opt": "on", "plans": True},
                {"sql": c["sql"], "opt": "custom", "exclude": pp, "plans": True}]})
    import concurrent.futures
    nchunks = 16
    res = {}
    with concurrent.futures.ThreadPoolExecutor(max_workers=nchunks) as ex:
        for part in ex.map(lambda jc: c01.run_harness(ck, jc[1], "wf%d" % jc[0], stages), enumerate([reqs[j::nchunks] for j in range(nchunks)])):
            res.update(part)
    # ---- model verdicts for every distinct plan text
    plans = {}
    for a in res.values():
        for r in a.get("results", []):
            for key in ("bound", "optimized"):
                if r.get(key):
                    plans[r[key]] = None
    texts = list(plans)
    rc, out = vlib.sh([vlib.lean_exe("drv_c17")], stdin="".join("wf %s\n" % t for t in texts), timeout=1200)
    for t, line in zip(texts, out.split("\n")):
        m = re.match(r"(.*) \| schema=(\d+) \| aggrefs=(true|false)$", line.strip())
        plans[t] = (m.group(1), int(m.group(2)), m.group(3) == "true") if m else ("bad-answer:" + line[:80], -1, True)

    stats = {"statements": 0, "bind_rejected": 0, "executed_plans": 0, "model_vs_impl_disagree": 0, "optimized_ok": 0,
             "verdicts": {}, "features": {}}
    distinct = set()
    NEUTRAL_ERR = ("overflow", "divi", "cast", "convert", "not supported", "unsupported", "Invalid")

    def judge(plan, outcome, what, case, eng):
        """model verdict vs real outcome for one executed plan"""
        verdict = plans.get(plan, ("?", -1, True))[0]
        stats["executed_plans"] += 1
        stats["verdicts"][verdict.split(":")[0]] = stats["verdicts"].get(verdict.split(":")[0], 0) + 1
        cls = outcome["class"]
        agree = True
        if verdict == "ok":
            agree = cls == "ok" or (cls == "err" and any(w in outcome.get("msg", "") for w in NEUTRAL_ERR))
        elif verdict.startswith("build-panic"):
            agree = cls in ("panic", "err")
        elif verdict.startswith("runtime-todo"):
            # the todo!() panics inside the operator task; since fix 4225762 the statement fails with
            # `operator panicked: not yet implemented …` (before, the panic was swallowed: Ok, no rows)
            # A build-time panic elsewhere in the same plan comes first (`panic`); under a LIMIT the
            # consumer may stop before the failing task's error arrives (LIMIT 0 never polls it).
            agree = (cls == "err" and "operator panicked" in outcome.get("msg", "")) or cls == "panic" \
                or (cls == "ok" and "(limit " in plan) \
                or (cls == "ok" and "not evaluable" in verdict and not outcome.get("rows"))   # (no row reached the expression)
        if not agree:
            stats["model_vs_impl_disagree"] += 1
            ck.report("corr:builder:" + verdict.split(":")[0] + "/" + cls, "plan checker says `%s`, the real executor's outcome for the %s plan is %s %s" % (
                verdict, what, cls, outcome.get("msg", "")[:120]), replay={"plan": plan, "case": case, "engine": eng, "outcome": outcome}, found_input=False)
        return verdict

    for k, c in enumerate(cases):
        for f in c.get("features", []):
            stats["features"][f] = stats["features"].get(f, 0) + 1
        for ci, (eng, extra) in enumerate(configs):
            a = res.get("s%d:%d" % (k, ci))
            if not a:
                continue
            if not a["setup_ok"] or len(a["results"]) != 3:
                ck.notes.append("setup failed: %s" % a.get("setup_msg", "")[:100])
                continue
            off, on, cu = a["results"]
            stats["statements"] += 1
            if not on.get("bound") and on["class"] != "timeout":
                if on["class"] == "panic":
                    # neither accepted nor rejected: binding or planning panicked (a panic in the planner is outside
                    # Database::run's catch_unwind: it takes the calling session down)
                    stats["planning_panics"] = stats.get("planning_panics", 0) + 1
                    ck.report("plan:planning-panics:" + vlib.slug(on.get("msg", ""))[:50], "binding / planning `%s` panics (%s): the statement is neither rejected with an error nor planned" % (c["sql"], on.get("msg", "")[:120]),
                              replay={"case": c, "engine": eng, "config": extra, "outcome": on,
                                      "requests": [{"id": "replay", "engine": eng, "setup": c["setup"] + extra, "queries": [{"sql": c["sql"], "opt": "on", "plans": True}]}]})
                    continue
                stats["bind_rejected"] += 1     # the binder rejected it (or a SET/PRAGMA): not an accepted statement
                continue
            distinct.add(c["sql"])
            vb = judge(off["bound"], off, "bound", c, eng) if off.get("bound") else None
            vo = judge(on["optimized"], on, "optimized", c, eng) if on.get("optimized") else "timeout"
            replay = {"case": c, "engine": eng, "config": extra, "bound": on.get("bound"), "optimized": on.get("optimized"), "verdict": vo, "outcome": on,
                      "requests": [{"id": "replay", "engine": eng, "setup": c["setup"] + extra, "queries": [{"sql": c["sql"], "opt": "on", "plans": True}]}]}
            # ---- "every column an operator references is produced by its input": an aggregate / window call in a
            # scalar position (projection, filter, order key, join condition) that no operator below computes builds
            # and runs — the evaluator has arms that return the call's ARGUMENT — and silently yields the wrong value
            for which, ptxt in (("bound", on.get("bound")), ("optimized", on.get("optimized"))):
                if ptxt and not plans.get(ptxt, ("?", -1, True))[2]:
                    stats["aggregate_refs_not_produced"] = stats.get("aggregate_refs_not_produced", 0) + 1
                    ck.report("plan:aggregate-reference-not-produced:" + which, "the %s plan of `%s` uses an aggregate / window call in a scalar position that no aggregation / window operator below it computes (the evaluator silently yields the call's argument): %s" % (
                        which, c["sql"], ptxt[:200]), replay=replay)
            # ---- the property: an accepted statement gets an executable plan with the same arity
            if on["class"] == "timeout":
                # optimization did not terminate; counterfactual: it does without the `or-true` rule
                one = c01.run_harness(ck, [{"id": "one", "engine": eng, "setup": c["setup"] + extra, "queries": [{"sql": c["sql"], "opt": "custom", "exclude": ["or-true"], "plans": True}]}], "term", stages).get("one")
                if one and one["results"] and one["results"][0]["class"] == "ok":
                    ck.report("plan:optimizer-does-not-terminate:or-true-in-folded-conjunction", "optimizing `%s` does not come back within %d s; it does without rule or-true" % (c["sql"], c01.REQUEST_TIMEOUT_S), replay=replay)
                else:
                    ck.report("plan:optimizer-does-not-terminate:" + vlib.slug(c["sql"])[:60], "optimizing `%s` does not come back within %d s" % (c["sql"], c01.REQUEST_TIMEOUT_S), replay=replay)
                continue
            if vo == "ok" and on["class"] == "ok":
                stats["optimized_ok"] += 1
                nb, no = plans[on["bound"]][1], plans[on["optimized"]][1]
                if nb != no and nb > 0:
                    ck.report("plan:root-schema-changed", "optimization changed the number of output columns of `%s` from %d to %d" % (c["sql"], nb, no), replay=replay)
                continue
            if vo.startswith("runtime-todo") and "not evaluable" not in vo:
                # (no executor arm is `todo!()` since fix 7d07810; kept for a model that says so again)
                ck.report("plan:runtime-todo:" + vlib.slug(vo)[:40], "the optimized plan of `%s` contains an operator whose executor is todo!() (%s)" % (c["sql"], vo), replay=replay)
                continue
            sub = [k for k in ("apply", "in", "exists", "max1row") if ("(%s " % k) in (on.get("optimized") or "")]
            if c["sql"] in must_work and not sub:
                again = c01.run_harness(ck, [{"id": "again", "engine": eng, "setup": c["setup"] + extra, "queries": [{"sql": c["sql"], "opt": "on", "plans": True}]}], "again", stages).get("again")
                if not (again and again["results"] and again["results"][0]["class"] == "ok"):
                    ck.report("regression:must-plan:" + vlib.slug(c["sql"])[:60], "`%s` used to get an executable plan on this configuration; now: checker `%s`, executor %s %s" % (c["sql"], vo, on["class"], on.get("msg", "")[:100]), replay=replay)
                    continue
            if sub:
                # a subquery construct the executor has no operator for survived optimization
                if c["sql"] in must_work:
                    # planning runs under egg's wall-clock limit: confirm alone, unloaded, before alarming
                    again = c01.run_harness(ck, [{"id": "again", "engine": eng, "setup": c["setup"] + extra, "queries": [{"sql": c["sql"], "opt": "on", "plans": True}]}], "again", stages).get("again")
                    if again and again["results"] and again["results"][0]["class"] == "ok":
                        ck.notes.append("must-work statement planned differently under load: %s" % c["sql"])
                        continue
                    ck.report("regression:subquery-must-plan:" + vlib.slug(c["sql"])[:60], "`%s` used to get an executable plan on this configuration and now keeps `%s`" % (c["sql"], sub[0]), replay=replay)
                else:
                    ck.report("plan:subquery-left-in-optimized-plan:" + sub[0], "the optimizer returns a plan for `%s` that still contains `%s`, for which the executor has no operator (%s)" % (c["sql"], sub[0], (on.get("msg") or vo)[:80]), replay=replay)
                continue
            if "column not found" in vo or "not found from input" in on.get("msg", ""):
                # counterfactual: without the projection-pushdown rules the plan is executable
                if cu["class"] == "ok" and plans.get(cu.get("optimized"), ("?",))[0] == "ok":
                    ck.report("plan:apply_proj-prunes-computed-key-column", "optimized plan of `%s` references a column its input does not produce (%s); executable again without the projection-pushdown rules" % (c["sql"], on.get("msg", vo)[:80]), replay=replay)
                else:
                    ck.report("plan:column-not-produced:" + vlib.slug(c["sql"])[:50], "optimized plan of `%s` references a column its input does not produce (%s)" % (c["sql"], on.get("msg", vo)[:80]), replay=replay)
                continue
            if on["class"] == "err" and any(w in on.get("msg", "") for w in NEUTRAL_ERR):
                continue
            if on["class"] == "err" and off.get("class") == "err":
                continue        # fails the same way unoptimized: an evaluation error, not a planning matter
            ck.report("plan:not-executable:" + vlib.slug(vo + on.get("msg", ""))[:60], "accepted statement `%s` has no executable optimized plan: checker `%s`, executor %s %s" % (
                c["sql"], vo, on["class"], on.get("msg", "")[:120]), replay=replay)
    ck.coverage.update({
        "evaluations": stats["executed_plans"],
        "distinct_nontrivial": len(distinct),
        "rule": "generated statements (C01 generator: joins of all types, filters, aggregates, order/limit, subqueries, keyed tables) + fixed DML/CTE/window/subquery statements x {mem, disk, disk with mocked extreme statistics}; every bound and optimized plan judged by the Lean checker and built+run by the real executor; distinct_nontrivial = distinct accepted statements",
        "samples": [{"sql": c["sql"]} for c in cases[:5]] + [{"plan": t, "verdict": plans[t][0]} for t in texts[:3]],
        "model_vs_impl": {"plans_compared": stats["executed_plans"], "disagree": stats["model_vs_impl_disagree"]},
        "impl_vs_oracle": stats,
        "extraction": "exploration (cost-based extraction choosing an executable alternative for all programs is not a theorem)",
        "builder_arms_in_source": sorted(arms),
        "notes": ck.notes[:10],
    })
    return ck.finish(level="proof", checker_cmd="lake build RlModel.Thm.C17 && #print axioms audit",
                     trusted_base=["Lean 4 kernel (axioms: propext, Classical.choice, Quot.sound)",
                                   "Model/PlanWf.lean as a model of Builder::build_id_subscriber and resolve_column_index_on_schema, tied by running both on every plan of the run",
                                   "the reader of plan text (ofSexp) in the driver", "egg extraction/termination trusted within its configured limits",
                                   "rlverif c01 harness and the python statement generator"])


def replay(path):
    return c01.replay(path)
