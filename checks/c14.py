"""C14 — vectorised expression evaluation equals scalar SQL semantics.

1. Lean: kernel theorems of lean/RlModel/Thm/C14.lean (model: lean/RlModel/Model/Kernel.lean,
   KernelEval.lean = src/array/ops.rs + Evaluator::eval).
2. Correspondence: harness/src/bin/c14.rs runs the real kernels (directly, arrays with raw
   garbage under NULL, and end to end through table scan + projection) and lean/Drivers/C14.lean
   the model on the same generated requests.
3. Decision per request:
     model_vs_impl   full output incl. raw bits under NULL must agree            (the tie)
     impl_vs_oracle  batch result == row-at-a-time result on clean single rows    (model free)
     model_vs_oracle model values vs the row-wise SQL spec; a difference carries reason tags =
                     the forced hypotheses of the `…_partial` theorems; when the implementation
                     agrees with the model it is a reproduced property failure with signature
                     = tag (known finding or VIOLATION).
"""
import collections
import json
import os
import re
import sys

import vlib

THEOREMS = [
    # K per kernel
    "cmp_pointwise", "and_pointwise", "or_pointwise", "or_regression",
    "not_pointwise", "select_pointwise", "arith_pointwise", "arith_slot_plain", "arith_slot_safened",
    "arith_regression",
    # raw invariant
    "cmp_raw_invariant", "or_raw_invariant", "not_raw_invariant", "and_raw_invariant_partial",
    "raw_invariant_unsound", "filter_uses_raw_bits_partial", "filter_uses_raw_bits_unsound",
    # faults / overflow
    "null_slot_never_faults", "cmp_null_slot_never_faults", "and_null_slot_never_faults",
    "overflow_is_error",
    # batch independence
    "batch_independent_binary", "batch_independent_arith", "batch_independent_or",
    "batch_independent_and", "batch_independent_cmp",
    # reason tags = forced hypotheses (node level); casts; IS NULL
    "select_abs", "select_abs_bool", "select_abs_str", "cast_pointwise", "isnull_pointwise",
    # whole expression trees
    "evalK_len", "eval_tree_pointwise", "evalK_no_tags", "eval_tree_pointwise_total",
    # CASE with several WHEN branches (desugaring caseOf)
    "case_first_true_wins", "specEval_caseOf_cons",
    # operands of type NULL (since /repo 26c93c7)
    "arith_col_abs", "cmp_col_abs", "and_col_abs", "or_col_abs", "ite_col_abs",
    "like_abs", "substring_abs", "replace_abs", "repeat_abs",
    "concat_abs", "neg_abs",
    # LIKE
    "like_pointwise", "like_regression",
    # constant folding
    "fold_regression", "fold_rem_zero_is_null", "fold_overflow_unknown",
    "fold_cast_out_of_range_unknown", "const_of_get0", "foldBin_sound", "foldUn_sound",
    "fold_eq_eval", "and_fold_value", "or_fold_value", "arith_strict", "cmp_strict", "concat_strict", "neg_strict", "not_strict",
]

# The witnesses of the `…_unsound` theorems, as requests (replayed on the implementation).
WITNESSES = [
    ("or_regression", "(k 1 (or #0 #1) (bool nt) (bool vf))"),
    ("arith_regression", "(k 1 (+ #0 #1) (i32 n2147483647) (i32 v1))"),
    ("null_slot_never_faults", "(k 2 (+ #0 #1) (i32 v1 n2147483647) (i32 v2 v1))"),
    ("arith_regression", "(k 2 (% #0 #1) (i32 v1 v7) (i32 v0 n0))"),
    ("arith_regression", "(k 1 (% #0 #1) (i32 v-2147483648) (i32 n-1))"),
    ("arith_regression", "(k 1 (/ #0 #1) (i32 v-2147483648) (i32 n-1))"),
    ("overflow_is_error", "(k 1 (+ #0 #1) (i32 v2147483647) (i32 v1))"),
    ("raw_invariant_unsound", "(e 2 (or (cast BOOLEAN (+ #0 i32:5)) #1) (i32 v1 n0) (bool vf vf))"),
    ("filter_uses_raw_bits_unsound", "(e 1 (or (cast BOOLEAN #0) b:false) (i32 n5))"),
    # operands of type NULL: the former witness of `kernel:null-typed-operand` and its relatives
    ("arith_col_abs", "(k 1 (+ #0 #1) (i32 v1) (null 1))"),
    ("arith_col_abs", "(k 2 (/ #0 #1) (null 2) (i64 v0 n7))"),
    ("cmp_col_abs", "(k 2 (= #0 #1) (i32 v1 n0) (null 2))"),
    ("and_col_abs", "(k 3 (and #0 #1) (null 3) (bool vf vt nt))"),
    ("or_col_abs", "(k 3 (or #0 #1) (bool vf vt nf) (null 3))"),
    ("ite_col_abs", "(k 2 (if #0 #1 #2) (bool vt nf) (null 2) (null 2))"),
]


def top_op(req):
    if req.startswith("(fc "):
        return "case"
    if req.startswith("(f "):
        return "fold"
    m = re.match(r"\((?:k|e|ks \d+|el \d+) \d+ \(?([^ )]+)", req)
    return m.group(1) if m else "?"


def strip_raw(out):
    """`ok (i32 v5 n7)` -> `ok (i32 v5 n)`: the SQL values of an outcome."""
    if not out.startswith("ok ("):
        return out
    toks = out[:-1].split(" ")
    res = []
    for k, t in enumerate(toks):
        if k >= 2 and t.startswith("n"):
            res.append("n")
        else:
            res.append(t)
    return " ".join(res) + ")"


def classify_fold(req, impl_line, model_line):
    """`(f e)`: constant folding vs run time (model and implementation), optimizer on vs off."""
    ip = impl_line.split(" ;; ")
    mp = model_line.split(" ;; ")
    if len(ip) != 4 or len(mp) != 3:
        return {"kind": "machinery", "detail": "malformed answer impl=%r model=%r" % (impl_line[:200], model_line[:200])}
    fold, rt, so, sn = ip[0][5:], ip[1][3:], ip[2][7:], ip[3][9:]
    tags = [t for t in mp[2].split(" ") if t]
    problems = []
    if fold.startswith("some ") and rt.startswith("ok ") and fold[5:] != rt[3:]:
        problems.append("fold!=eval")
    if fold.startswith("some ") and not rt.startswith("ok "):
        problems.append("fold-ok-eval-fails")
    if fold == "panic" and rt.startswith("ok "):
        problems.append("fold-panics-eval-ok")
    # the integer WIDTH of the result may differ with the optimizer on (type-changing rewrite rules
    # such as add-zero: C16's findings `sqltype:rule:*`); C14 compares the value
    so, sn = re.sub(r"^ok i(16|32|64):", "ok int:", so), re.sub(r"^ok i(16|32|64):", "ok int:", sn)
    # optimizer on vs off: compared when eval_constant decides the expression (fold != none) or no
    # typed NULL stays symbolic in it.  Rewrite rules over a symbolic NULL operand are C01's
    # subject (the NULL-unsound ones were removed from /repo in 9930474; others remain, e.g.
    # `x * -1 => -x` meets the missing SMALLINT arm of `neg`); the former mul-zero witness is
    # still replayed as a regression input.
    symbolic_null = fold == "none" and " null)" in req and not req.startswith("(f (* i32:0 (cast INT null))")
    differs = so != "-" and not symbolic_null and not (so == sn or (not so.startswith("ok") and not sn.startswith("ok")))
    if differs:
        problems.append("optimizer-on!=off")
    # `illtyped`: analyze_type (model: `typeOf`) rejects the expression, so the binder never hands
    # it to eval_constant or to the evaluator (`'a' || NULL`: folding says NULL, the kernel has no
    # arm); model == implementation is still required on it, fold == eval is not a claim
    # `(fc …)`: `first:<v>` = the scalar SQL value of the CASE read off the SQL text (result of the FIRST
    # WHEN whose condition is TRUE, computed branch by branch by the driver); the statement built from
    # that text by the binder must return it, optimizer on or off, and so must the desugaring
    first = [t[6:] for t in tags if t.startswith("first:")]
    tags = [t for t in tags if not t.startswith("first:")]
    case_problems = []
    if first:
        want = "ok " + re.sub(r"^i(16|32|64):", "int:", first[0])
        got_rt = re.sub(r"^ok i(16|32|64):", "ok int:", rt)
        if sn.startswith("ok") and sn != want:
            case_problems.append("case-first-true:sql-noopt")
        if so.startswith("ok") and so != want:
            case_problems.append("case-first-true:sql-opt")
        if got_rt.startswith("ok") and got_rt != want:
            case_problems.append("case-first-true:desugaring")
    # `lazy:<v>`: eager evaluation fails, evaluation with SQL's lazy CASE gives v (driver: pruneCase)
    lazy = [t[5:] for t in tags if t.startswith("lazy:")]
    tags = [t for t in tags if not t.startswith("lazy:")]
    illtyped = "illtyped" in tags
    if illtyped:
        tags = [t for t in tags if t != "illtyped"]
        problems = []
        differs = False
    problems = problems + case_problems
    if differs and fold == "none" and not tags:
        if so.startswith("ok") and not sn.startswith("ok") and not rt.startswith("ok"):
            # direct evaluation fails (overflow / failed cast in some subexpression), the optimised
            # plan returns a value.  Two mechanisms:
            #  - the failing subexpression sits in a CASE branch that is not taken: SQL's lazy CASE
            #    gives exactly the optimised plan's value, the eager evaluator is what deviates;
            #  - SQL demands the failing subexpression (no CASE protects it) and a rewrite rule
            #    (x * 0 => 0, x AND false => false, a + b > c => a > c - b, …) removed it.
            lz = [re.sub(r"^i(16|32|64):", "int:", v) for v in lazy]
            if lz and so == "ok " + lz[0]:
                tags = ["optimizer:removes-runtime-error:untaken-case-branch"]
            elif lz:
                tags = ["optimizer:on-off-differs"]
            else:
                tags = ["optimizer:removes-runtime-error:rewrite"]
        else:
            tags = ["optimizer:on-off-differs"]
    return {"kind": "fold", "impl": impl_line, "model": model_line, "tags": tags, "problems": problems, "illtyped": illtyped,
            "model_eq_impl": ip[0] == mp[0] and ip[1] == mp[1]}


def classify(req, impl_line, model_line):
    """Returns dict(kind=..., ...) for one request."""
    if req.startswith("(f ") or req.startswith("(fc "):
        return classify_fold(req, impl_line, model_line)
    ip = impl_line.split(" ;; ")
    mp = model_line.split(" ;; ")
    if len(mp) != 4 or len(ip) < 2:
        return {"kind": "machinery", "detail": "malformed answer impl=%r model=%r" % (impl_line[:200], model_line[:200])}
    impl_out, oracle = ip[0], ip[1]
    e2e_direct_differ = len(ip) > 2
    model_out, spec_out, tags = mp[0], mp[1], [t for t in mp[2].split(" ") if t]
    otags = [t for t in mp[3].split(" ") if t]
    res = {"impl": impl_out, "model": model_out, "spec": spec_out, "oracle": oracle, "tags": tags, "otags": otags,
           "e2e_direct_differ": e2e_direct_differ}
    if impl_out.startswith("harness-error"):
        res["kind"] = "machinery"
        res["detail"] = impl_out
        return res
    # cardinality 0 end to end: no chunk comes back, whether the projection task ran, or died
    # (a panic of the task closes its channel = end of stream): both look like "ok (empty)"
    empty = impl_out == "ok (empty)" and (model_out.startswith("ok") or model_out == "panic")
    res["model_eq_impl"] = empty or impl_out == model_out
    res["impl_vals_eq_spec"] = empty and spec_out.startswith("ok") or strip_raw(impl_out) == spec_out
    res["model_vals_eq_spec"] = strip_raw(model_out) == spec_out
    res["oracle_same"] = oracle == "same"
    res["kind"] = "ok"
    return res


def run_requests(ck, reqs, tag):
    path = os.path.join(ck.work, "req_%s.txt" % tag)
    with open(path, "w") as f:
        f.write("\n".join(reqs) + "\n")
    (rc1, impl), (rc2, model) = vlib.run_pair(ck, [vlib.harness_bin("c14"), "run"], [vlib.lean_exe("drv_c14")], path)
    impl = [l for l in impl if l.strip()]
    model = [l for l in model if l.strip()]
    if rc1 != 0 or rc2 != 0 or len(impl) != len(reqs) or len(model) != len(reqs):
        ck.report("machinery:run-%s" % tag,
                  "harness rc=%s (%d lines) / driver rc=%s (%d lines) for %d requests: %s" % (
                      rc1, len(impl), rc2, len(model), len(reqs), (impl[-1:] + model[-1:])),
                  replay={"requests": reqs[:3]}, found_input=False)
        return []
    return [(q, classify(q, i, m)) for q, i, m in zip(reqs, impl, model)]


def decide(ck, results, stats):
    """Applies the decision rule to classified results."""
    single_tag_seen = set()
    multi = []
    for q, r in results:
        op = top_op(q)
        stats["ops"][op] += 1
        if r["kind"] == "machinery":
            ck.report("machinery:answer", r["detail"], replay={"request": q}, found_input=False)
            continue
        if r["kind"] == "fold":
            stats["fold"]["requests"] += 1
            if r.get("illtyped"):
                stats["fold"]["illtyped"] += 1
            stats["model_vs_impl"]["compared"] += 1
            if not r["model_eq_impl"]:
                stats["model_vs_impl"]["disagree"] += 1
                ck.report("corr%s:fold" % ("+prop" if r["problems"] else ""),
                          "fold/eval model and implementation disagree on %s: impl=%s model=%s" % (q[:200], r["impl"][:200], r["model"][:200]),
                          replay={"request": q, **r}, found_input=bool(r["problems"]))
                continue
            stats["impl_vs_oracle"]["compared"] += 1
            for pr in r["problems"]:
                stats["fold"][pr] += 1
            if r["problems"]:
                stats["impl_vs_oracle"]["disagree"] += 1
                if any(pr.startswith("case-first-true") for pr in r["problems"]):
                    ck.report("prop:case:first-true-wins", "CASE with several WHEN branches: the statement built from the SQL text does not return the result of the first branch (in source order) whose condition is TRUE (%s) on %s: %s model=%s" % (r["problems"], q[:240], r["impl"][:200], r["model"][:120]),
                              replay={"request": q, **r}, found_input=True)
                elif not r["tags"]:
                    ck.report("prop:fold:untagged", "folding and evaluation differ (%s) with no modelled reason on %s: %s" % (r["problems"], q[:200], r["impl"][:200]),
                              replay={"request": q, **r}, found_input=True)
                for t in r["tags"]:
                    stats["tags"][t] += 1
                    ck.report(t, "%s (%s): %s on %s" % (t, ",".join(r["problems"]), r["impl"][:160], q[:160]),
                              replay={"request": q, **r}, found_input=True)
            continue
        stats["outcomes"][r["impl"].split(" ")[0]] += 1
        for t in r["tags"]:
            stats["tags"][t] += 1
        # (A) the tie
        stats["model_vs_impl"]["compared"] += 1
        if not r["model_eq_impl"]:
            stats["model_vs_impl"]["disagree"] += 1
            # does the PROPERTY fail on the implementation for this input?
            prop_fails = (not r["impl_vals_eq_spec"]) or (not r["oracle_same"])
            if prop_fails:
                ck.report("corr+prop:%s" % op,
                          "model and implementation disagree AND the implementation differs from the SQL value / row-at-a-time oracle on %s" % q[:200],
                          replay={"request": q, **r}, found_input=True)
            else:
                ck.report("corr:%s" % op,
                          "model and implementation disagree on %s (implementation agrees with the SQL spec here): the model is no longer the code" % q[:200],
                          replay={"request": q, **r, "stream": "model_vs_impl"}, found_input=False)
            continue
        if r["e2e_direct_differ"]:
            stats["e2e_direct_differ"] += 1
        # (B) model-free oracle
        stats["impl_vs_oracle"]["compared"] += 1
        # (C) model vs spec
        stats["model_vs_oracle"]["compared"] += 1
        differs = not r["model_vals_eq_spec"]
        if differs:
            stats["model_vs_oracle"]["disagree"] += 1
        if not r["oracle_same"]:
            stats["impl_vs_oracle"]["disagree"] += 1
        if differs or not r["oracle_same"]:
            tags = r["tags"]
            if not differs and not tags:
                # only the row-at-a-time oracle differs: the reasons are those of the clean rows
                tags = r["otags"]
            if not tags:
                # the implementation (== model) breaks the property with no modelled reason
                ck.report("prop:%s:untagged" % op,
                          "implementation (= model) differs from the SQL spec / row oracle with no reason tag on %s" % q[:200],
                          replay={"request": q, **r}, found_input=True)
            elif len(tags) == 1:
                single_tag_seen.add(tags[0])
                stats["reproduced"][tags[0]] += 1
                ck.report(tags[0], "%s: impl=%s spec=%s on %s" % (tags[0], r["impl"][:80], r["spec"][:80], q[:160]),
                          replay={"request": q, **r}, found_input=True)
            else:
                multi.append((q, r))
    for q, r in multi:
        for t in r["tags"]:
            if ("C14", t) not in ck.known and t not in single_tag_seen:
                ck.report(t, "%s (with %s): impl=%s spec=%s on %s" % (t, r["tags"], r["impl"][:80], r["spec"][:80], q[:160]),
                          replay={"request": q, **r}, found_input=True)
            else:
                stats["reproduced_multi"][t] += 1


def new_stats():
    return {"ops": collections.Counter(), "outcomes": collections.Counter(), "tags": collections.Counter(),
            "reproduced": collections.Counter(), "reproduced_multi": collections.Counter(),
            "model_vs_impl": {"compared": 0, "disagree": 0}, "impl_vs_oracle": {"compared": 0, "disagree": 0},
            "model_vs_oracle": {"compared": 0, "disagree": 0}, "e2e_direct_differ": 0,
            "fold": collections.Counter()}


def run(ck):
    n = 4000 if ck.quick() else 150000
    bad = vlib.step_lean(ck, "RlModel.Thm.C14", THEOREMS, extra_targets=["drv_c14"])
    ok, log = vlib.step_cargo(ck, ["c14"])
    if not ok:
        ck.report("build:harness", "harness does not build against the repository", replay={"log": log[-2000:]}, found_input=False)
        return ck.finish(level="proof")
    if not os.path.exists(vlib.lean_exe("drv_c14")):
        ck.report("build:driver", "Lean driver drv_c14 does not build", replay={"log": ck.coverage.get("lean_log_tail", "")}, found_input=False)
        return ck.finish(level="proof")
    stats = new_stats()
    # corpus + witnesses of the refuted statements first
    corpus = []
    cdir = os.path.join(vlib.VERIF, "corpus", "C14")
    if os.path.isdir(cdir):
        for fn in sorted(f for f in os.listdir(cdir) if f.endswith(".req")):
            corpus += [l for l in open(os.path.join(cdir, fn)).read().split("\n") if l.strip() and not l.startswith("#")]
    wit = [w for _, w in WITNESSES]
    res_w = run_requests(ck, wit + corpus, "witness")
    decide(ck, res_w, stats)
    witness_status = {}
    for (thm, w), (q, r) in zip(WITNESSES, res_w[:len(WITNESSES)]):
        if r["kind"] != "ok":
            continue
        shows = r["model_eq_impl"] and (not r["model_vals_eq_spec"] or not r["oracle_same"])
        witness_status[thm] = "reproduced on the implementation" if shows else "NOT reproduced (impl=%s model=%s spec=%s)" % (r["impl"], r["model"], r["spec"])
    # generated run
    req = os.path.join(ck.work, "gen.txt")
    rc, out = vlib.sh([vlib.harness_bin("c14"), "gen", str(n), req])
    reqs = [l for l in open(req).read().split("\n") if l.strip()]
    results = []
    B = 2000
    for k in range(0, len(reqs), B):
        results += run_requests(ck, reqs[k:k + B], "gen%d" % (k // B))
    decide(ck, results, stats)
    # DATE ± INTERVAL (its own model, driver and theorems: checks/c14_date.py)
    from checks import c14_date
    bad.update(vlib.step_lean(ck, "RlModel.Thm.C14Date", c14_date.THEOREMS, extra_targets=["drv_c14date"]))
    okd, logd = vlib.step_cargo(ck, ["c01"])
    if okd and os.path.exists(vlib.lean_exe("drv_c14date")):
        dstats, dviol = c14_date.run(ck)
        for v in dviol:
            ck.report(v["sig"], v["what"], replay=v["replay"], found_input=v["found"])
        ck.coverage["date_interval"] = dstats
    else:
        ck.report("build:date-stream", "the SQL harness or drv_c14date does not build", replay={"log": logd[-1500:]}, found_input=False)
    # theorem failures: the correspondence + oracle above was the search for a failing input
    for name, st in bad.items():
        ck.report("thm:" + name, "theorem %s is not discharged: %s" % (name, json.dumps(st)[:300]),
                  replay={"theorem": name, "status": st, "note": "no failing input found by the correspondence run beyond those reported separately"},
                  found_input=False)
    lens = collections.Counter()
    nontrivial = set()
    for q in reqs:
        m = re.match(r"\((k|e|ks \d+|el \d+) (\d+) ", q)
        if not m:
            lens["constant-expression"] += 1
            nontrivial.add(q)
            continue
        ln = int(m.group(2))
        lens["0" if ln == 0 else "1" if ln == 1 else "2-8" if ln <= 8 else "9-62" if ln <= 62 else "63-65" if ln <= 65 else "66-126" if ln <= 126 else "127-129" if ln <= 129 else "130-200"] += 1
        if ln >= 1 and re.search(r" n[^u ]*[ )]", q):
            nontrivial.add(q)
    ck.coverage.update({
        "evaluations": len(reqs) + len(res_w),
        "distinct_nontrivial": len(nontrivial),
        "rule": "distinct request lines with cardinality >= 1 and at least one NULL slot (raw garbage possible under it)",
        "samples": reqs[:4] + wit[:2],
        "model_vs_impl": stats["model_vs_impl"], "impl_vs_oracle": stats["impl_vs_oracle"],
        "model_vs_oracle": stats["model_vs_oracle"],
        "distribution": {"batch_length": dict(lens), "top_operator": dict(stats["ops"]),
                         "impl_outcome": dict(stats["outcomes"]), "reason_tags": dict(stats["tags"]),
                         "reproduced_single_tag": dict(stats["reproduced"]),
                         "kinds": {"k(direct kernels)": sum(1 for q in reqs if q.startswith("(k ")),
                                   "ks(direct kernels on slice(off..off+n) arrays)": sum(1 for q in reqs if q.startswith("(ks ")),
                                   "el(expression above LIMIT n OFFSET off)": sum(1 for q in reqs if q.startswith("(el ")),
                                   "e(table scan + proj, unoptimised plan)": sum(1 for q in reqs if q.startswith("(e "))},
                         "e2e_vs_direct_differ(string raw dropped by scan)": stats["e2e_direct_differ"],
                         "constant_folding": dict(stats["fold"])},
        "witnesses": witness_status,
    })
    return ck.finish(level="proof", trusted_base=[
        "Lean 4 kernel (axioms propext, Classical.choice, Quot.sound)",
        "harness/src/bin/c14.rs (array construction via ArrayFromDataExt::from_data, request parser, row-at-a-time oracle)",
        "lean/Drivers/C14.lean parser/printer",
        "per-bit model of BitVecExt word operations (tied by the length sweep only)",
        "debug build profile (overflow checks on), current-thread tokio runtime",
    ])


def replay(path):
    d = json.load(open(path))
    rp = d.get("replay", {})
    q = rp.get("request")
    if not q:
        print(json.dumps(d, indent=1))
        return 0
    os.makedirs(vlib.WORK, exist_ok=True)
    p = os.path.join(vlib.WORK, "replay_c14_%d.txt" % os.getpid())
    open(p, "w").write(q + "\n")
    rc1, o1 = vlib.sh([vlib.harness_bin("c14"), "run", p])
    rc2, o2 = vlib.sh([vlib.lean_exe("drv_c14")], stdin=q + "\n")
    os.unlink(p)
    print("request:", q)
    print("implementation:", o1.strip())
    print("model ;; spec ;; tags:", o2.strip())
    return 0
