"""Query/data generator for the whole-optimizer differential (C01) and plan well-formedness (C17).

Structured and mostly valid; every random choice comes from the rng passed in.  A case is
{"setup": [sql...], "sql": query, "features": [...], "ordered": bool, "nkeys": int}.
Results are compared as bags; for ORDER BY queries additionally as sequences on the ORDER BY
keys (the generator puts the keys first in the select list and orders by every selected column
when a LIMIT is present, so ties cannot make the answer ambiguous)."""

TABLES = {
    "t1": [("a", "int"), ("b", "int"), ("c", "varchar")],
    "t2": [("x", "int"), ("y", "int"), ("z", "varchar")],
    "t3": [("p", "int"), ("q", "int"), ("r", "boolean")],
}
KEYED = {"k1": [("id", "int"), ("v", "int")]}   # primary key as first column, INT (the layout the planner's order/range rules are meant for)


def lit(rng, ty, null_ok=True):
    if null_ok and rng.random() < 0.2:
        return "NULL"
    if ty == "int":
        return str(rng.choice([0, 1, 1, 2, 2, 3, -1]))
    if ty == "boolean":
        return rng.choice(["true", "false"])
    return "'%s'" % rng.choice(["", "a", "b", "ab"])


def gen_setup(rng, with_keyed):
    setup = []
    for t, cols in TABLES.items():
        setup.append("create table %s(%s)" % (t, ", ".join("%s %s" % c for c in cols)))
        n = rng.choice([0, 1, 2, 3, 4, 5, 6])
        if n:
            setup.append("insert into %s values %s" % (t, ", ".join(
                "(" + ", ".join(lit(rng, ty) for _, ty in cols) + ")" for _ in range(n))))
    if with_keyed:
        setup.append("create table k1(id int primary key, v int)")
        ids = rng.sample(range(0, 12), rng.choice([0, 1, 3, 5, 7]))
        rng.shuffle(ids)
        # several INSERT statements = several row-sets with interleaving key ranges on the disk
        # engine (the scan must merge them for the planner's order assumptions to hold)
        nparts = rng.choice([1, 1, 2, 3, 4]) if len(ids) >= 3 else 1
        for part in range(nparts):
            chunk = ids[part::nparts]
            if chunk:
                setup.append("insert into k1 values %s" % ", ".join("(%d, %s)" % (i, lit(rng, "int")) for i in chunk))
    return setup


def int_cols(tabs):
    out = []
    for t in tabs:
        for c, ty in {**TABLES, **KEYED}[t]:
            if ty == "int":
                out.append("%s.%s" % (t, c))
    return out


def all_cols(tabs):
    return ["%s.%s" % (t, c) for t in tabs for c, _ in {**TABLES, **KEYED}[t]]


def int_expr(rng, cols, depth=0):
    r = rng.random()
    if depth >= 2 or r < 0.42:
        return rng.choice(cols)
    if r < 0.56:
        return str(rng.choice([0, 1, 2, 3]))
    if r < 0.62 and depth < 2:
        # CASE over integers (select kernel, if-rules)
        return "(case when %s then %s else %s end)" % (pred(rng, cols, 2), int_expr(rng, cols, depth + 1), int_expr(rng, cols, depth + 1))
    op = rng.choice(["+", "-", "*", "+", "-", "*", "/", "%"])
    return "(%s %s %s)" % (int_expr(rng, cols, depth + 1), op, int_expr(rng, cols, depth + 1))


def other_cols(cols):
    """the varchar / boolean columns of the tables the integer columns come from"""
    tabs = sorted({c.split(".")[0] for c in cols})
    out = {"varchar": [], "boolean": []}
    for t in tabs:
        for c, ty in {**TABLES, **KEYED}.get(t, []):
            if ty in out:
                out[ty].append("%s.%s" % (t, c))
    return out


def pred(rng, cols, depth=0, feats=None):
    r = rng.random()
    if depth >= 2 or r < 0.42:
        a = int_expr(rng, cols, 1)
        b = int_expr(rng, cols, 1)
        if a == b and rng.random() < 0.5:
            b = str(rng.choice([0, 1, 2]))      # (`x op x` is kept half of the time: NULL-sensitive)
        return "%s %s %s" % (a, rng.choice(["=", "<>", "<", "<=", ">", ">="]), b)
    if r < 0.50:
        # two bounds on one column: the range-fold / conflict rules
        c = rng.choice(cols)
        k1, k2 = rng.choice([0, 1, 2, 3]), rng.choice([0, 1, 2, 3])
        return "(%s %s %d and %s %s %d)" % (c, rng.choice([">", ">=", "<", "<="]), k1, c, rng.choice([">", ">=", "<", "<="]), k2)
    if r < 0.58:
        return "%s is null" % rng.choice(cols)
    if r < 0.63:
        return "%s in (%s)" % (rng.choice(cols), ", ".join(rng.choice(["0", "1", "2", "3", "NULL"]) for _ in range(rng.choice([1, 2, 3]))))
    if r < 0.70:
        oc = other_cols(cols)
        if oc["varchar"] and rng.random() < 0.6:
            c = rng.choice(oc["varchar"])
            return rng.choice(["%s = 'a'" % c, "%s <> ''" % c, "%s like 'a%%'" % c, "%s is null" % c, "%s < 'b'" % c])
        if oc["boolean"]:
            c = rng.choice(oc["boolean"])
            return rng.choice([c, "not %s" % c, "%s is null" % c, "%s = true" % c])
    if r < 0.78:
        return "not (%s)" % pred(rng, cols, depth + 1)
    return "(%s) %s (%s)" % (pred(rng, cols, depth + 1), rng.choice(["and", "or"]), pred(rng, cols, depth + 1))


def gen_query(rng, with_keyed):
    feats = []
    names = list(TABLES) + (["k1"] if with_keyed else [])
    ntab = rng.choice([1, 1, 2, 2, 3])
    tabs = rng.sample(names, min(ntab, len(names)))
    icols = int_cols(tabs)
    frm = tabs[0]
    # a query uses either explicit joins or comma joins: `t1, t2 left join t3 on t1.a = …` binds
    # the ON clause to a FROM item outside the join (the binder accepts it; not this check's subject)
    comma_style = rng.random() < 0.2
    for k, t in enumerate(tabs[1:], 1):
        jt = "," if comma_style else rng.choice(["join", "join", "left join", "right join", "full join"])
        left_i, right_i = int_cols(tabs[:k]), int_cols([t])
        if jt == ",":
            frm += ", " + t
            feats.append("cross")
            continue
        on = "%s = %s" % (rng.choice(left_i), rng.choice(right_i))
        if rng.random() < 0.35:
            on += " and " + pred(rng, left_i + right_i, 1)
            feats.append("on-extra")
        if rng.random() < 0.1:
            on = pred(rng, left_i + right_i, 1)
            feats.append("on-nonequi")
        frm += " %s %s on %s" % (jt, t, on)
        feats.append(jt.replace(" ", "-"))
    where = ""
    if rng.random() < 0.6:
        where = " where " + pred(rng, icols)
        feats.append("where")
    sub = rng.random()
    if sub < 0.2:
        other = rng.choice([t for t in TABLES if t not in tabs] or list(TABLES))
        oc = int_cols([other])
        kind = rng.choice(["in", "exists", "exists", "not exists", "not exists", "scalar", "scalar-corr"])

        def corr_pred():
            """a correlated predicate over inner (`oc`) and outer (`icols`) columns: plain equality,
            equality whose one side mixes outer and inner columns, non-equi comparison, and
            conjunctions of those (the shapes that decide which join operator the planner picks)"""
            forms = [
                lambda: "%s = %s" % (rng.choice(oc), rng.choice(icols)),
                lambda: "%s = (%s + %s)" % (rng.choice(icols), rng.choice(oc), rng.choice(icols)),
                lambda: "(%s + %s) = %s" % (rng.choice(oc), rng.choice(icols), rng.choice(oc)),
                lambda: "%s %s %s" % (rng.choice(oc), rng.choice(["<", ">", "<=", "<>"]), rng.choice(icols)),
                lambda: "%s = %s and %s %s %s" % (rng.choice(oc), rng.choice(icols), rng.choice(oc), rng.choice(["<", ">", "<>"]), rng.choice(icols)),
                lambda: "%s = (%s + %s) and %s > %s" % (rng.choice(icols), rng.choice(oc), rng.choice(icols), rng.choice(oc), rng.choice(icols)),
                lambda: "%s = %s and %s > %d" % (rng.choice(oc), rng.choice(icols), rng.choice(oc), rng.choice([0, 1, 2])),
            ]
            return rng.choice(forms)()
        if kind == "in":
            cond = "%s in (select %s from %s%s)" % (rng.choice(icols), rng.choice(oc), other, (" where " + corr_pred()) if rng.random() < 0.3 else "")
        elif kind == "scalar":
            cond = "%s > (select count(*) from %s)" % (rng.choice(icols), other)
        elif kind == "scalar-corr":
            agg = rng.choice(["count(*)", "sum(%s)" % rng.choice(oc), "max(%s)" % rng.choice(oc)])
            grp = (" group by %s" % rng.choice(oc)) if rng.random() < 0.4 else ""
            eqc = rng.choice(oc)
            cond = "%s %s (select %s from %s where %s = %s%s)" % (rng.choice(icols), rng.choice(["<", ">", "="]), agg, other, eqc, rng.choice(icols), (" group by %s" % eqc) if grp else "")
        else:
            cond = "%s (select * from %s where %s)" % (kind, other, corr_pred())
        where = (where + " and " if where else " where ") + cond
        feats.append("subquery-" + kind.replace(" ", "-"))
    mode = rng.random()
    order = ""
    ordered, nkeys = False, 0
    if mode < 0.3:
        # aggregation
        gk = rng.sample(icols, rng.choice([0, 1, 1, 2]) if len(icols) >= 2 else 1)
        aggs = []
        for _ in range(rng.choice([1, 2, 3])):
            f = rng.choice(["count", "sum", "min", "max"])
            aggs.append("%s(%s)" % (f, rng.choice(icols)) if rng.random() < 0.8 else "count(*)")
        sel = gk + aggs
        q = "select %s from %s%s" % (", ".join(sel), frm, where)
        if gk:
            q += " group by " + ", ".join(gk)
            feats.append("group-by")
            if rng.random() < 0.3:
                q += " having %s > %s" % (rng.choice(aggs), rng.choice([0, 1, 2]))
                feats.append("having")
        else:
            feats.append("scalar-agg")
        nsel = len(sel)
    else:
        nsel = rng.choice([1, 2, 3])
        sel = [int_expr(rng, icols) if rng.random() < 0.7 else rng.choice(all_cols(tabs)) for _ in range(nsel)]
        distinct = "distinct " if rng.random() < 0.15 else ""
        if distinct:
            feats.append("distinct")
        q = "select %s%s from %s%s" % (distinct, ", ".join(sel), frm, where)
    if rng.random() < 0.35:
        # order by every selected column (by position), so LIMIT is deterministic
        dirs = [rng.choice(["", " desc"]) for _ in range(nsel)]
        # (RisingLight treats `ORDER BY 1` as ordering by the constant 1, so the keys are spelled out)
        order = " order by " + ", ".join("%s%s" % (e, d) for e, d in zip(sel, dirs))
        q += order
        ordered, nkeys = True, nsel
        feats.append("order-by")
        if rng.random() < 0.6:
            q += " limit %d" % rng.choice([0, 1, 2, 3, 10])
            feats.append("limit")
            if rng.random() < 0.5:
                q += " offset %d" % rng.choice([0, 1, 2, 5])
                feats.append("offset")
    return q, feats, ordered, nkeys


def gen_big_cases(rng):
    """Inputs that span several executor chunks (1024 rows out of the order executor, 2048-row scan
    batches), with key groups straddling the boundaries: where sort-aggregation, merge join, top-N
    and limit carry state from one chunk to the next."""
    n = rng.choice([2300, 2600, 3100])
    div = rng.choice([3, 7, 10])
    rows = [(i // div + (1 if rng.random() < 0.02 else 0), rng.choice([0, 1, 2, 3, 5])) for i in range(n)]
    rng.shuffle(rows)
    setup = ["create table big(k int, v int)"]
    for c in range(0, n, 400):
        setup.append("insert into big values " + ", ".join("(%d, %d)" % r for r in rows[c:c + 400]))
    m = rng.choice([30, 45])
    small = [(rng.randrange(0, n // div + 2), rng.choice([0, 1, 2])) for _ in range(m)]
    setup.append("create table sm(k int, w int)")
    setup.append("insert into sm values " + ", ".join("(%d, %d)" % r for r in small))
    off = rng.choice([1000, 1023, 1024, 1025, 2047, 2048, 2100])
    qs = [
        ("select k, count(*), sum(v), min(v), max(v) from (select k, v from big order by k) s group by k", ["big", "sortagg-candidate"], False),
        ("select k, count(*) from (select k, v from big order by k desc) s group by k", ["big", "sortagg-candidate"], False),
        ("select a.k, a.v, b.w from (select k, v from big order by k) a join (select k, w from sm order by k) b on a.k = b.k", ["big", "mergejoin-candidate"], False),
        ("select a.k, b.w from (select k, v from big order by k) a left join (select k, w from sm order by k) b on a.k = b.k where a.v = 5", ["big", "mergejoin-candidate", "left-join"], False),
        ("select b.w, a.k from (select k, w from sm order by k) b left join (select k, v from big order by k) a on a.k = b.k", ["big", "mergejoin-candidate", "left-join"], False),
        ("select k, v from big order by k, v limit 7 offset %d" % off, ["big", "topn", "offset"], True),
        ("select count(*) from (select k from big limit 900 offset %d) s" % off, ["big", "limit", "offset"], False),
        ("select k, v from big where v = 5 order by k desc, v", ["big", "order"], True),
        ("select v, count(*), sum(k) from big group by v", ["big", "hashagg"], False),
    ]
    return [{"setup": setup, "sql": q, "features": f, "ordered": o, "nkeys": 2 if o else 0} for q, f, o in qs]


def gen_keyed_cases(rng):
    """Keyed tables whose rows arrive in several INSERTs with interleaving key ranges (several row-sets
    on the disk engine), queried in the shapes where the planner relies on the scan's key order:
    ORDER BY the key (dropped as useless), key ranges pushed into the scan, primary-key joins (merge
    join), GROUP BY the key (sort aggregation)."""
    taken = []

    def keyed(name, nkeys, nparts):
        # (half of the second table's keys are keys of the first: joins on the key have matched AND unmatched
        # rows on both sides, in interleaving positions)
        shared = rng.sample(taken, min(len(taken), nkeys // 2)) if taken else []
        ids = shared + rng.sample([i for i in range(0, 40) if i not in shared], nkeys - len(shared))
        rng.shuffle(ids)
        taken.extend(ids)
        out = ["create table %s(id int primary key, v int)" % name]
        for part in range(nparts):
            chunk = ids[part::nparts]
            if chunk:
                out.append("insert into %s values %s" % (name, ", ".join("(%d, %s)" % (i, lit(rng, "int")) for i in chunk)))
        return out
    setup = keyed("k1", rng.choice([9, 12, 15]), rng.choice([3, 3, 4, 5])) + keyed("k2", rng.choice([6, 9, 12]), rng.choice([2, 3, 4]))
    lo, hi = sorted(rng.sample(range(0, 40), 2))
    # deletions that stay in delete vectors (no compaction in between): deleted rows inside and at
    # the edges of the key ranges asked for below
    if rng.random() < 0.7:
        setup.append("delete from k1 where id %% %d = %d" % (rng.choice([2, 3]), rng.choice([0, 1])))
    if rng.random() < 0.5:
        setup.append("delete from k1 where id >= %d and id <= %d" % (lo, lo + rng.choice([0, 1, 3])))
    if rng.random() < 0.4:
        setup.append("delete from k2 where v = 1 or id = %d" % hi)
    qs = [
        ("select id, v from k1 order by id", True, 1),
        ("select id from k1 order by id desc", True, 1),
        ("select id, v from k1 where id >= %d order by id" % lo, True, 1),
        ("select id, v from k1 where id > %d and id <= %d order by id" % (lo, hi), True, 1),
        ("select id from k1 where id < %d order by id limit 3" % hi, True, 1),
        ("select id from k1 order by id limit 4 offset 2", True, 1),
        ("select a.id, b.v from k1 a join k2 b on a.id = b.id", False, 0),
        ("select a.id, b.id from k1 a left join k2 b on a.id = b.id where a.id >= %d" % lo, False, 0),
        ("select a.id, b.id from k1 a join k2 b on a.id = b.id where b.id < %d order by a.id" % hi, True, 1),
        ("select id from k1 where id in (select id from k2)", False, 0),
        ("select id from k1 where exists (select * from k2 where k2.id = k1.id)", False, 0),
        ("select id from k1 where not exists (select * from k2 where k2.id = k1.id) order by id", True, 1),
        ("select id from k1 where id not in (select id from k2 where v > 1)", False, 0),
        ("select id, count(*), sum(v) from k1 group by id", False, 0),
        ("select id, count(*) from k1 where id >= %d group by id order by id" % lo, True, 1),
        # ORDER BY the key while the key itself is not selected (the key column is pruned from everything above the scan;
        # the key is unique, so the sequence of the other column is determined)
        ("select v from k1 order by id", True, 0),
        ("select v from k1 where id >= %d order by id" % lo, True, 0),
        ("select v, v + 1 from k1 order by id limit 5", True, 0),
        ("select b.v from k1 a join k2 b on a.id = b.id order by a.id", True, 0),
        # key ranges whose bounds are constants of different types (only an all-INT range may go into the scan)
        ("select id from k1 where id >= %d and id <= %d.5" % (lo, hi), False, 0),
        ("select id, v from k1 where id between %d and %d.5" % (lo, hi), False, 0),
        ("select id from k1 where id >= %d and id < cast(%d as bigint)" % (lo, hi), False, 0),
        ("select id from k1 where id > %d.5 and id <= %d" % (lo, hi), False, 0),
        ("select v from k1 where id >= %d" % lo, False, 0),
        ("select count(*) from k1 where id >= %d and id < %d" % (lo, hi), False, 0),
        ("select v from k1 where id = %d" % lo, False, 0),
    ]
    # views over the keyed tables (as they are, reordered, and over a view): the planner's key-order
    # and key-range reasoning must not leak through a view
    setup += ["create view kv(id, v) as select id, v from k1", "create view kw(v, id) as select v, id from k1", "create view kvv(id) as select id from kv"]
    qs += [
        ("select id, v from kv where id >= %d" % lo, False, 0),
        ("select id from kv where id > %d and id <= %d order by id" % (lo, hi), True, 1),
        ("select id from kw where id = %d" % lo, False, 0),
        ("select id from kvv where id < %d order by id" % hi, True, 1),
        ("select kv.id, k2.v from kv join k2 on kv.id = k2.id", False, 0),
        ("select id, count(*) from kv group by id", False, 0),
    ]
    cases = [{"setup": setup, "sql": q, "features": ["keyed-multi-rowset"], "ordered": o, "nkeys": nk} for q, o, nk in qs]
    # a composite primary key declared by a table constraint, key columns not co-monotone, several inserts:
    # ORDER BY / GROUP BY / joins on a non-leading key column that never read the leading one
    pairs = [(a, b) for a in range(1, 5) for b in range(1, 5)]
    rng.shuffle(pairs)
    pairs = pairs[:rng.choice([6, 9, 12])]
    setup3 = ["create table kc(a int, b int, v int, primary key(a, b))"]
    for part in range(3):
        chunk = pairs[part::3]
        if chunk:
            setup3.append("insert into kc values %s" % ", ".join("(%d, %d, %s)" % (a, (5 - b) if a % 2 else b, lit(rng, "int")) for a, b in chunk))
    for q, o, nk in [("select b from kc order by b", True, 1), ("select b, v from kc order by b, v", True, 2),
                     ("select b from kc order by b limit 3 offset 1", True, 1), ("select a, b from kc order by a, b", True, 2),
                     ("select b, count(*) from kc group by b", False, 0), ("select a from kc order by a desc", True, 1),
                     ("select x.b, y.b from kc x join kc y on x.b = y.b and x.a = y.a", False, 0),
                     ("select b from kc where b >= 2 order by b", True, 1)]:
        cases.append({"setup": setup3, "sql": q, "features": ["composite-key-constraint"], "ordered": o, "nkeys": nk})
    # ORDER BY a key of the padded side of an outer join whose other rows are unmatched: the sequence
    # is compared on the ORDER BY column only (`order_cols`), ties among the NULLs are free
    setup2 = setup + ["create table u1(a int, b int)", "insert into u1 values %s" % ", ".join("(%d, %d)" % (rng.randrange(0, 40), rng.randrange(0, 5)) for _ in range(rng.choice([4, 7])))]
    for q in ["select b.id, a.id from k1 a left join k2 b on a.id = b.id order by b.id",
              "select b.id, a.v from k1 a full join k2 b on a.id = b.id order by b.id",
              "select b.id, u1.b from u1 left join k2 b on u1.a = b.id order by b.id",
              "select s.id, u1.a from u1 left join (select id from k1 order by id limit 6) s on u1.a = s.id order by s.id",
              "select b.id, a.id from k1 a left join k2 b on a.id = b.id order by b.id desc"]:
        cases.append({"setup": setup2, "sql": q, "features": ["keyed-multi-rowset", "order-by-padded-key"], "ordered": True, "nkeys": 1, "order_cols": [0]})
    return cases


def gen_cases(rng, n):
    cases = gen_big_cases(rng) + gen_keyed_cases(rng) + gen_derived_cases(rng) + gen_shape_cases(rng) + gen_operator_cases(rng)
    for k in range(n):
        with_keyed = rng.random() < 0.3
        setup = gen_setup(rng, with_keyed)
        q, feats, ordered, nkeys = gen_query(rng, with_keyed)
        if with_keyed:
            feats.append("keyed-table")
        cases.append({"setup": setup, "sql": q, "features": feats, "ordered": ordered, "nkeys": nkeys})
    # table statistics: the property quantifies over them ("real or mocked row counts"): a third of the
    # cases run with mocked row counts (0, tiny, huge) for the tables they create — estimates decide
    # which physical operator is extracted, and rules that rely on that choice must not
    import re as _re
    nfixed = len(cases) - n
    extra = []
    for idx, c in enumerate(cases):
        if rng.random() < 0.34:
            tabs = [m.group(1) for st in c["setup"] for m in [_re.match(r"create table (\w+)\(", st)] if m]
            mock = ["set mock_rowcount_%s = %d" % (t, rng.choice([0, 0, 1, 2, 3, 7, 1000, 1000000])) for t in tabs if rng.random() < 0.8]
            if mock:
                # the fixed families (chunk boundaries, keyed tables, shapes, operators) keep their run under
                # real statistics — that run is what reaches sort aggregation / merge join on them — and get
                # the mocked run IN ADDITION; a random case is replaced by its mocked variant
                tgt = dict(c) if idx < nfixed else c
                tgt["setup"] = list(c["setup"]) + mock
                tgt["features"] = list(c["features"]) + ["mocked-statistics"]
                if idx < nfixed:
                    extra.append(tgt)
    cases += extra
    return cases



def gen_operator_cases(rng):
    """Operators that the random join/where/aggregate generator never reaches (measured: the heads
    `window over row_number like || substring replace repeat extract cast avg count-distinct values %`
    did not occur in a single optimized plan of a run): window functions under filters, joins, limits
    and DISTINCT (a filter above a window must stay above it), string functions and LIKE, AVG and
    COUNT(DISTINCT), VALUES as a table, casts, EXTRACT, unary minus, modulo, and DATE / DOUBLE /
    DECIMAL columns.  Doubles are multiples of 0.25 of small magnitude (sums are exact in any order).
    Window ORDER BY lists are total on the selected columns (ties only between identical rows)."""
    setup = gen_setup(rng, False)
    setup.append("create table d1(id int, d date, f double, n decimal(8,2))")
    nd = rng.choice([0, 1, 3, 5])
    if nd:
        rows = []
        for i in range(nd):
            d = "NULL" if rng.random() < 0.2 else "date '%s'" % rng.choice(["2020-01-31", "1999-12-01", "2000-02-29", "2020-03-01"])
            f = "NULL" if rng.random() < 0.2 else str(rng.choice([-2.0, 0.0, 0.25, 1.5, 3.75]))
            n = "NULL" if rng.random() < 0.2 else rng.choice(["1.25", "10.00", "-0.50", "0.00"])
            rows.append("(%d, %s, %s, %s)" % (rng.choice([1, 2, 3]), d, f, n))
        setup.append("insert into d1 values %s" % ", ".join(rows))
    k = rng.choice([0, 1, 2, 3])
    cmp_ = rng.choice(["<", "<=", ">", ">=", "=", "<>"])
    agg = rng.choice(["sum", "min", "max", "count"])
    part = rng.choice(["partition by a", "partition by a", "partition by c", ""])
    desc = rng.choice(["", " desc"])
    pat = rng.choice(["a%", "%b", "%", "a_", "", "_", "%a%"])
    fld = rng.choice(["year", "month", "day"])
    qs = [
        # window functions over a (filtered) scan: alone, with filters above and below, a join / DISTINCT /
        # aggregate ABOVE the window.  The window executor computes running aggregates over its input
        # in input order (it ignores PARTITION BY and ORDER BY), so a window's answer is determined
        # only by the order of its input: the cases keep a plain table scan below the window (same
        # order with and without the optimizer) and nothing order-sensitive above it; a window over a
        # join or an aggregation has no determined answer and is not generated.
        "select a, b, c, row_number() over (order by a%s, b, c) from t1" % desc,
        "select a, b, c, %s(b) over (%s order by a, b, c) from t1" % (agg, part),
        "select a, b, c, row_number() over (partition by a order by b%s, c) from t1 where b %s %d" % (desc, cmp_, k),
        "select s.a, s.b, s.rn from (select a, b, row_number() over (order by a, b, c) as rn from t1) s where s.rn %s %d" % (cmp_, k),
        "select s.a, s.b, s.rn from (select a, b, row_number() over (order by a, b, c) as rn from t1) s where s.a %s %d" % (cmp_, k),
        "select s.a, s.b, s.c, s.w from (select a, b, c, %s(b) over (partition by a order by b, c) as w from t1) s where s.b %s %d" % (agg, cmp_, k),
        "select s.a, s.b, s.c, s.w from (select a, b, c, %s(b) over (partition by a order by b, c) as w from t1) s where s.a %s %d" % (agg, cmp_, k),
        "select s.a, s.b, s.c, s.w from (select a, b, c, count(*) over (order by a, b, c) as w from t1) s where s.b is not null",
        "select s.a, s.rn, t2.y from (select a, b, row_number() over (order by a, b, c) as rn from t1) s join t2 on s.rn = t2.x",
        "select s.a, s.rn, t2.y from (select a, b, row_number() over (order by a, b, c) as rn from t1) s left join t2 on s.a = t2.x where s.rn %s %d" % (cmp_, k),
        "select s.a, s.rn, t2.y from t2 right join (select a, b, row_number() over (order by a, b, c) as rn from t1) s on s.a = t2.x and s.rn %s %d" % (cmp_, k),
        "select a, b, c, row_number() over (order by a, b, c) as r1, %s(b) over (partition by a order by b, c) as s1 from t1" % agg,
        "select distinct s.a, s.w from (select a, count(*) over (partition by a order by b, c) as w from t1) s where s.w %s %d" % (cmp_, k),
        "select count(*), max(rn) from (select row_number() over (order by a, b, c) as rn from t1) s where rn %s %d" % (cmp_, k),
        "select a, b, c, a + row_number() over (order by a, b, c) from t1",
        "select a, b, c, case when row_number() over (order by a, b, c) > %d then 1 else 0 end from t1" % k,
        "select a, b, %s(b) over (partition by a order by b, c) from t1 where false" % agg,
        "select s.a, s.rn from (select a, row_number() over (order by a, b, c) as rn from t1 where b %s %d) s where s.rn = 1" % (cmp_, k),
        "select s.x, s.y, s.z, s.rn from (select x, y, z, row_number() over (partition by x order by y, z) as rn from t2) s where s.rn = %d" % (k + 1),
        "select s.a, s.rn from (select a, row_number() over (order by a, b, c) as rn from t1) s where s.rn in (select x from t2)",
        "select s.a, s.rn from (select a, row_number() over (order by a, b, c) as rn from t1) s where exists (select 1 from t2 where t2.x = s.rn)",
        # string functions, LIKE
        "select c || z from t1 join t2 on a = x",
        "select c || 'x' || c from t1 where c || 'x' <> 'ax'",
        "select a, c from t1 where c like '%s'" % pat,
        "select a, c from t1 where c like '%s' or c like 'b%%'" % pat,
        "select a, c from t1 where not (c like '%s')" % pat,
        "select t1.a, t2.z from t1 left join t2 on t1.a = t2.x and t2.z like '%s'" % pat,
        "select substring(c from 1 for 1), count(*) from t1 group by substring(c from 1 for 1)",
        "select a from t1 where substring(c from %d) = 'b'" % (k + 1),
        "select replace(c, 'a', 'x'), repeat(c, 2) from t1",
        "select cast(b as varchar) || c from t1",
        # AVG, COUNT(DISTINCT ..)
        "select avg(b) from t1",
        "select a, avg(b) from t1 group by a",
        "select avg(b), avg(a + b) from t1 join t2 on a = x",
        "select a, avg(b) from t1 group by a having avg(b) %s %d" % (cmp_, k),
        "select count(distinct a) from t1",
        "select count(distinct b), count(b), count(*) from t1 where a = %d" % k,
        "select a, count(distinct b), sum(b) from t1 group by a having count(distinct b) > 1",
        "select t1.a, count(distinct t2.y) from t1 left join t2 on t1.a = t2.x group by t1.a",
        # VALUES as a table
        "select * from (values (1, 2), (3, 4), (%d, NULL)) v" % k,
        "select count(*) from (values (1), (2), (%d)) v" % k,
        # casts, EXTRACT, unary minus, modulo, other types
        "select cast(a as double), cast(a as boolean), cast(a as varchar) from t1",
        "select a from t1 where cast(a as double) > %d.5" % k,
        "select a, b from t1 where -a < -%d or -b = -2" % k,
        "select a % 2, b from t1 where b % 2 = 1",
        "select id, extract(%s from d) from d1" % fld,
        "select extract(%s from d), count(*) from d1 group by extract(%s from d)" % (fld, fld),
        "select id from d1 where extract(year from d) = 2020 and extract(day from d) > %d" % k,
        "select id, d from d1 where d > date '2000-01-01'",
        "select id, d from d1 where d + interval '1' day > date '2000-02-29'",
        "select sum(f), min(f), max(f), min(n), max(n), sum(n), count(f) from d1",
        "select id, sum(f), sum(n) from d1 group by id",
        "select id, f + cast(id as double), n * 2 from d1 where n is not null",
        "select id, f, n from d1 where f > 0.0 or n > 1.0",
        "select d1.id, t1.b, d1.f from d1 join t1 on d1.id = t1.a where d1.f %s 1.5" % cmp_,
        "select d1.id, t1.b, d1.n from d1 left join t1 on d1.id = t1.a and d1.n > 0.0",
        "select id, n from d1 where n between 0.0 and 5.0",
        "select id, f from d1 order by f, id, d, n",
    ]
    rng.shuffle(qs)
    out = []
    for q in qs[:48]:
        out.append({"setup": setup, "sql": q, "features": ["operators"], "ordered": False, "nkeys": 0})
    return out


def gen_derived_cases(rng):
    """Derived tables with computed / constant / aggregated columns on the NULL-padded side of outer
    joins: the padding must make EVERY column of the padded side NULL, also `5 as c`, `x + 1`,
    `x is null`, `count(*)`; conditions above the join that are TRUE on the padding (`s.c is null`)
    must keep the padded rows (projection / filter movement across outer joins, constant columns)."""
    setup = gen_setup(rng, False)
    deriv = [
        ("(select x, x + 1 as y, 5 as c from t2) s", "s.x", ["s.y", "s.c"]),
        ("(select x, x is null as n, 'k' as c from t2) s", "s.x", ["s.n", "s.c"]),
        ("(select x, count(*) as n, 7 as c from t2 group by x) s", "s.x", ["s.n", "s.c"]),
        ("(select x, y, 0 as c from t2 where y > 0) s", "s.x", ["s.y", "s.c"]),
        ("(select p as x, q * 0 as y, 1 as c from t3) s", "s.x", ["s.y", "s.c"]),
        ("(select distinct x, 2 as c, x as y from t2) s", "s.x", ["s.c", "s.y"]),
    ]
    cases = []
    for d, key, extra in deriv:
        for jt in ["left join", "right join", "full join"]:
            lhs = "t1 %s %s on t1.a = %s" % (jt, d, key)
            sel = "t1.a, t1.b, %s, %s" % (key, ", ".join(extra))
            qs = ["select %s from %s" % (sel, lhs),
                  "select %s from %s where %s is null" % (sel, lhs, extra[-1]),
                  "select %s from %s where %s is not null" % (sel, lhs, extra[-1]),
                  "select %s from %s where %s is null or t1.b > 1" % (sel, lhs, extra[0]),
                  "select t1.a, %s from %s where t1.a is null" % (extra[-1], lhs),
                  "select %s, count(*) from %s group by %s" % (extra[-1], lhs, extra[-1])]
            for q in rng.sample(qs, 3):
                cases.append({"setup": setup, "sql": q, "features": ["derived-under-outer-join", jt.replace(" ", "-")], "ordered": False, "nkeys": 0})
    # the derived table on the preserved side, the base table padded
    for q in ["select s.x, s.c, t1.a from (select x, 5 as c from t2) s left join t1 on t1.a = s.x",
              "select s.x, s.c, t1.a from t1 right join (select x, 5 as c from t2) s on t1.a = s.x where t1.a is null"]:
        cases.append({"setup": setup, "sql": q, "features": ["derived-under-outer-join", "preserved-side"], "ordered": False, "nkeys": 0})
    return cases


def gen_shape_cases(rng):
    """Query shapes beyond the random join/where/aggregate generator: CTEs, scalar subqueries in the
    select list, derived tables with ORDER BY / LIMIT, nested outer joins whose ON clause reads an
    earlier padded side, aggregates over padded rows (count(col) vs count(*)), grouping by
    expressions, HAVING on an aggregate that is not selected, DISTINCT over outer joins."""
    setup = gen_setup(rng, False)
    k = rng.choice([0, 1, 2])
    qs = [
        # CTEs (inlined by the binder: the same sub-plan may appear twice)
        ("with c as (select a, b from t1 where b > %d) select c.a, t2.y from c join t2 on c.a = t2.x" % k, False),
        ("with c as (select x, count(*) as n from t2 group by x) select t1.a, c.n from t1 left join c on t1.a = c.x", False),
        ("with c as (select a from t1), d as (select a + 1 as a1 from c) select a1 from d where a1 > %d" % k, False),
        # scalar subqueries in the select list
        ("select a, (select count(*) from t2 where t2.x = t1.a) from t1", False),
        ("select a, (select max(y) from t2 where t2.x = t1.a) from t1 where b is not null", False),
        ("select a, (select count(*) from t2) from t1", False),
        # derived tables with ORDER BY / LIMIT (the limit must stay inside)
        ("select s.x, t1.b from (select x from t2 order by x, y limit 2) s join t1 on t1.a = s.x", False),
        ("select s.x from (select x, y from t2 order by x, y limit 3 offset 1) s where s.y > %d" % k, False),
        ("select count(*) from (select distinct x from t2) s", False),
        ("select s.a, s.n from (select a, count(*) as n from t1 group by a) s where s.n > 1 or s.a is null", False),
        # nested outer joins
        ("select t1.a, t2.x, t3.p from t1 left join t2 on t1.a = t2.x left join t3 on t2.y = t3.p", False),
        ("select t1.a, t2.x, t3.p from t1 left join t2 on t1.a = t2.x left join t3 on t2.x is null and t3.p = t1.a", False),
        ("select t1.a, t2.x, t3.p from t1 full join t2 on t1.a = t2.x left join t3 on t3.p = t1.a where t2.x is null", False),
        ("select t1.a, t2.x, t3.p from t1 left join (t2 join t3 on t2.x = t3.p) on t1.a = t2.x", False),
        ("select t1.a, t2.x, t3.p from t1 right join t2 on t1.a = t2.x right join t3 on t3.p = t2.x", False),
        # aggregates over padded rows
        ("select t1.a, count(t2.x), count(*), sum(t2.y) from t1 left join t2 on t1.a = t2.x group by t1.a", False),
        ("select count(t1.a), count(t2.x), count(*) from t1 full join t2 on t1.a = t2.x", False),
        ("select t2.x, count(t1.a) from t1 right join t2 on t1.a = t2.x group by t2.x having count(t1.a) = 0", False),
        ("select max(t2.y), min(t1.b) from t1 left join t2 on t1.a = t2.x where t2.x is null", False),
        # grouping by expressions, HAVING on an unselected aggregate, DISTINCT over an outer join
        ("select a + b, count(*) from t1 group by a + b", False),
        ("select a from t1 group by a having sum(b) > %d" % k, False),
        ("select a % 2, max(b) from t1 where a is not null group by a % 2 having count(*) >= 1", False),
        ("select distinct t1.a, t2.x from t1 left join t2 on t1.a = t2.x", False),
        ("select distinct t2.y from t1 full join t2 on t1.a = t2.x where t1.a is null", False),
        # IN / EXISTS over derived tables and under outer joins
        ("select t1.a from t1 left join t2 on t1.a = t2.x where t2.y in (select q from t3) or t2.y is null", False),
        ("select a from t1 where exists (select 1 from t2 left join t3 on t2.x = t3.p where t2.x = t1.a and t3.p is null)", False),
        ("select a from t1 where a not in (select x from t2 where x is not null)", False),
    ]
    k2 = rng.choice([1, 2, 3])
    qs2 = [
        # self joins: the same table twice (column identity carries the table occurrence)
        ("select x.a, y.b from t1 x join t1 y on x.a = y.b", False),
        ("select x.a, y.a from t1 x left join t1 y on x.a = y.b and y.a > %d" % k, False),
        ("select x.a, y.a, z.a from t1 x join t1 y on x.a = y.a join t1 z on y.b = z.b where x.b > %d" % k, False),
        ("select x.a from t1 x where x.b > (select min(y.b) from t1 y where y.a = x.a)", False),
        ("select x.a from t1 x where exists (select 1 from t1 y where y.a = x.b and y.b <> x.b)", False),
        ("select x.x, count(*) from t2 x join t2 y on x.x = y.y group by x.x", False),
        # limits: nested, zero, beyond the input, over joins and aggregates
        ("select a from (select a from t1 order by a, b limit 4) s order by a desc limit 2", True),
        ("select a, b from t1 order by a, b limit 0", True),
        ("select a, b from t1 order by a, b limit 3 offset 50", True),
        ("select a, b from t1 order by a, b offset %d" % k2, True),
        ("select t1.a, t2.y from t1 join t2 on t1.a = t2.x order by t1.a, t2.y limit %d" % k2, True),
        ("select a, count(*) from t1 group by a order by a limit %d offset 1" % k2, True),
        ("select count(*) from (select a from t1 limit %d) s" % k2, False),
        # filters around aggregation: on the key (pushable), on the aggregate (not), mixed, through a derived table
        ("select a, sum(b) from t1 group by a having a > %d" % k, False),
        ("select a, sum(b) from t1 group by a having sum(b) > %d and a is not null" % k, False),
        ("select s.a, s.n from (select a, count(b) as n from t1 group by a) s where s.a > %d or s.n = 0" % k, False),
        ("select s.a from (select a, max(b) as m from t1 group by a) s join t2 on s.m = t2.y where s.a > %d" % k, False),
        # IN lists with NULL under NOT, BETWEEN, CASE in predicates
        ("select a from t1 where a not in (1, NULL)", False),
        ("select a from t1 where not (a in (%d, 2) or b is null)" % k, False),
        ("select a from t1 where a between %d and %d" % (k, k + 1), False),
        ("select a from t1 where not (a between %d and %d)" % (k + 1, k), False),
        ("select a from t1 where case when b > %d then a else b end > 1" % k, False),
        ("select a, case when a is null then 0 when a > 1 then a else -a end from t1", False),
        # DISTINCT ON: ORDER BY keys inside / outside the ON list (the binder must refuse a key the aggregation drops)
        ("select distinct on (b) b, a from t1 order by b", False),
        ("select distinct on (b) b, a from t1 order by b, a", False),
        ("select distinct on (a) a, b from t1 order by a desc, b", False),
        ("select distinct on (a + b) a + b, a from t1 order by a + b", False),
        ("select distinct on (a) a, b + 1 from t1 order by b + 1", False),
        ("select distinct a, b from t1 order by a, b", True),
        # two bounds on one column with constants of DIFFERENT types (the range-fold / conflict rules compare the
        # constants: INT vs DECIMAL vs BIGINT must be compared by value)
        ("select a from t1 where a > 0.5 and a < 4", False),
        ("select a from t1 where a > 2.5 and a > 1", False),
        ("select a from t1 where a > 1 and a > 2.5", False),
        ("select a from t1 where a < 3 and a < 1.5", False),
        ("select a from t1 where a >= 0.5 and a >= %d" % k, False),
        ("select a from t1 where a > -3000000000 and a > %d" % k, False),
        ("select a from t1 where a < 3000000000 and a <= %d" % k2, False),
        ("select a, b from t1 where b > 1.5 and b < 3000000000", False),
        ("select a from t1 where not (a > 0.5 and a < 4)", False),
    ]
    return [{"setup": setup, "sql": q, "features": ["shape"], "ordered": o, "nkeys": 0} for q, o in qs] + \
        [{"setup": setup, "sql": q, "features": ["shape2"], "ordered": o, "nkeys": (2 if o and "a, b" in q else 1 if o else 0)} for q, o in qs2]


def gen_dml_cases(rng):
    """Data-modifying statements go through the optimizer too (INSERT … SELECT, DELETE … WHERE with
    subqueries / NULL-sensitive predicates): the table content afterwards must not depend on whether the
    statement's plan was optimized.  A case is {"setup", "dml": [statements], "probes": [queries]}."""
    setup = gen_setup(rng, False) + ["create table r1(a int, b int)", "create table kk(id int primary key, v int)",
                                     "insert into kk values (3, 1), (9, NULL), (1, 2)", "insert into kk values (5, 3), (2, 0), (7, 1)"]
    k = rng.choice([0, 1, 2])
    fams = [
        ["insert into r1 select a, b from t1 where not (b > %d and b < %d)" % (k + 1, k)],
        ["insert into r1 select t1.a, t2.y from t1 left join t2 on t1.a = t2.x where t2.y is null or t2.y > %d" % k],
        ["insert into r1 select x, count(*) from t2 group by x"],
        ["insert into r1 select a, b from t1", "delete from r1 where a in (select x from t2)"],
        ["insert into r1 select a, b from t1", "delete from r1 where a not in (select x from t2 where x is not null)"],
        ["insert into r1 select a, b from t1", "delete from r1 where not (a = b and b = %d)" % k],
        ["insert into r1 select a, b from t1", "delete from r1 where exists (select 1 from t2 where t2.x = r1.a and t2.y > %d)" % k],
        ["insert into r1 select a, b from t1", "delete from r1 where b is null or a > (select count(*) from t3)"],
        ["delete from kk where id > %d and id <= %d" % (k, k + 5)],
        ["delete from kk where id >= 2 and v is null", "insert into kk select id + 20, v from kk where id < 6"],
        ["delete from t1 where a = (select max(x) from t2)"],
        ["insert into r1 select s.x, s.c from t1 left join (select x, 5 as c from t2) s on t1.a = s.x where s.c is null"],
    ]
    probes = ["select a, b from r1", "select id, v from kk", "select a, b, c from t1"]
    return [{"setup": setup, "dml": d, "probes": probes, "features": ["dml"]} for d in fams]

def result_key(case, rows):
    """what the property compares: the bag; and, for ORDER BY, the sequence (all selected
    columns are ORDER BY keys in generated ordered queries, so the sequence is determined)."""
    bag = sorted(tuple(r) for r in rows)
    if case.get("ordered"):
        oc = case.get("order_cols")
        if oc is not None:
            return (bag, [tuple(r[i] for i in oc) for r in rows])
        return (bag, [tuple(r) for r in rows])
    return (bag, None)
