"""C10 — concurrent sessions behave like some serial order."""
import json
import os
import re
import vlib
from checks import c08 as S
from checks import c09 as N

THEOREMS = [
    # theorem I; the modelled assert / unwrap sites that are unreachable in every schedule
    "SC.inv_reachable_init", "SC.assert_epoch_unreachable", "SC.no_missing_file",
    # exactly once
    "SC.log_kstep", "SC.exactly_once", "SC.epoch_counts_commits",
    # per-statement linearization for the restricted fragment
    "SC.insert_commit_exact", "SC.frame_other_steps", "SC.kstep_stable", "SC.reader_sees_start_snapshot",
    "SC.serializable_partial",
    # whole-run serializability of INSERT / SELECT / CREATE: manifest order is a serial order
    "SC.commitA_fields", "SC.rstep_kstep", "SC.serinv_init", "SC.serinv_rstep", "SC.astep_rstep",
    "SC.serializable_run", "SC.serializable_restricted", "SC.select_serial", "SC.dvinv_reachable",
    # no panic in the restricted fragment (changeset shapes it produces)
    # phase A never panics (since /repo 6efcfe7, every changeset, every snapshot)
    "SC.applyOp_total", "SC.applyOps_total", "SC.commitA_never_panics", "SC.no_panic_partial",
    # refutations of the unrestricted statements, by evaluation of schedules taken from the
    # implementation
    "SC.drop_vs_insert_regression", "SC.create_create_regression",
    # regression inputs of defects fixed in /repo 6efcfe7, 504f23d, 25ba285
    "SC.drop_vs_compaction_regression", "SC.drop_dv_vs_compaction_regression", "SC.drop_drop_regression",
    # no modelled panic site is reachable any more
    "SC.panic_never_enabled",
]

SIG_CREATE = "sched:create-create-same-name"
SIG_DROP_CP = "sched:drop-vs-compaction-empty-output-panic"
SIG_DROP_BOUND = "sched:drop-vs-bound-statement-panic"
SIG_DROP_INS = "sched:drop-vs-dml-commit-orphan"
SIG_SEQ_DV = "reopen:dv-of-compacted-rowset-after-drop"
SIG_MT = "delivery:multi-thread-deactivate-race"
SIG_DROP_CP_ORPHAN = "sched:drop-vs-compaction-orphan-rowset"
SIG_DEL_DEL = "sched:delete-scan-before-concurrent-delete-commit"
SIG_DELETE_DV = "sched:drop-vs-compaction-delete-dv-panic"


def panic_site(detail):
    """`dir/file.rs:LINE:msg` -> `file.rs:function` (the function of /repo's source containing
    the line), so that signatures do not depend on line numbers."""
    m = re.match(r"((?:[A-Za-z_0-9]+/)?[A-Za-z_]+\.rs):(\d+):", detail)
    if not m:
        return detail[:40]
    rel, line = m.group(1), int(m.group(2))
    base = rel.split("/")[-1]
    import glob
    for path in sorted(glob.glob(os.path.join(vlib.REPO, "src", "**", base), recursive=True)):
        if not path.endswith("/" + rel):
            continue
        try:
            lines = open(path).read().split("\n")
        except OSError:
            continue
        if line > len(lines):
            continue
        for k in range(line - 1, -1, -1):
            mm = re.match(r"\s*(?:pub(?:\([a-z]+\))?\s+)?(?:async\s+)?fn\s+([A-Za-z0-9_]+)", lines[k])
            if mm:
                return "%s:%s" % (base, mm.group(1))
    return base


def statements(trace):
    """per actor (>0): [(desc, result)] for SQL statements, in order; plus setup list."""
    cur = {}
    per = {}
    for _, (a, th, name, detail) in trace.events():
        if name == "cmd.begin":
            cur[a] = detail
        elif name == "cmd.done":
            d = cur.get(a, "")
            if d.split(":")[0] in ("ins", "del", "create", "drop", "cnt", "sel"):
                per.setdefault(a, []).append((d, detail))
    return per


def spec_exec(state, desc):
    """Sequential spec: returns (new_state, result_text) or None when the statement fails."""
    p = desc.split(":")
    k, t = p[0], p[1]
    if k == "create":
        if t in state:
            return None
        st = dict(state)
        st[t] = ()
        return st, "rows:1"
    if t not in state:
        return None
    rows = list(state[t])
    if k == "drop":
        st = dict(state)
        del st[t]
        return st, "rows:1"
    if k == "ins":
        vs = [int(x) for x in p[2].split("+") if x]
        st = dict(state)
        st[t] = tuple(sorted(rows + vs))
        return st, "rows:%d" % len(vs)
    if k == "del":
        new = N.apply_cmd(rows, desc)
        st = dict(state)
        st[t] = tuple(new)
        return st, "rows:%d" % (len(rows) - len(new))
    if k == "cnt":
        return state, "rows:%d" % len(rows)
    if k == "sel":
        return state, "rows:" + "+".join(str(v) for v in sorted(rows))
    return None


def serial_explains(trace):
    """Is there a total order of the acknowledged statements (session order kept) whose
    sequential execution gives every observed result and the observed final state?"""
    per = statements(trace)
    state = {}
    for d, r in per.get(0, []):
        if r.startswith("rows:"):
            x = spec_exec(state, d)
            if x is None:
                return False, "setup statement %s cannot succeed sequentially" % d
            state = x[0]
    seqs = [[(d, r) for d, r in per[a] if r.startswith("rows:")] for a in sorted(per) if a != 0]
    seqs = [q for q in seqs if q]
    final = {t: N.rows_of(v) for t, v in trace.final.items()}
    seen = set()

    def go(st, idx):
        key = (tuple(sorted(st.items())), tuple(idx))
        if key in seen:
            return False
        seen.add(key)
        if all(i == len(q) for i, q in zip(idx, seqs)):
            return st == final
        for k, q in enumerate(seqs):
            if idx[k] < len(q):
                d, r = q[idx[k]]
                x = spec_exec(st, d)
                if x is not None and x[1] == r:
                    if go(x[0], idx[:k] + [idx[k] + 1] + idx[k + 1:]):
                        return True
        return False
    ok = go(state, [0] * len(seqs))
    return ok, "" if ok else "no serial order of the acknowledged statements explains results %s and final state %s" % (
        [[r for _, r in q] for q in seqs], trace.final)


def shapes(trace):
    """Known defect mechanisms present in the schedule (by event pattern)."""
    found = set()
    evs = [e for _, e in trace.events()]
    cur = {}
    committed_create = set()
    rw_pinned = {}      # (actor, th) -> table id
    dropped_at = {}     # table id -> event index of ddl.drop.applied
    del_commit = {}     # table id -> first index of a DELETE commit
    del_commits = []    # (table, commit index, scan pin index, actor)
    scan_pin = {}
    cp_commit_after_del = set()
    cp_table = {}
    mode = {}
    for i, (a, th, name, detail) in enumerate(evs):
        if name == "cmd.begin":
            cur[a] = detail
        elif name == "vm.committed" and detail == "create":
            committed_create.add(a)
        elif name == "cmd.done":
            if cur.get(a, "").startswith("create:") and detail == "err:duplicate" and a in committed_create:
                found.add(SIG_CREATE)
            committed_create.discard(a)
        elif name == "panic":
            site = panic_site(detail)
            if site == "version_manager.rs:delete_rowset" and cur.get(a, "") == "compact":
                found.add(SIG_DROP_CP)
            elif site == "version_manager.rs:delete_dv":
                found.add(SIG_DELETE_DV)
            elif site == "mod.rs:new":
                found.add(SIG_DROP_BOUND)
            else:
                found.add("panic:" + site)
        elif name == "txn.pinned" and th != 0:
            m, t, _ = detail.split(",")
            mode[(a, th)] = (m, t)
            if m == "ro" and cur.get(a, "").startswith("del:"):
                scan_pin[a] = i
        elif name == "ddl.drop.applied":
            dropped_at[detail] = i
        elif name == "cp.locked":
            cp_table[a] = detail
        elif name == "vm.committed" and detail == "txn":
            m, t = mode.get((a, th), ("", ""))
            if m in ("rw", "upd") and t in dropped_at:
                found.add(SIG_DROP_INS)
            if m == "upd":
                del_commit.setdefault(t, i)
                del_commits.append((t, i, scan_pin.get(a, -1), a))
        elif name == "vm.committed" and detail == "cp":
            t = cp_table.get(a)
            if t in del_commit:
                cp_commit_after_del.add(t)
            if t in dropped_at:
                found.add(SIG_DROP_CP_ORPHAN)
    for t in dropped_at:
        if t in cp_commit_after_del:
            found.add(SIG_SEQ_DV)
    for (t1, c1, p1, a1) in del_commits:
        for (t2, c2, p2, a2) in del_commits:
            if a1 != a2 and t1 == t2 and c1 < c2 and p2 < c1:
                found.add(SIG_DEL_DEL)
    return found


def mt_probe(ck):
    """Result delivery on a multi-thread runtime (not scheduler controlled): three rounds of 300
    identical SELECTs over 3 rows.  Returns the round with the most incomplete results."""
    worst = None
    for _ in range(3):
        rc, out = vlib.sh([vlib.harness_bin("c10"), "mt", "300"], timeout=300)
        m = re.search(r"\(mt \(n (\d+)\) \(full (\d+)\) \(empty (\d+)\) \(other (\d+)\)\)", out)
        if not m:
            continue
        r = {"n": int(m.group(1)), "full": int(m.group(2)), "empty": int(m.group(3)), "other": int(m.group(4))}
        if worst is None or r["empty"] + r["other"] > worst["empty"] + worst["other"]:
            worst = r
    return worst


def report_mt(ck, mt):
    """Since /repo 67e965e (`fix:` deactivate the receiver before spawning the producer) a SELECT
    on a multi-thread runtime must deliver all its rows: an empty or partial result is a
    VIOLATION (signature `delivery:multi-thread-deactivate-race`, listed under `fixed`, which
    suppresses nothing).  A probe that could not run says nothing."""
    if not mt:
        ck.notes.append("multi-thread probe did not run")
        return "silent"
    if mt.get("empty", 0) + mt.get("other", 0) <= 0:
        return "ok"
    what = "on a multi-thread runtime %d of %d identical SELECTs over 3 rows returned no rows (%d returned some other result)" % (
        mt["empty"], mt["n"], mt["other"])
    ck.report(SIG_MT, what, replay={"cmd": "harness/target/debug/c10 mt 300", "result": mt,
                                    "sql": ["create table t (v int)", "insert into t values (1),(2),(3)", "select v from t"]})
    return "violation"


EXHAUSTIVE_TEMPLATES = [
    "(case e1 (gate cmd.begin db.bound vm.commit.begin vm.committed)"
    " (setup create:t1) (actors (create:t3) (create:t3)) (sched ) (rng 0) (sticky 0) (script ))",
    "(case e2 (gate cmd.begin db.bound txn.lock.begin txn.pinned vm.commit.begin vm.committed)"
    " (setup create:t1 ins:t1:1) (actors (ins:t1:5 cnt:t1) (ins:t1:6)) (sched ) (rng 0) (sticky 0) (script ))",
    "(case e3 (gate cmd.begin db.bound txn.lock.begin txn.pinned vm.commit.begin vm.committed ddl.drop.applied)"
    " (setup create:t1 ins:t1:1) (actors (ins:t1:5) (drop:t1)) (sched ) (rng 0) (sticky 0) (script ))",
    # three overlapping DELETE sessions on rows of one row-set: {scan pin, lock, commit} interleavings
    "(case e4 (gate txn.pinned vm.commit.begin)"
    " (setup create:t1 ins:t1:1+2+3) (actors (del:t1:eq:1) (del:t1:eq:2) (del:t1:eq:1)) (sched ) (rng 0) (sticky 0) (script ))",
    # four deleters, two pairs of overlapping targets
    "(case e5 (gate txn.pinned vm.commit.begin)"
    " (setup create:t1 ins:t1:1+2+3) (actors (del:t1:eq:1) (del:t1:eq:2) (del:t1:eq:1) (del:t1:eq:2)) (sched ) (rng 0) (sticky 0) (script ))",
]


def run(ck):
    n = 220 if ck.quick() else 600
    if not S.lean_and_build(ck, "RlModel.Thm.C10", THEOREMS, "drv_c10", "c10"):
        return ck.finish(level="proof", trusted_base=S.TRUSTED)
    cases = S.corpus_cases("C10") + S.gen_cases(ck, "c10", n)
    ck.log("running %d schedules" % len(cases))
    res, err = S.run_cases(ck, "c10", "drv_c10", cases)
    traces = [t for _, t, _ in res if t]
    cnt = {"compared": 0, "disagree": 0}
    orc = {"compared": 0, "disagree": 0}
    mvo = {"compared": 0, "disagree": 0}
    nontrivial = set()
    reasons = {}
    rb = [0]
    missing = [c for c, t, m in res if t is None]
    if missing:
        ck.report("harness:no-trace", "the harness produced no trace for %d case(s)" % len(missing),
                  replay={"case": missing[0], "harness_tail": err[1]}, found_input=False)
    def judge(c, t, m):
        if t is None:
            return
        if t.deadlock != "none":
            ck.report("sched:deadlock", "sessions did not finish: %s" % t.deadlock, replay={"case": c, "trace": t.line})
            return
        cnt["compared"] += 1
        d = S.compare(t, m)
        if not d and m and m["reopen"] != t.reopen_status:
            d = {"step": "reopen", "what": "reopen outcome differs", "impl": t.reopen_status, "model": m["reopen"]}
        if d:
            cnt["disagree"] += 1
            ck.report("corr:model-vs-impl", "model and implementation disagree at step %s: %s" % (d["step"], d["what"]),
                      replay={"case": c, "diff": d, "trace": t.line}, found_input=False)
        # model-free oracles
        orc["compared"] += 1
        problems = []
        ok, why = serial_explains(t)
        if not ok:
            problems.append(("serial", why))
        panics = [e for _, e in t.events() if e[2] == "panic" or (e[2] == "cmd.done" and e[3] == "panic")]
        if panics:
            problems.append(("panic", "a session or background pass panicked: %s" % panics[0][3]))
        late = [x for x in S.scan_pin_oracle(t) if "fetched after" in x["what"]]
        if late:
            problems.append(("scan", "executor-level scan: %s" % json.dumps(late[0])))
        if t.reopen_status != "ok":
            problems.append(("reopen", "the database does not reopen: %s" % t.reopen_status))
        elif {k: N.rows_of(v) for k, v in t.reopen.items()} != {k: N.rows_of(v) for k, v in t.final.items()}:
            problems.append(("reopen-state", "state after reopen %s differs from the final state %s" % (t.reopen, t.final)))
        if problems:
            orc["disagree"] += 1
            sh = shapes(t)
            ids = N.table_ids(t)
            lost = set()
            for tb in ids.values():
                lost |= {N.KNOWN_SIGS[k] for k in N.classify(t, tb)}
            if t.id.startswith("r"):
                rb[0] += 1
            for kind, what in problems:
                if kind == "serial":
                    cands = lost | ({SIG_DROP_BOUND, SIG_DROP_CP, SIG_DEL_DEL, SIG_DELETE_DV} & sh)
                elif kind == "panic":
                    cands = {x for x in sh if x in (SIG_DROP_CP, SIG_DROP_BOUND, SIG_DELETE_DV) or x.startswith("panic:")}
                elif kind == "scan":
                    cands = set()
                elif kind == "reopen":
                    cands = {SIG_CREATE, SIG_DROP_INS, SIG_DROP_CP_ORPHAN} & sh
                else:   # reopen-state
                    cands = lost | ({SIG_DELETE_DV} & sh)
                cands = {x for x in cands if not x.startswith("panic:")} | {x for x in cands if x.startswith("panic:")}
                for x in cands:
                    reasons[x] = reasons.get(x, 0) + 1
                if not cands:
                    ck.report("%s:unexplained" % kind, what, replay={"case": c, "trace": t.line})
                for x in cands:
                    ck.report(x, what, replay={"case": c, "trace": t.line})
        if m and not d:
            mvo["compared"] += 1
        if len({a for _, (a, _, _, _) in t.events() if a != 0}) >= 2:
            nontrivial.add(t.driver_line().split("(steps", 1)[1][:4000])
    for c, t, m in res:
        judge(c, t, m)
    exh = {}
    if not ck.quick():
        for k, tmpl in enumerate(EXHAUSTIVE_TEMPLATES):
            n_done, n_left, n_cut = S.exhaustive(ck, "c10", "drv_c10", tmpl, 8000, judge)
            exh["template%d" % k] = {"schedules": n_done, "unexplored_frontier": n_left}
            ck.log("exhaustive template %d: %d schedules, frontier left %d" % (k, n_done, n_left))
            if n_left:
                ck.notes.append("exhaustive template %d not completed within the cap" % k)
    # supporting evidence: result delivery on a multi-thread runtime
    mt = mt_probe(ck)
    report_mt(ck, mt)
    ck.coverage.update({
        "evaluations": len(traces),
        "distinct_nontrivial": len(nontrivial),
        "rule": "a schedule counts when at least two concurrent actors ran; distinct = distinct event sequences",
        "samples": cases[:3],
        "model_vs_impl": cnt, "impl_vs_oracle": orc,
        "model_vs_oracle": dict(mvo, note="the model replays the implementation's own trace; its final state, results and reopen outcome are compared in model_vs_impl"),
        "reason_tags": reasons,
        "restricted_fragment_failures": rb[0],
        "multi_thread_probe": mt,
        "distribution": S.summarize_distribution(traces),
        "exhaustive_templates": exh,
    })
    return ck.finish(level="proof", trusted_base=S.TRUSTED + ["multi-thread probe is supporting evidence only (not scheduler-controlled)"])


def replay(path):
    rp = json.load(open(path))
    case = rp.get("replay", {}).get("case")
    if not case:
        print(json.dumps(rp, indent=1)[:3000])
        return 0
    ck = vlib.Check("C10", "quick", 1)
    res, _ = S.run_cases(ck, "c10", "drv_c10", [case], tag="replay")
    for c, t, m in res:
        print("case:", c)
        if t:
            for i, st in enumerate(t.steps):
                print(" step %d pick=%s %s" % (i, st["pick"], [S.canon_impl_event(e[2], e[3]) for e in st["evs"]]))
            print(" final impl:", t.final, "reopen:", t.reopen_status, t.reopen)
            print(" model final:", m["final"] if m else None, "model reopen:", m["reopen"] if m else None)
            print(" serial order:", serial_explains(t), "shapes:", shapes(t))
            print(" model-vs-impl:", S.compare(t, m))
    import shutil
    shutil.rmtree(ck.work, ignore_errors=True)
    return 0
