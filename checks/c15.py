"""C15 — a failing statement reports an error, never a partial answer.

1. Lean: theorems of Thm/C15.lean over the L9 model (Model/Stream.lean) + driver drv_c15.
2. Harness c15 (hook H4 in Builder::spawn): generated statements x every operator of the
   executed plan x item index k in {0,1,2,last,beyond} x {error,panic}, each on a fresh database
   (in-memory and on-disk engine), current-thread runtime.
3. Comparisons
   model_vs_impl : outcome class, row count / equality with the fault-free rows, DML commit state
                   predicted by the Lean model (run on the executed plan's shape and the observed
                   fault-free item counts) vs the implementation;
   impl_vs_oracle: model-free — never Ok with rows != fault-free rows; a failed DML leaves the
                   tables unchanged; a successful DML leaves exactly the fault-free tables; a
                   statement in which an operator task panicked (injected or not) must not
                   return Ok with different rows;
   model_vs_oracle: the same oracle evaluated on the model's prediction.
   plus the real async_broadcast channel vs the Lean channel machine on generated schedules, and
   the Lean witnesses (refuted full statements) replayed on the implementation.
"""
import collections
import json
import os

import vlib

THEOREMS = [
    "prefix_monotone", "streamOp_streaming", "limitOp_streaming", "stream_chain_prefix",
    "err_propagates_partial", "err_propagates_unsound", "no_partial_ok",
    "panic_propagates_partial", "panic_reported_regression", "panic_propagates_unsound",
    "panic_witnesses_regression",
    "dml_atomic", "dml_atomic_at_root_unsound", "dml_all_or_nothing",
    "dml_atomic_on_silent_end", "dml_silent_end_regression",
    "merge_join_no_partial_ok", "merge_join_err_any_position",
    "finish_error_propagates", "copy_to_flush_error_propagates",
    "failed_dml_leaves_table", "dml_invisible_before_commit", "commit_publishes_exactly",
    "delivery_complete", "delivery_incomplete_witness",
]

CORPUS = os.path.join(vlib.VERIF, "corpus", "C15", "cases.txt")


def parse_model(ans):
    """'ok 3 same -' | 'err commit 4 same' | ... -> dict"""
    t = ans.split()
    d = {"raw": ans}
    if not t or t[0] == "bad-request":
        d["class"] = "bad"
        return d
    i = 0
    if t[0] == "err":
        d["class"] = "err"
        i = 1
    else:
        d["class"] = "ok"
        d["rows"] = None if t[1] == "?" else int(t[1])
        d["same"] = t[2] == "same"
        d["pfx"] = t[3] == "pfx"
        i = 4
    rest = t[i:]
    if rest[0] == "-":
        d["dml"] = None
    elif rest[0] == "none":
        d["dml"] = {"commit": False}
    else:
        d["dml"] = {"commit": True, "rows": None if rest[1] == "?" else int(rest[1]), "same": rest[2] == "same"}
    return d


def compare(rec, m, nofault):
    """model vs implementation for one fault run.  Returns a list of disagreement strings."""
    bad = []
    if m["class"] == "bad":
        return ["model rejected the request"]
    if rec["class"] != m["class"]:
        return ["class impl=%s model=%s" % (rec["class"], m["class"])]
    # on disk the order in which a scan visits row-sets (a hash map) differs from run to run, so
    # "the first k chunks" have no stable row counts: counts are compared on the memory engine only
    counts = rec["engine"] == "mem" or rec.get("det", False)
    if not counts and rec["kind"] == "panic" and rec["fired"]:
        return bad      # which chunks a truncated stream contained is not reproducible on disk: class only
    if m["class"] == "ok":
        if m["same"] and not rec["rows_eq"]:
            bad.append("model: same rows as fault-free; impl rows differ")
        if counts and m.get("pfx") and not rec["dml"] and not rec["rows_prefix"]:
            bad.append("model: rows are a prefix of the fault-free answer (stream_chain_prefix / prefix_monotone); impl rows are not")
        if counts and m["rows"] is not None and not rec["dml"] and rec["nrows"] != m["rows"]:
            bad.append("row count impl=%d model=%d" % (rec["nrows"], m["rows"]))
    d = m.get("dml")
    if d is not None:
        if not d["commit"] or (d["rows"] == 0 and counts):
            if not rec["tables_eq_pre"]:
                bad.append("model: nothing committed; impl tables changed")
        else:
            if d["same"] and not rec["tables_eq_post"]:
                bad.append("model: complete change committed; impl tables differ from fault-free result")
            if counts and d["rows"] is not None and rec["delta"] != d["rows"]:
                bad.append("model: %d rows committed; impl row delta %d" % (d["rows"], rec["delta"]))
            if counts and d["rows"] is not None and rec["class"] == "ok" and rec["count_value"] not in (None, "i32:%d" % d["rows"]):
                bad.append("model: count %d; impl returned %s" % (d["rows"], rec["count_value"]))
    return bad


def oracle(rec):
    """Model-free oracle on an implementation record.  Returns [(sig, what)]."""
    out = []
    where = "%s#%d" % (rec["op"], rec["k"])
    if rec["class"] == "panic":
        out.append(("fault:panic-escapes-run/%s" % rec["op"], "Database::run itself panicked (%s at %s): %s" % (rec["kind"], where, rec["err_text"][:120])))
        return out
    if rec["class"] == "ok" and not rec["rows_eq"]:
        if rec["kind"] == "panic":
            out.append(("fault:panic-reads-as-end-of-stream/%s" % rec["op"],
                        "operator task `%s` panics at its item %d; its consumer reads end-of-stream and `%s` returns Ok with %d row(s) instead of the fault-free answer" % (rec["op"], rec["k"], rec["stmt"], rec["nrows"])))
        else:
            out.append(("fault:error-partial-ok/%s" % rec["op"],
                        "error injected at %s but `%s` returns Ok with rows different from the fault-free rows" % (where, rec["stmt"])))
    if rec["dml"]:
        dml_op = rec["stmt"].split()[0].lower()
        if rec["class"] == "err" and not rec["tables_eq_pre"] and not rec["root"]:
            out.append(("fault:failed-dml-changes-table/%s" % dml_op, "`%s` failed (%s at %s) but the tables changed" % (rec["stmt"], rec["kind"], where)))
        if rec["class"] == "err" and rec.get("reopen_eq_pre") is False and not rec["root"]:
            out.append(("fault:failed-dml-changes-table-after-reopen/%s" % dml_op, "`%s` (%s engine) failed (%s at %s); after closing and reopening the database the tables differ from the pre-statement content" % (rec["stmt"], rec["engine"], rec["kind"], where)))
        if rec["class"] == "err" and rec.get("publishes") and not rec["root"]:
            out.append(("fault:rowset-published-before-commit/%s" % dml_op, "`%s` (%s engine) failed (%s at %s) but the transaction had already handed row-sets to the version manager (%s): a failed statement's rows are visible" % (rec["stmt"], rec["engine"], rec["kind"], where, rec["publishes"][:2])))
        if rec["class"] == "ok" and rec.get("reopen_eq_now") is False:
            out.append(("fault:committed-dml-differs-after-reopen/%s" % dml_op, "`%s` (%s engine) returned Ok; after closing and reopening the database the tables differ from what the session saw" % (rec["stmt"], rec["engine"])))
        if rec["class"] == "ok" and not rec["tables_eq_post"]:
            if rec["kind"] == "panic":
                out.append(("fault:silent-end-commits-prefix/%s" % dml_op,
                            "child task `%s` dies at item %d; `%s` commits what it had read (row delta %d) and reports success" % (rec["op"], rec["k"], rec["stmt"], rec["delta"])))
            else:
                out.append(("fault:ok-dml-partial/%s" % dml_op, "`%s` Ok but tables differ from the fault-free result (%s at %s)" % (rec["stmt"], rec["kind"], where)))
    return out


def model_oracle(rec, m):
    """The same oracle evaluated on the model's prediction (signatures only)."""
    out = set()
    if m["class"] == "ok" and not m["same"] and (m["rows"] is None or True):
        out.add("partial-ok")
    return out


def spawn_order():
    """True: in Builder::spawn the receiver is deactivated before the producer task is spawned
    (hypothesis of delivery_complete holds in the code); False: after; None: shape not recognised."""
    try:
        src = open(os.path.join(vlib.REPO, "src", "executor", "mod.rs")).read()
    except OSError:
        return None
    a = src.find("fn spawn(&mut self")
    if a < 0:
        return None
    body = src[a:]
    b = body.find("async_broadcast::broadcast(")
    d = body.find(".deactivate()")
    t = body.find("tokio::task::Builder")
    if b < 0 or d < 0 or t < 0 or d < b:
        return None
    return d < t


def run_cases(ck, cases_path, tag, thorough):
    out = os.path.join(ck.work, "out-%s.jsonl" % tag)
    rc, log = vlib.sh([vlib.harness_bin("c15"), "run", cases_path, out, os.path.join(ck.work, "db-" + tag)] + (["thorough"] if thorough else []), timeout=3000)
    if rc != 0 or not os.path.exists(out):
        ck.report("harness:c15-run", "harness run failed: %s" % log[-800:], replay={"log": log[-3000:]}, found_input=False)
        return []
    recs = [json.loads(l) for l in open(out) if l.strip()]
    reqs = [r["model_req"] for r in recs if r.get("model_req")]
    rc2, ans = vlib.sh([vlib.lean_exe("drv_c15")], stdin="\n".join(reqs) + "\n", timeout=3000)
    ans = ans.split("\n")
    i = 0
    for r in recs:
        if r.get("model_req"):
            r["model"] = parse_model(ans[i] if i < len(ans) else "bad-request")
            i += 1
    return recs


def run(ck):
    quick = ck.quick()
    bad = vlib.step_lean(ck, "RlModel.Thm.C15", THEOREMS, extra_targets=["drv_c15"])
    ok, log = vlib.step_cargo(ck, ["c15"])
    if not ok:
        ck.report("build:harness", "harness does not build against the repository", replay={"log": log[-2000:]}, found_input=False)
        return ck.finish(level="proof")

    # ---- correspondence: corpus first, then generated
    n_cases = 20 if quick else 300
    gen = os.path.join(ck.work, "cases.txt")
    vlib.sh([vlib.harness_bin("c15"), "gen", str(n_cases), gen])
    recs = []
    if os.path.exists(CORPUS):
        recs += [dict(r, src="corpus") for r in run_cases(ck, CORPUS, "corpus", True)]
    recs += [dict(r, src="gen") for r in run_cases(ck, gen, "gen", not quick)]

    cnt = collections.Counter()
    dist = {"ops": collections.Counter(), "kinds": collections.Counter(), "k": collections.Counter(),
            "engine": collections.Counter(), "content_compared": collections.Counter(), "model_answers": collections.Counter(), "stmt_kind": collections.Counter()}
    mvi = {"compared": 0, "disagree": 0}
    ivo = {"compared": 0, "disagree": 0, "known": 0}
    mvo = {"compared": 0, "disagree": 0}
    info = collections.Counter()
    nontrivial = set()
    samples = []
    first_disagree = None
    hit_pairs = set()
    multi_children = set()
    disagree_by_shape = {}
    nofault_by_case = {}
    for r in recs:
        cnt[r["type"]] += 1
        key = (r["src"], r["case"])
        if r["type"] == "nofault":
            nofault_by_case[key] = r
            dist["engine"][r["engine"]] += 1
            dist["stmt_kind"][r["stmt"].split()[0].lower()] += 1
            m = r["model"]
            mvi["compared"] += 1
            # fault-free: the model run on its own recorded outputs must say ok/same
            if m["class"] != "ok" or not m.get("same"):
                mvi["disagree"] += 1
                first_disagree = first_disagree or (r, ["fault-free model run is not ok/same: %s" % m["raw"]])
        elif r["type"] == "nofault-only":
            # statements failing by themselves: the only oracle is "a panicking operator task => not Ok"
            ivo["compared"] += 1
            if r["panics"] > 0 and r["class"] == "ok":
                ivo["disagree"] += 1
                op = (r.get("not_ended") or ["?"])[-1].split("\n")[0]
                st = ck.report("fault:real-panic-reads-as-end-of-stream/%s" % op,
                               "`%s` (%s engine): operator task `%s` panics by itself (no injection); Database::run returns Ok" % (r["stmt"], r["engine"], op),
                               replay={"engine": r["engine"], "setup": r["setup"], "stmt": r["stmt"]})
                if st == "known":
                    ivo["known"] += 1
            elif r.get("expect") == "err" and r["class"] != "err":
                # a real evaluation error (no injection) that the statement must report
                ivo["disagree"] += 1
                ck.report("fault:real-error-lost/%s" % r["stmt"].split()[0].lower(),
                          "`%s` (%s engine) must fail by itself (a real failing input: evaluation error, unwritable / unreadable file, I/O error of the helper thread) but Database::run returns %s%s" % (r["stmt"], r["engine"], r["class"], "" if r.get("tables_eq_pre", True) else " and the tables changed"),
                          replay={"engine": r["engine"], "setup": r["setup"], "stmt": r["stmt"]})
            elif r.get("expect") == "err" and not r.get("tables_eq_pre", True):
                ivo["disagree"] += 1
                ck.report("fault:failed-dml-changes-table/%s" % r["stmt"].split()[0].lower(), "`%s` failed by itself but the tables changed" % r["stmt"],
                          replay={"engine": r["engine"], "setup": r["setup"], "stmt": r["stmt"]})
            elif not r.get("names_ok", True):
                info["plan-shape-not-modelled"] += 1
        elif r["type"] == "helper-fault":
            # a failure (error or panic) inside the blocking CSV reader / writer thread of COPY:
            # the statement must return Err and commit nothing
            dist["ops"]["helper:" + r["helper"]] += 1
            ivo["compared"] += 1
            if r["fired"] and (r["class"] != "err" or not r["tables_eq_pre"]):
                ivo["disagree"] += 1
                ck.report("fault:helper-failure-lost/%s" % r["helper"],
                          "`%s` (%s engine): %s injected in the blocking %s thread at %s %d: Database::run returns %s%s" % (
                              r["stmt"], r["engine"], r["kind"], "reader" if r["helper"] == "copy_from" else "writer",
                              "record" if r["helper"] == "copy_from" else "chunk", r["k"], r["class"],
                              " (the failure is not reported)" if r["class"] != "err" else "") + ("" if r["tables_eq_pre"] else " and rows delivered before it stay in the table (also after reopen)"),
                          replay={"engine": r["engine"], "setup": r["setup"], "stmt": r["stmt"], "helper": r["helper"], "k": r["k"], "kind": r["kind"],
                                  "class": r["class"], "tables_eq_pre": r["tables_eq_pre"]})
            m = r.get("model")
            if m and r["fired"]:
                mvi["compared"] += 1
                if m["class"] != r["class"] or (m.get("dml") and not m["dml"]["commit"] and not r["tables_eq_pre"]):
                    mvi["disagree"] += 1
                    disagree_by_shape.setdefault("copy-helper", (dict(r, op=r["helper"]), ["helper-thread fault: model %s, impl %s / tables unchanged %s" % (m["raw"], r["class"], r["tables_eq_pre"])]))
        elif r["type"] == "skip":
            info["skipped:" + r["why"][:40]] += 1
        elif r["type"] == "fault":
            m = r["model"]
            dist["ops"][r["op"]] += 1
            dist["kinds"][r["kind"]] += 1
            dist["k"]["0-2" if r["k"] < 3 else ("15-18" if 15 <= r["k"] <= 18 else "other")] += 1
            dist["model_answers"][m["raw"]] += 1
            if m.get("same"):
                dist["content_compared"]["equal-to-fault-free-rows"] += 1
            elif m.get("pfx") and (r["engine"] == "mem" or r.get("det")) and not r["dml"]:
                dist["content_compared"]["strict-prefix-of-fault-free-rows"] += 1
            elif m["class"] == "ok":
                dist["content_compared"]["class-and-count-only"] += 1
            # coverage: (parent operator kind [+ join type], which child, chunk index class) hit by a fired fault
            nfr = nofault_by_case.get(key)
            if nfr and r["fired"] and r["node"] < len(nfr.get("parents", [])):
                par, ci = nfr["parents"][r["node"]]
                n_items = len(nfr["outs"][r["node"]])
                kc = str(r["k"]) if r["k"] < 3 else ("last" if r["k"] == n_items - 1 else None)
                if r["k"] == n_items - 1:
                    hit_pairs.add((par, ci, "last", r["kind"]))
                if kc is not None:
                    hit_pairs.add((par, ci, kc, r["kind"]))
                if n_items >= 3:
                    multi_children.add((par, ci))
            if not r["pre_same"]:
                info["nondeterministic-setup"] += 1
                continue
            # model vs impl
            mvi["compared"] += 1
            d = compare(r, m, nofault_by_case.get(key))
            if d:
                mvi["disagree"] += 1
                first_disagree = first_disagree or (r, d)
                shape = "limit" if " limit " in r["stmt"] else r["stmt"].split()[0].lower()
                disagree_by_shape.setdefault(shape, (r, d))
            if r["fired"] and (r["class"] != "ok" or not r["rows_eq"]):
                nontrivial.add((r["stmt"], r["op"], r["k"], r["kind"], r["engine"]))
            if len(samples) < 6 and r["fired"]:
                samples.append({k: r[k] for k in ("engine", "stmt", "op", "k", "kind", "class", "nrows", "rows_eq", "tables_eq_pre", "tables_eq_post")} | {"model": m["raw"]})
            # oracle
            ivo["compared"] += 1
            viol = oracle(r)
            if viol:
                ivo["disagree"] += 1
            for sig, what in viol:
                st = ck.report(sig, what, replay={"engine": r["engine"], "setup": r["setup"], "stmt": r["stmt"],
                                                  "fault": {"node": r["node"], "op": r["op"], "k": r["k"], "kind": r["kind"]},
                                                  "impl": {k: r[k] for k in ("class", "nrows", "rows_eq", "tables_eq_pre", "tables_eq_post", "delta", "err_text")},
                                                  "model": m["raw"]})
                if st == "known":
                    ivo["known"] += 1
            # model vs oracle: the model predicts a violation iff the implementation shows one of
            # the "partial ok" kind (only decidable when the model knows the rows)
            mvo["compared"] += 1
            model_partial = m["class"] == "ok" and not m["same"] and m.get("rows") is not None
            impl_partial = r["class"] == "ok" and not r["rows_eq"]
            if model_partial and not impl_partial:
                # model says the token list differs; rows may still coincide (an empty chunk lost)
                info["model-diff-but-rows-equal"] += 1
            if impl_partial and m["class"] == "ok" and m["same"]:
                mvo["disagree"] += 1
            # informational strict reading of the property text
            if r["fired"] and r["class"] == "ok" and r["rows_eq"]:
                info["fired-%s-unreported-but-answer-complete" % r["kind"]] += 1
            if r["dml"] and r["root"] and r["class"] == "err" and not r["tables_eq_pre"]:
                info["post-commit-injection-at-dml-task(hook artefact)"] += 1

    # ---- coverage of (operator kind x child x chunk index x fault kind) with multi-chunk inputs
    REQUIRED = ["mergejoin:inner", "mergejoin:left_outer", "hashjoin:inner", "hashjoin:left_outer", "hashjoin:right_outer",
                "hashjoin:full_outer", "hashjoin:semi", "hashjoin:anti", "join:inner", "join:left_outer",
                "sortagg", "hashagg", "agg", "topn", "order", "window", "filter", "proj", "limit", "insert", "delete",
                "analyze", "copy_to"]
    arity = lambda lab: 2 if lab.split(":")[0] in ("join", "hashjoin", "mergejoin") else 1
    gaps = []
    for lab in REQUIRED:
        for ci in range(arity(lab)):
            if (lab, ci) not in multi_children:
                gaps.append("%s child %d: no executed plan feeds it >= 3 chunks" % (lab, ci))
                continue
            for kc in ("0", "1", "2", "last"):
                for kind in ("error", "panic"):
                    if (lab, ci, kc, kind) not in hit_pairs:
                        gaps.append("%s child %d chunk %s %s: never hit" % (lab, ci, kc, kind))
    ck.coverage["fault_pairs_hit"] = sorted("%s/child%d/chunk-%s/%s" % p for p in hit_pairs)
    ck.coverage["fault_pair_gaps"] = gaps
    ck.coverage["dev_full_usable"] = os.path.exists("/dev/full") and os.access("/dev/full", os.W_OK)
    if not ck.coverage["dev_full_usable"]:
        ck.notes.append("/dev/full is not openable for writing here: the COPY TO real-I/O-fault cases fail at File::create instead of at write/flush")
    if gaps:
        ck.report("coverage:fault-matrix-gap", "operator kind x child x chunk index pairs that are reachable but were never hit by a fired fault: %s" % "; ".join(gaps[:6]),
                  replay={"gaps": gaps}, found_input=False)

    # ---- the write transaction (roll-over of row-sets) vs the model, disk engines, INSERT statements
    txn_recs = [r for r in recs if r["type"] == "fault" and r["dml"] and r["engine"].startswith("disk")
                and r["stmt"].lower().startswith("insert") and not r["root"] and r["pre_same"]]
    if txn_recs:
        reqs = ["(txn %d %s)" % (1 if r["engine"] == "diskt" else 256 * (1 << 20), " ".join(str(c) for c in r["consumed"])) for r in txn_recs]
        rc3, ans3 = vlib.sh([vlib.lean_exe("drv_c15")], stdin="\n".join(reqs) + "\n", timeout=600)
        for r, a in zip(txn_recs, ans3.split("\n")):
            t = a.split()
            if len(t) < 8:
                continue
            started, visible = int(t[1]), int(t[5])
            mvi["compared"] += 1
            dist["content_compared"]["write-txn:%s" % r["engine"]] += 1
            exp_pub = 1 if (r["class"] == "ok" and started > 0) else 0
            d = []
            if r["mkdirs"] != started:
                d.append("row-sets started: impl %d (persist.rowset.mkdir), model %d for chunks %s" % (r["mkdirs"], started, r["consumed"]))
            if len(r["publishes"]) != exp_pub or visible != 0:
                d.append("row-set publications (vm.commit.begin add:…): impl %s, model %d (only at commit)" % (r["publishes"], exp_pub))
            if d:
                mvi["disagree"] += 1
                disagree_by_shape.setdefault("write-txn", (r, d))

    if first_disagree and first_disagree[0]["type"] != "fault":
        r, d = first_disagree
        ck.report("corr:stream-model/fault-free", "L9 model and implementation disagree: %s on `%s`" % ("; ".join(d), r["stmt"]),
                  replay={"engine": r["engine"], "setup": r["setup"], "stmt": r["stmt"]}, found_input=False)
    for shape, (r, d) in sorted(disagree_by_shape.items()):
        # model != impl: is the *property* at stake on this input?  (the oracle ran on it and on all
        # others; a bare disagreement is reported with the pair, one report per statement shape)
        ck.report("corr:stream-model/" + shape, "L9 model and implementation disagree: %s on `%s` fault %s#%s %s" % ("; ".join(d), r["stmt"], r.get("op"), r.get("k"), r.get("kind")),
                  replay={"engine": r["engine"], "setup": r["setup"], "stmt": r["stmt"], "record": {k: v for k, v in r.items() if k not in ("setup",)}},
                  found_input=(bool(oracle(r)) if r.get("type") == "fault" else (r.get("class") != "err" or not r.get("tables_eq_pre", True))))

    # ---- the channel machine vs the real async_broadcast crate
    chreq = os.path.join(ck.work, "chan.txt")
    vlib.sh([vlib.harness_bin("c15"), "changen", str(300 if quick else 5000), chreq])
    (rc1, impl), (rc2, model) = vlib.run_pair(ck, [vlib.harness_bin("c15"), "chanrun"], [vlib.lean_exe("drv_c15")], chreq)
    chl = [l for l in open(chreq).read().split("\n") if l]
    chan = {"compared": 0, "disagree": 0}
    for q, i, m in zip(chl, impl, model):
        chan["compared"] += 1
        # impl prints: sent .. got .. active n ; model: sent .. got .. queue n active n
        mi = " ".join(t for t in m.split(" queue ")[0].split()) + " active " + m.split(" active ")[-1]
        if " ".join(i.split()) != " ".join(mi.split()):
            chan["disagree"] += 1
            if chan["disagree"] == 1:
                ck.report("corr:chan-model", "channel model and async_broadcast disagree on %s: impl=%s model=%s" % (q, i, m), replay={"request": q, "impl": i, "model": m}, found_input=False)
    # the delivery witness (first two schedules): deactivate-before-send delivers everything,
    # send-before-deactivate loses item 1.  Whether Builder::spawn can produce the second order is
    # read from the source: is the receiver deactivated before the producer task is spawned?
    order = spawn_order()
    ck.coverage["spawn_deactivates_before_spawning_producer"] = order
    if order is None:
        ck.report("deliver:spawn-shape-not-recognised", "Builder::spawn no longer has the shape broadcast(..) / deactivate() / Builder::spawn(..): the hypothesis DeactivatedBeforeFirstSend of delivery_complete cannot be read off the source",
                  replay={"file": "src/executor/mod.rs"}, found_input=False)
    if len(impl) >= 2 and order is not True:
        if "got 1 2" in impl[0] and "got 2 " in impl[1] and "got 1 2" not in impl[1]:
            ck.report("deliver:send-before-deactivate-drops-items",
                      "async_broadcast as used by Builder::spawn: an item sent before `rx.deactivate()` is dropped (multi-thread runtime race; not reachable on the current-thread runtime)",
                      replay={"schedule": chl[1], "impl": impl[1]})
        else:
            ck.report("deliver:witness-not-reproduced", "delivery witness did not behave as the theorem says: %s / %s" % (impl[0], impl[1]), replay={"impl": impl[:2]}, found_input=False)

    for name, st in bad.items():
        ck.report("thm:" + name, "theorem %s no longer checks: %s" % (name, st), replay={"theorem": name, "status": st}, found_input=False)

    mvi["chan_compared"] = chan["compared"]
    mvi["chan_disagree"] = chan["disagree"]
    ck.coverage.update({
        "evaluations": cnt["fault"] + cnt["nofault"] + cnt["nofault-only"] + chan["compared"],
        "distinct_nontrivial": len(nontrivial),
        "rule": "distinct (statement, operator, item index, fault kind, engine) whose fault fired and changed the outcome (Err, or Ok with different rows)",
        "samples": samples,
        "model_vs_impl": mvi, "impl_vs_oracle": ivo, "model_vs_oracle": mvo,
        "distribution": {k: dict(v) for k, v in dist.items()} | {"record_types": dict(cnt), "info": dict(info)},
    })
    return ck.finish(level="proof", trusted_base=[
        "Lean 4 kernel", "rlverif c15 harness + hook H4 (exec.chunk in Builder::spawn)",
        "tokio current-thread runtime scheduling", "plan shape reconstructed from spawn order + optimizer output",
        "operator semantics abstracted to item counts (content of chunks computed on truncated input is 'unknown' in the model)"])


def replay(path):
    d = json.load(open(path))
    print(json.dumps(d, indent=1))
    r = d.get("replay") or {}
    if "stmt" in r:
        w = os.path.join(vlib.WORK, "C15-replay-%d" % os.getpid())
        os.makedirs(w, exist_ok=True)
        cases = os.path.join(w, "case.txt")
        open(cases, "w").write("%s\t%s\t%s\n" % (r["engine"], r["stmt"], ";".join(r["setup"])))
        out = os.path.join(w, "out.jsonl")
        vlib.sh([vlib.harness_bin("c15"), "run", cases, out, os.path.join(w, "db"), "thorough"])
        f = r.get("fault")
        for l in open(out):
            x = json.loads(l)
            if x["type"] != "fault" or (f and (x["node"], x["k"], x["kind"]) != (f["node"], f["k"], f["kind"])):
                if x["type"] == "fault":
                    continue
            x.pop("setup", None)
            print(json.dumps(x))
        import shutil
        shutil.rmtree(w, ignore_errors=True)
    return 0
