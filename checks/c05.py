"""C05 — The in-memory and on-disk engines are observationally equivalent.

1. Lean: theorems of RlModel.Thm.C05 (+ driver drv_c05): both engine models refine one
   specification, hence agree with each other; the forced hypothesis and its witness.
2. Harness c05: identical statement sequences on Database::new_in_memory() and on the disk engine
   (layout options; forced compaction / vacuum / reopen only on the disk side).
3. Per step: statement outcome class + affected-row count on both engines, SELECT * of every table
   on both engines, and generated queries (projection+filter on non-key columns, GROUP BY, aggregates,
   ORDER BY a non-key column) on both engines; model (disk and memory) vs implementation.
   Queries whose plan depends on the primary-key order / key-range switches are a separate tagged
   stream (those switches are C12 / C13's subject).
"""
import glob
import json
import os
import re

import vlib
from checks import storegen as sg

PROP = "C05"
THEOREMS = ["mem_insert_scan", "mem_delete_scan", "mem_refines_spec", "disk_refines_spec",
            "engines_equiv", "not_null_storage_regression"]
WEIGHTS = {"insert": 34, "delete": 24, "compact": 10, "vacuum": 3, "reopen": 6, "create": 12, "drop": 8,
           "view": 2, "index": 2}
NAMES = ["t0", "t1", "t2"]


class Gen5(sg.Gen):
    """values may put NULL into NOT NULL columns (both engines must reject the statement, since 652f6b6)"""
    null_in_nn = 0.04

    def gen_val(self, ty, nn, wide=False):
        if nn and self.r.random() < self.null_in_nn:
            self.count("value:null-in-nonnull")
            return None
        return super().gen_val(ty, nn, wide)


def inject_insert_select(g, h):
    """Adds `INSERT INTO t SELECT <exprs> FROM src [WHERE p]` statements (src and t of the same
    column types; expressions: a column, a same-typed other column, a constant, bigint + 1).  The
    rows are computed from the plain multiset state, so the statement is an ordinary insert step for
    the models and the oracle; on the disk engine the source scan delivers one chunk per row-set."""
    orc = sg.Oracle(h["names"])
    out = []
    r = g.r
    for s in h["steps"]:
        out.append(s)
        orc.apply(s)
        if s["k"] != "insert" or s["table"] not in orc.tables or r.random() > 0.35:
            continue
        src = s["table"]
        d, rows = orc.tables[src]
        if len(rows) > 300:
            continue
        sig = [c[1] for c in d.cols]
        targets = [t for t, (dt, _) in sorted(orc.tables.items()) if [c[1] for c in dt.cols] == sig]
        t = r.choice(targets)
        dt = orc.tables[t][0]
        exprs, fns = [], []
        for j, c in enumerate(d.cols):
            same = [i for i, c2 in enumerate(d.cols) if c2[1] == c[1]]
            x = r.random()
            if x < 0.5:
                i = j
                exprs.append(d.cols[i][0]); fns.append(lambda row, i=i: row[i])
            elif x < 0.7:
                i = r.choice(same)
                exprs.append(d.cols[i][0]); fns.append(lambda row, i=i: row[i])
            elif x < 0.85 and c[1] == "BIGINT":
                exprs.append("%s + 1" % c[0]); fns.append(lambda row, j=j: None if row[j] is None else row[j] + 1)
            else:
                v = g.gen_val(c[1], True)
                if v is None:
                    v = 0 if c[1] != "STRING" else ""
                exprs.append(sg.sql_lit(v, c[1])); fns.append(lambda row, v=v: v)
        p = g.gen_pred(d) if r.random() < 0.6 else ("true",)
        ps = sg.pred_sql(p, d)
        newrows = [tuple(f(row) for f in fns) for row in rows if sg.pred_eval(p, row) is True]
        sql = "insert into %s select %s from %s" % (t, ", ".join(exprs), src) + ("" if ps is None else " where " + ps)
        st = {"k": "insert", "table": t, "rows": newrows, "def": dt, "sql": sql, "insert_select": True}
        g.count("step:insert-select")
        out.append(st)
        orc.apply(st)
    return sg.make_hist(h["id"], h["opts"], h["names"], out)


def attach_queries(h, qs):
    """puts the (queries ...) clause after (names ...) in the request line"""
    h["queries"] = qs
    qsexp = "(queries %s)" % " ".join("(%d %s)" % (q[0], sg.hexs(q[1])) for q in qs)
    head, sep, tail = h["line"].partition(") (create ")
    h["line"] = head + ") " + qsexp + " (create " + tail
    return h


def load_corpus():
    """corpus/C05/*.json: a history (storegen json) plus "queries": [[step, sql, kind], ...]"""
    out = []
    for p in sorted(glob.glob(os.path.join(vlib.VERIF, "corpus", PROP, "*.json"))):
        j = json.load(open(p))
        h = sg.hist_from_json(j, hid=800000 + len(out))
        out.append(attach_queries(h, [(q[0], q[1], q[2], None) for q in j.get("queries", [])]))
    return out


def gen_queries(g, h):
    """[(step, sql, kind, ncmp)] against the tables alive after each step"""
    orc = sg.Oracle(h["names"])
    out = []
    r = g.r
    for k, s in enumerate(h["steps"]):
        orc.apply(s)
        if s["k"] not in ("insert", "delete", "compact", "reopen") or not orc.tables:
            continue
        for _ in range(r.choice([1, 2, 2, 3])):
            t = r.choice(sorted(orc.tables))
            d = orc.tables[t][0]
            nonkey = [i for i, c in enumerate(d.cols) if not c[3]]
            kind = r.choice(["bag", "bag", "grp", "agg", "ord", "join", "join", "pkord", "pkrange", "pkrangeord", "win", "pkgrp", "pkgrp"])
            cols = [c[0] for c in d.cols]
            if kind == "bag":
                p = g.gen_pred(d)
                ps = sg.pred_sql(p, d)
                sel = r.sample(cols, r.randint(1, len(cols)))
                sql = "select %s from %s" % (", ".join(sel), t) + ("" if ps is None else " where " + ps)
            elif kind == "grp" and nonkey:
                b = d.cols[r.choice(nonkey)][0]
                sql = "select %s, count(*) from %s group by %s" % (b, t, b)
            elif kind == "agg" and nonkey:
                b = d.cols[r.choice(nonkey)][0]
                sql = "select count(*), count(%s), min(%s), max(%s) from %s" % (b, b, b, t)
            elif kind == "ord" and nonkey:
                b = d.cols[r.choice(nonkey)][0]
                rest = [c for c in cols if c != b]
                sql = "select %s from %s order by %s%s" % (", ".join([b] + rest), t, b, r.choice(["", " desc"]))
            elif kind == "join":
                # multi-table query on unkeyed tables (no primary-key switches involved)
                unkeyed = [n for n in sorted(orc.tables) if not orc.tables[n][0].cols[0][3]]
                cands = [(x, i, y, j) for x in unkeyed for y in unkeyed
                         for i, c in enumerate(orc.tables[x][0].cols) for j, c2 in enumerate(orc.tables[y][0].cols)
                         if c[1] == c2[1] == "INT"]
                if not cands:
                    continue
                x, i, y, j = r.choice(cands)
                dx, dy = orc.tables[x][0], orc.tables[y][0]
                if len(orc.tables[x][1]) * len(orc.tables[y][1]) > 40000:
                    continue
                form = r.choice(["inner", "count", "left"])
                if form == "inner":
                    sql = "select p.%s, q.%s from %s p, %s q where p.%s = q.%s" % (dx.cols[0][0], dy.cols[-1][0], x, y, dx.cols[i][0], dy.cols[j][0])
                elif form == "count":
                    sql = "select count(*) from %s p join %s q on p.%s = q.%s" % (x, y, dx.cols[i][0], dy.cols[j][0])
                else:
                    sql = "select p.%s, q.%s from %s p left join %s q on p.%s = q.%s" % (dx.cols[i][0], dy.cols[j][0], x, y, dx.cols[i][0], dy.cols[j][0])
            elif kind == "pkord" and d.cols[0][3]:
                sql = "select %s from %s order by %s" % (", ".join(cols), t, cols[0])
            elif kind == "pkrange" and d.cols[0][3]:
                sql = "select %s from %s where %s %s %d" % (", ".join(cols), t, cols[0], r.choice(["<", ">=", "="]), r.choice(sg.INT_DOM))
            elif kind == "pkrangeord" and d.cols[0][3] and d.cols[0][1] == "INT":
                # key range AND key order in ONE statement: the planner pushes the range into the scan
                # and drops the ORDER BY, so the scan must be both range-filtered and merging (keys may
                # repeat here: compared on the key column's sequence, no LIMIT)
                sql = "select %s from %s where %s %s %d order by %s" % (
                    ", ".join(cols), t, cols[0], r.choice(["<", "<=", ">=", ">"]), r.choice(sg.INT_DOM), cols[0])
            elif kind == "pkgrp" and d.cols[0][3]:
                sql = pkgrp_query(r, t, d)
                if sql.endswith("#seq"):
                    sql, kind = sql[:-4], "pkgrpseq"
            elif kind == "win":
                # a window function over the scan (the memory scan yields an EMPTY chunk for an INSERT whose
                # rows are all deleted: WindowExecutor panicked on it, repaired in /repo).  Only the window
                # column is selected: row numbers are 1..n whatever the order of equal keys
                b = r.choice(cols)
                sql = "select row_number() over (order by %s) from %s" % (b, t)
            else:
                continue
            g.count("query:" + kind)
            out.append((k, sql, kind, (x, i, y, j) if kind == "join" else None))
    return out


def gen_range_hist(g, hid):
    """A keyed table on which C13's hypotheses HOLD (INT key in column 0, scanned first, unique keys,
    first keys recorded) laid out over several batches / blocks / row-sets, queried with key ranges
    and key order: here the disk engine must agree with the memory engine."""
    r = g.r
    d = sg.TableDef("t0", [("a", "INT", True, True), ("b", "INT", False, False)] +
                    ([("c", "STRING", False, False)] if r.random() < 0.4 else []))
    opts = (r.choice([256 << 20, 1 << 20, 16384, 2048, 512]), r.choice([32, 64, 128, 1024, 16384]), r.choice([0, 1]), 1)
    # a second keyed table for primary-key joins under a key range
    two = r.random() < 0.5
    d1 = sg.TableDef("t1", [("a", "INT", True, True), ("d", "INT", False, False)])
    g.count("range-region:block=%d" % opts[1])
    steps = [{"k": "create", "def": d, "sql": d.sql()}]
    queries = []
    used = set()
    pool = list(range(-3000, 60000))

    used1 = set()

    def ins(n, dd=None):
        dd = dd or d
        seen = used if dd is d else used1
        ks = []
        while len(ks) < n:
            # the second table draws half of its keys from the first one's (so that the join is not empty)
            k = r.choice(sorted(used)) if (dd is not d and used and r.random() < 0.5) else r.choice(pool)
            if k not in seen:
                seen.add(k)
                ks.append(k)
        rows = [tuple([k] + [g.gen_val(c[1], c[2]) for c in dd.cols[1:]]) for k in ks]
        sql = "insert into %s values %s" % (dd.name, ", ".join(
            "(" + ", ".join(sg.sql_lit(v, c[1]) for v, c in zip(row, dd.cols)) + ")" for row in rows))
        return {"k": "insert", "table": dd.name, "rows": rows, "def": dd, "sql": sql}

    def ask():
        k = len(steps) - 1
        keys = sorted(used)
        for _ in range(r.randint(3, 6)):
            c = r.choice([r.choice(keys), r.choice(keys) + 1, keys[0] - 1, keys[-1] + 1, keys[len(keys) // 2],
                          keys[(3 * len(keys)) // 4], keys[-1], keys[0]])
            op = r.choice(["<", "<=", "=", ">", ">=", ">", ">="])
            cols = [x[0] for x in d.cols]
            queries.append((k, "select %s from t0 where a %s %d" % (", ".join(cols), op, c), "pkrange", None))
            g.count("query:pkrange-region")
        if r.random() < 0.5:
            queries.append((k, "select a, b from t0 order by a", "pkord", None))
        if r.random() < 0.3:
            lo, hi = sorted([r.choice(keys), r.choice(keys)])
            queries.append((k, "select a from t0 where a >= %d and a < %d" % (lo, hi), "pkrange", None))
        # key range AND key order in one statement (keys are unique here: the answer is ONE sequence,
        # LIMIT included), over row-sets whose key ranges interleave (every INSERT draws from the whole pool)
        for _ in range(r.randint(1, 3)):
            c = r.choice([r.choice(keys), r.choice(keys) + 1, keys[len(keys) // 2], keys[0], keys[-1]])
            form = r.random()
            if form < 0.5:
                q = "select a, b from t0 where a %s %d order by a" % (r.choice([">=", ">", "<", "<="]), c)
            elif form < 0.8:
                q = "select a, b from t0 where a %s %d order by a limit %d" % (r.choice([">=", ">", "<", "<="]), c, r.choice([1, 3, 10, 50]))
            else:
                lo, hi = sorted([r.choice(keys), r.choice(keys)])
                q = "select b from t0 where a > %d and a < %d order by a" % (lo, hi) if r.random() < 0.5 else \
                    "select a from t0 where a >= %d and a <= %d order by a" % (lo, hi)
            queries.append((k, q, "pkrangeseq", None))
            g.count("query:pkrange-orderby")
        if two and used1:
            for _ in range(r.randint(1, 2)):
                c = r.choice([r.choice(keys), keys[len(keys) // 2], keys[0] - 1])
                op = r.choice([">=", ">", "<", "<="])
                q = r.choice([
                    "select p.a, p.b, q.d from t0 p join t1 q on p.a = q.a where p.a %s %d" % (op, c),
                    "select count(*) from t0 p join t1 q on p.a = q.a where p.a %s %d" % (op, c),
                    "select p.a, q.d from t0 p join t1 q on p.a = q.a where q.a %s %d order by p.a" % (op, c)])
                queries.append((k, q, "pkjoinseq" if " order by " in q else "pkjoin", None))
                g.count("query:pkjoin-range")
            # outer joins between the two keyed multi-insert tables, ORDER BY a key column of the PADDED side
            # (the NULL-padded rows must come where NULLs sort, on both engines: analyze_order / MergeJoin
            # defect repaired by 15fe3f3); the ORDER BY column is selected first and compared as a sequence
            for _ in range(r.randint(1, 2)):
                jt, oc = r.choice([("left", "q.a"), ("right", "p.a"), ("full", "p.a"), ("full", "q.a"), ("left", "q.a")])
                other = "p.a" if oc == "q.a" else "q.a"
                q = "select %s, %s from t0 p %s join t1 q on p.a = q.a order by %s" % (oc, other, jt, oc)
                queries.append((k, q, "ordcol0", None))
                g.count("query:outer-join-orderby-padded-side")
        # window functions over the scan (keys are unique: the answer is one bag)
        if r.random() < 0.6:
            # only answers that do not depend on the order in which the scan delivers the rows: the window's
            # ORDER BY / PARTITION BY are bound but IGNORED by the planner and WindowExecutor (a running
            # aggregate in scan order; recorded finding engines:window-ignores-order-by, witness in corpus/C05)
            # (and the i-th window function is fed the i-th column of the child's row instead of its own
            # argument - `agg_list_append` zips functions with row values -, so `count(a)` / `sum(b)` read
            # some other column: same finding text; only row_number() is independent of both)
            q = r.choice(["select row_number() over (order by a) from t0", "select row_number() over (order by b) from t0",
                          "select row_number() over (partition by b order by a) from t0"])
            queries.append((k, q, "win", None))
            g.count("query:win")

    steps.append(ins(r.choice([40, 300, 700, 1100, 2300])))
    # mostly: more INSERTs before the first questions, so that the table starts with >= 2 row-sets of
    # interleaving key ranges
    for _ in range(r.choice([0, 1, 1, 2, 3])):
        steps.append(ins(r.choice([4, 8, 40, 300])))
    if two:
        steps.append({"k": "create", "def": d1, "sql": d1.sql()})
        for _ in range(r.choice([1, 2, 3])):
            steps.append(ins(r.choice([3, 8, 40, 200]), d1))
    g.count("range-region:initial-inserts=%d" % len([x for x in steps if x["k"] == "insert" and x["table"] == "t0"]))
    ask()
    for _ in range(r.randint(1, 4)):
        x = r.random()
        if x < 0.35:
            steps.append(ins(r.choice([5, 60, 300, 1100]), d1 if (two and r.random() < 0.3) else d))
        elif x < 0.45 and used:
            # DELETE of exactly the rows of ONE earlier INSERT (a dense key interval above the pool): on the
            # memory engine that INSERT's chunk then has no visible row and the scan yields an empty chunk
            lo = 100000 + 1000 * len(steps)
            n_ = r.choice([1, 5, 60])
            rows = [tuple([lo + j] + [g.gen_val(c[1], c[2]) for c in d.cols[1:]]) for j in range(n_)]
            used.update(x_[0] for x_ in rows)
            steps.append({"k": "insert", "table": "t0", "rows": rows, "def": d, "sql": "insert into t0 values %s" % ", ".join(
                "(" + ", ".join(sg.sql_lit(v, c[1]) for v, c in zip(row, d.cols)) + ")" for row in rows)})
            p = ("and", ("cmp", 0, "ge", lo), ("cmp", 0, "le", lo + n_ - 1))
            steps.append({"k": "delete", "table": "t0", "pred": p, "def": d,
                          "sql": "delete from t0 where a >= %d and a <= %d" % (lo, lo + n_ - 1)})
            used.difference_update(x_[0] for x_ in rows)
            g.count("step:delete-whole-insert")
        elif x < 0.6:
            p = g.gen_pred(d, 1)
            ps = sg.pred_sql(p, d)
            steps.append({"k": "delete", "table": "t0", "pred": p, "def": d,
                          "sql": "delete from t0" + ("" if ps is None else " where " + ps)})
        elif x < 0.8:
            steps.append({"k": "compact"})
        else:
            steps.append({"k": "reopen"})
        ask()
    h = sg.make_hist(hid, opts, NAMES, steps)
    h["queries"] = queries
    return h


def pkgrp_query(r, t, d, allow_sum=False):
    """GROUP BY / DISTINCT on the primary-key column (key values are NOT unique: uniqueness is not enforced).
    Only the disk engine plans these as a sort aggregation directly over the key-ordered scan; equal keys
    arrive in different scan batches (row-sets, blocks).  `#seq` marks answers that are one sequence."""
    a = d.cols[0][0]
    nums = [c[0] for c in d.cols[1:] if c[1] in ("INT", "BIGINT")]
    x = r.choice(nums) if nums else None
    forms = ["select %s, count(*) from %s group by %s" % (a, t, a),
             "select distinct %s from %s" % (a, t),
             "select %s, count(*) from %s group by %s order by %s limit %d#seq" % (a, t, a, a, r.choice([1, 2, 3, 10])),
             "select %s, count(*) from %s group by %s order by %s#seq" % (a, t, a, a),
             "select count(*) from %s p join %s q on p.%s = q.%s" % (t, t, a, a)]
    if x:
        forms += ["select %s, count(*), min(%s), max(%s) from %s group by %s" % (a, x, x, t, a),
                  "select %s, count(%s) from %s group by %s" % (a, x, t, a),
                  "select %s, min(%s) from %s group by %s order by %s#seq" % (a, x, t, a, a)]
        if allow_sum:
            # SUM only where the values are small: with values near the INT limits whether the 32-bit
            # accumulator overflows (an error since 5b4435f) depends on the order of accumulation, which
            # legitimately differs between the engines (thorough tier: memory err, disk ok) - false alarm
            forms += ["select %s, sum(%s), count(%s) from %s group by %s" % (a, x, x, t, a)]
    return r.choice(forms)


def gen_dupkey_hist(g, hid):
    """Keyed tables (column-level PRIMARY KEY) with DUPLICATE key values spread over several INSERTs, row-sets
    (small row-set sizes split an INSERT) and tiny blocks (64-byte blocks: 12-16 INT rows), so that rows with
    equal keys reach an operator in different scan batches; GROUP BY pk / DISTINCT pk / joins on pk."""
    r = g.r
    d = sg.TableDef("t0", [("a", "INT", True, True), ("b", "INT", False, False)])
    d1 = sg.TableDef("t1", [("a", "INT", True, True), ("d", "INT", False, False)])
    two = r.random() < 0.4
    opts = (r.choice([512, 2048, 4096, 1 << 20]), r.choice([32, 64, 64, 128]), r.choice([0, 1]), r.choice([1, 1, 0]))
    g.count("dupkey:block=%d" % opts[1])
    dom = r.choice([4, 8, 20])
    steps = [{"k": "create", "def": d, "sql": d.sql()}]
    if two:
        steps.append({"k": "create", "def": d1, "sql": d1.sql()})
    queries = []

    def ins(dd, n):
        # runs of equal keys (a key repeated 1-30 times) and single keys, all from a small domain
        rows = []
        while len(rows) < n:
            k = r.randrange(dom)
            for _ in range(r.choice([1, 1, 2, 3, 14, 30])):
                rows.append((k, g.gen_val("INT", False)))
        rows = rows[:n]
        return {"k": "insert", "table": dd.name, "rows": rows, "def": dd, "sql": "insert into %s values %s" % (dd.name, ", ".join(
            "(%s, %s)" % (sg.sql_lit(x, "INT"), sg.sql_lit(y, "INT")) for x, y in rows))}

    def ask():
        k = len(steps) - 1
        for _ in range(r.randint(2, 4)):
            q = pkgrp_query(r, "t0", d, allow_sum=True)
            kind = "pkgrp"
            if q.endswith("#seq"):
                q, kind = q[:-4], "pkgrpseq"
            queries.append((k, q, kind, None))
            g.count("query:dupkey-group-by-key")
        if two:
            queries.append((k, r.choice(["select count(*) from t0 p join t1 q on p.a = q.a",
                                         "select p.a, count(*) from t0 p join t1 q on p.a = q.a group by p.a",
                                         "select p.a, q.d from t0 p join t1 q on p.a = q.a where p.a >= %d" % r.randrange(dom)]), "pkgrp", None))

    for _ in range(r.choice([2, 3, 4, 5])):
        steps.append(ins(d, r.choice([5, 13, 25, 40, 120])))
    if two:
        for _ in range(r.choice([1, 2, 3])):
            steps.append(ins(d1, r.choice([4, 13, 30])))
    ask()
    for _ in range(r.randint(1, 4)):
        x = r.random()
        if x < 0.4:
            steps.append(ins(d, r.choice([5, 13, 40])))
        elif x < 0.6:
            p = g.gen_pred(d, 1, avoid_pk=r.random() < 0.5)
            ps = sg.pred_sql(p, d)
            steps.append({"k": "delete", "table": "t0", "pred": p, "def": d,
                          "sql": "delete from t0" + ("" if ps is None else " where " + ps)})
        elif x < 0.8:
            steps.append({"k": "compact"})
        else:
            steps.append({"k": "reopen"})
        ask()
    h = sg.make_hist(hid, opts, NAMES, steps)
    h["queries"] = queries
    return h


def gen_compkey_hist(g, hid):
    """A composite key declared by a TABLE constraint `primary key (c1, c2[, c3])` (today: the key columns
    become NOT NULL, nothing else - the model's table is unkeyed with NOT NULL columns), key columns not
    co-monotone, several INSERTs; queries ordered / grouped / limited on EACH single key column without
    reading the others.  Only the ORDER BY column is selected, so the answer is ONE sequence whatever the
    ties: compared as sequences between the engines."""
    r = g.r
    nk = r.choice([2, 2, 3])
    names = ["a", "b", "c", "d"]
    cols = [(names[j], "INT", j < nk, False) for j in range(nk + 1)]
    d = sg.TableDef("t0", cols)
    order = list(range(nk))
    if r.random() < 0.4:
        r.shuffle(order)            # the constraint may list the key columns in another order
    sql = "create table t0 (%s, primary key (%s))" % (", ".join("%s int" % c[0] for c in cols), ", ".join(names[j] for j in order))
    opts = (r.choice([256 << 20, 1 << 20, 16384, 2048, 512]), r.choice([32, 64, 128, 1024, 16384]), r.choice([0, 1]), r.choice([1, 1, 0]))
    g.count("compkey:keycols=%d" % nk)
    steps = [{"k": "create", "def": d, "sql": sql}]
    queries = []
    seen = set()

    def ins(n):
        rows = []
        while len(rows) < n:
            # independent columns: a ascending-ish, b descending-ish or random - never co-monotone
            base = r.randrange(0, 60)
            key = tuple([base, r.choice([60 - base, r.randrange(0, 60)]), r.randrange(-5, 5)][:nk])
            if key in seen:
                continue
            seen.add(key)
            rows.append(key + (g.gen_val("INT", False),))
        return {"k": "insert", "table": "t0", "rows": rows, "def": d, "sql": "insert into t0 values %s" % ", ".join(
            "(" + ", ".join(sg.sql_lit(v, "INT") for v in row) + ")" for row in rows)}

    def ask():
        k = len(steps) - 1
        for j in r.sample(range(nk), r.choice([1, 2, nk])):
            c = names[j]
            form = r.random()
            if form < 0.35:
                q = "select %s from t0 order by %s%s" % (c, c, r.choice(["", "", " desc"]))
            elif form < 0.6:
                q = "select %s from t0 order by %s limit %d" % (c, c, r.choice([1, 2, 3, 10]))
            elif form < 0.75:
                q = "select %s from t0 order by %s limit %d offset %d" % (c, c, r.choice([1, 2, 5]), r.choice([1, 2, 4]))
            elif form < 0.9:
                q = "select %s, count(*) from t0 group by %s order by %s" % (c, c, c)
            else:
                q = "select %s from t0 where %s >= %d order by %s" % (c, c, r.randrange(0, 60), c)
            queries.append((k, q, "keycolseq", None))
            g.count("query:compkey-single-key-column")
        if r.random() < 0.3:
            c = names[r.randrange(nk)]
            queries.append((k, "select %s, count(*) from t0 group by %s" % (c, c), "bag", None))

    for _ in range(r.choice([2, 3, 4])):
        steps.append(ins(r.choice([3, 6, 6, 20, 40])))
    ask()
    for _ in range(r.randint(1, 4)):
        x = r.random()
        if x < 0.4:
            steps.append(ins(r.choice([3, 6, 20])))
        elif x < 0.6:
            p = g.gen_pred(d, 1, avoid_pk=False)
            ps = sg.pred_sql(p, d)
            steps.append({"k": "delete", "table": "t0", "pred": p, "def": d,
                          "sql": "delete from t0" + ("" if ps is None else " where " + ps)})
        elif x < 0.8:
            steps.append({"k": "compact"})
        else:
            steps.append({"k": "reopen"})
        ask()
    h = sg.make_hist(hid, opts, NAMES, steps)
    h["queries"] = queries
    return h


def table_facts(i, orc, t, opts):
    """what is known about the table a query reads: key type, duplicate / NULL keys, number of live
    row-sets, whether first keys are recorded"""
    d, rows = orc.tables[t]
    keys = [x[0] for x in rows]
    tid = [e.split(":")[0] for e in i.get("cat", "").split() if e.split(":")[1] == t]
    nrs = len([x for x in i.get("rs", "").split() if tid and x.split(".")[0] == tid[0]])
    return {"key_type": d.cols[0][1], "dup_keys": len(set(keys)) < len(keys), "null_keys": any(k is None for k in keys),
            "rowsets": nrs, "first_keys": bool(opts[3])}


def same_result(kind, x, y):
    cx, rx = parse_result(x)
    cy, ry = parse_result(y)
    if cx != cy:
        return False
    if rx is None:
        return True
    if sorted(rx) != sorted(ry):
        return False
    if kind.startswith("ordcol"):
        c = int(kind[6:])           # same rows, and the ORDER BY column (selected at position c) as a sequence
        return [v[c] for v in rx] == [v[c] for v in ry]
    if kind in ("pkrangeseq", "pkjoinseq", "keycolseq", "pkgrpseq"):
        return rx == ry             # unique keys: the ORDER BY answer is one sequence
    return kind not in ("ord", "pkord", "pkrangeord") or [v[0] for v in rx] == [v[0] for v in ry]


ROW_RE = re.compile(r"\(([^)]*)\)")


def parse_result(txt):
    if not txt.startswith("ok"):
        return txt, None
    return "ok", [tuple(x.split(" ")) for x in ROW_RE.findall(txt[2:])]


def run(ck):
    n = 400 if ck.quick() else 2500
    bad = vlib.step_lean(ck, "RlModel.Thm.C05", THEOREMS, extra_targets=["drv_c05"])
    ok, log = vlib.step_cargo(ck, ["c05"])
    if not ok:
        ck.report("build:harness", "harness does not build against the repository", replay={"log": log[-2000:]}, found_input=False)
        return ck.finish(level="proof")
    g = Gen5(ck.seed * 15485863 + 5, "c05")
    hists = []
    for i in range(n):
        if i % 8 == 3:
            h = gen_range_hist(g, i)
            hists.append(attach_queries(h, h["queries"]))
            continue
        if i % 16 == 15:
            h = gen_dupkey_hist(g, i)
            hists.append(attach_queries(h, h["queries"]))
            continue
        if i % 16 == 7:
            h = gen_compkey_hist(g, i)
            hists.append(attach_queries(h, h["queries"]))
            continue
        g.null_in_nn = 0.04 if i % 2 else 0.0    # such INSERTs must be rejected by both engines
        h = g.history(i, nsteps=g.r.randint(6, 20), weights=WEIGHTS, bulk=(i % 10 == 0), followup=False)
        h = inject_insert_select(g, h)
        qs = gen_queries(g, h)
        hists.append(attach_queries(h, qs))
    fixed = load_corpus()
    hists = fixed + hists
    ck.log("running %d corpus and %d generated statement sequences on both engines" % (len(fixed), len(hists) - len(fixed)))
    impl, model, ann, errs = sg.run_hists(ck.work, vlib.harness_bin("c05"), vlib.lean_exe("drv_c05"), hists, "c05", shards=12)
    if errs:
        ck.report("harness:crash", "the harness process failed: %s" % errs[0][1][-400:], replay={"stderr": errs[0][1]}, found_input=False)
    OUTC = {}
    T = {"mi": 0, "mi_bad": 0, "io": 0, "io_bad": 0, "mo": 0, "mo_bad": 0, "steps": 0, "queries": 0, "q_nontrivial": 0,
         "tagged": 0, "tagged_bad": 0}
    samples, distinct = [], set()
    for h in hists:
        orc = sg.Oracle(h["names"])
        tags = set()
        for k, s in enumerate(h["steps"]):
            key = "H%d.%d" % (h["id"], k)
            i, m = impl.get(key), model.get(key)
            if i is None or m is None:
                ck.report("corr:missing-line", "no answer for %s" % key, replay={"line": h["line"][:2000]}, found_input=False)
                break
            T["steps"] += 1
            exp = orc.apply(s)
            for t in (m.get("tag") or "").split(","):
                if t:
                    tags.add(t)
            if sg.sig_of_tags(tags) or "view-lost" in tags:
                # the disk side has entered one of the reopen defects recorded under C03 (the model
                # says which): what follows is C03's subject, not an engine difference
                T["c03_defect_histories"] = T.get("c03_defect_histories", 0) + 1
                break
            rp = {"history": sg.hist_to_json(h), "step": k, "sql_so_far": [x.get("sql", x["k"]) for x in h["steps"][:k + 1]],
                  "impl": i, "model": m}
            if i["out"].startswith("panic") or i["out"] == "dead" or m.get("out") in ("panic", "dead"):
                # the disk side can no longer be opened: C03's subject (its signatures), stop here
                if (i["out"].split("\t")[0] == "panic") != (m.get("out") == "panic") and i["out"] != "dead":
                    ck.report("corr:reopen:out", "model and implementation disagree on reopen: impl=%s model=%s" % (i["out"][:80], m.get("out")), replay=rp, found_input=False)
                break
            # ---- engines against each other (the property itself, model-free)
            T["io"] += 1
            bad_here = None
            empty_chunk = False
            if s.get("insert_select") and i["out"] == "ok:?" and i.get("mout", "").startswith("ok:") and i.get("mout") != "ok:?":
                # the disk INSERT task panicked ("empty rowset", rowset_writer.rs) on a chunk of zero
                # rows: the statement comes back Ok with no count row; the memory engine reports 0
                empty_chunk = True
                T["empty_chunk_inserts"] = T.get("empty_chunk_inserts", 0) + 1
                ck.report("engines:insert-empty-chunk-disk-panic",
                          "`%s`: memory engine returns the count (%s), the disk engine returns Ok with NO count row and commits nothing "
                          "(its insert task panics with `empty rowset` while flushing a mem-rowset that received only zero-row chunks - a source row-set whose rows are all filtered out; "
                          "row-set ids and directories are leaked, and when other chunks did carry rows those rows are lost)" % (s["sql"][:120], i.get("mout")),
                          replay=rp)
            if empty_chunk:
                # the disk side committed nothing (and leaked a row-set id): table contents and later ids
                # legitimately differ from here on, by the recorded mechanism
                break
            if s["k"] in ("create", "drop", "view", "index", "insert", "delete") and not empty_chunk:
                # observed outcomes (what both engines answered, not what the generator intended)
                if i.get("mout") == i["out"]:
                    cls = "err" if str(i["out"]).startswith("err") else "ok"
                    key = "outcome-both:%s:%s" % (s["k"], cls)
                    if s["k"] == "insert" and cls == "err" and s.get("rows") is not None and s.get("def") is not None and any(
                            v is None and (c[2] or c[3]) for row in s["rows"] for v, c in zip(row, s["def"].cols)):
                        key = "outcome-both:insert:not-null-rejected"
                    OUTC[key] = OUTC.get(key, 0) + 1
                if i.get("mout") != i["out"]:
                    bad_here = ("outcome of `%s`" % s.get("sql", s["k"])[:80], i.get("mout"), i["out"])
            if bad_here is None and sg.canon_tabs(i.get("mtabs", "")) != sg.canon_tabs(i.get("tabs", "")):
                bad_here = ("table contents after `%s`" % s.get("sql", s["k"])[:80], sg.canon_tabs(i.get("mtabs", ""))[:300], sg.canon_tabs(i.get("tabs", ""))[:300])
            # ---- queries
            for q in (i.get("qs") or "").split(";;"):
                if not q:
                    continue
                qi, _, rest = q.partition(":")
                parts = rest.split("~~")
                a, b = parts[0], parts[1]
                noopt, plan_m, plan_d = (parts + ["", "", ""])[2:5]
                _, sql, kind, meta = h["queries"][int(qi)]
                ca, ra = parse_result(a)
                tagged = kind in ("pkord", "pkrange", "pkrangeord", "pkrangeseq", "pkjoin", "pkjoinseq", "winorder", "keycolseq", "pkgrp", "pkgrpseq")
                T["tagged" if tagged else "queries"] += 1
                okq = same_result(kind, a, b)
                if ra:
                    T["q_nontrivial"] += 1
                    distinct.add(sql + "|" + str(sorted(ra))[:200])
                if okq:
                    continue
                qrp = dict(rp, query=sql, memory=a[:2000], disk=b[:2000], disk_optimizer_off=noopt[:2000],
                           plan_memory=plan_m[:600], plan_disk=plan_d[:600])
                # ---- attribution: a recorded mechanism must apply to THIS query on THIS layout, and the
                # disk engine must agree with the memory engine once the planner switch is taken away
                # (optimizer off): otherwise the difference is a violation of C05 in its own right
                noopt_ok = bool(noopt) and same_result(kind, a, noopt)
                t = sql.split(" from ")[1].split()[0] if " from " in sql else None
                facts = table_facts(i, orc, t, h["opts"]) if t in orc.tables else {}
                qrp["table_facts"] = facts
                if kind == "pkord":
                    cb, rb = parse_result(b)
                    if noopt_ok and ra is not None and rb is not None and sorted(ra) == sorted(rb) and facts.get("rowsets", 0) >= 2:
                        T["tagged_bad"] += 1
                        ck.report("engines:pk-order-scan(C12)",
                                  "query `%s`: same rows, different key order (memory %s..., disk %s...); the table has %d row-sets and the disk plan drops the sort "
                                  "(with the optimizer off the disk engine agrees) - C12's mechanism" % (sql, a[:80], b[:80], facts["rowsets"]), replay=qrp)
                    else:
                        ck.report("engines:query:pk-order", "query `%s` differs between engines and C12's mechanism (>= 2 row-sets, rows equal as a bag, "
                                  "agreement with the optimizer off) does not apply: memory %s, disk %s, disk/optimizer off %s, facts %s" % (
                                      sql, a[:160], b[:160], noopt[:160], facts), replay=qrp)
                        T["io_bad"] += 1
                elif kind == "pkrange":
                    mech = []
                    if facts.get("key_type") != "INT":
                        mech.append("key type %s is not decoded by start_rowid / the filter (non-i32 key)" % facts.get("key_type"))
                    if facts.get("dup_keys"):
                        mech.append("duplicate key values (the start-row rule skips a block whose first key equals the bound)")
                    if facts.get("null_keys"):
                        mech.append("NULL keys")
                    if not facts.get("first_keys", True):
                        mech.append("first keys are not recorded (record_first_key = false), which the range-scan rule requires")
                    if noopt_ok and mech:
                        T["tagged_bad"] += 1
                        ck.report("engines:pk-range-scan(C13)",
                                  "query `%s` differs between engines: memory %s, disk %s; with the optimizer off the disk engine agrees; applicable C13 mechanism: %s" % (
                                      sql, a[:120], b[:120], "; ".join(mech)), replay=qrp)
                    else:
                        ck.report("engines:query:pk-range", "query `%s` differs between engines although C13's hypotheses hold for this table (%s): memory %s, disk %s, disk/optimizer off %s" % (
                            sql, facts, a[:160], b[:160], noopt[:160]), replay=qrp)
                        T["io_bad"] += 1
                elif kind == "join":
                    null_keys = False
                    if meta and meta[0] in orc.tables and meta[2] in orc.tables:
                        null_keys = any(r_[meta[1]] is None for r_ in orc.tables[meta[0]][1]) and \
                            any(r_[meta[3]] is None for r_ in orc.tables[meta[2]][1])
                    hm, hd = "HashJoin" in plan_m, "HashJoin" in plan_d
                    cb, rb = parse_result(b)

                    def weight(res):
                        if res is None:
                            return -1
                        if len(res) == 1 and len(res[0]) == 1 and res[0][0].startswith("i32:"):
                            return int(res[0][0][4:])
                        return len(res)
                    more_on_hash = (hm and not hd and weight(ra) > weight(rb)) or (hd and not hm and weight(rb) > weight(ra))
                    if null_keys and more_on_hash:
                        T["join_null_key"] = T.get("join_null_key", 0) + 1
                        ck.report("engines:join-null-key(C11)",
                                  "query `%s` differs between engines: memory %s, disk %s; both join columns hold NULLs, exactly one engine's plan has a HashJoin "
                                  "(memory: %s, disk: %s) and that engine returns the extra NULL = NULL matches - C11/C02's operator defect reached through plan choice" % (
                                      sql, a[:120], b[:120], hm, hd), replay=qrp)
                    else:
                        bad_here = bad_here or ("query `%s` (join; NULL keys on both sides: %s; HashJoin in memory plan: %s, in disk plan: %s)" % (sql, null_keys, hm, hd), a[:200], b[:200])
                elif kind in ("pkrangeord", "pkrangeseq", "pkjoin", "pkjoinseq"):
                    # key range + key order / primary-key join under a key range: no recorded mechanism
                    # excuses a difference (C12's and C13's findings are repaired)
                    cb, rb = parse_result(b)
                    same_bag = ra is not None and rb is not None and sorted(ra) == sorted(rb)
                    T["tagged_bad"] += 1
                    T["io_bad"] += 1
                    ck.report("engines:query:pk-range-order" if kind in ("pkrangeord", "pkrangeseq") else "engines:query:pk-join-range",
                              "query `%s` differs between engines (%s): memory %s, disk %s, disk with the optimizer off %s; table facts %s" % (
                                  sql, "same rows, different ORDER BY sequence" if same_bag else "different rows",
                                  a[:160], b[:160], noopt[:160], facts), replay=qrp)
                elif kind == "winorder":
                    # corpus witness of the recorded finding: a running window aggregate follows the scan order
                    # (memory: insertion order, disk: key order of the merging scan), the OVER (ORDER BY ..) is ignored
                    cb, rb = parse_result(b)
                    T["window_order_witness"] = T.get("window_order_witness", 0) + 1
                    ck.report("engines:window-ignores-order-by",
                              "query `%s` differs between engines: memory %s, disk %s - the running aggregate follows each engine's scan order, "
                              "the window's ORDER BY is bound but not planned or executed (shared query layer; visible as an engine difference)" % (sql, a[:200], b[:200]), replay=qrp)
                elif kind in ("pkgrp", "pkgrpseq"):
                    T["io_bad"] += 1
                    ck.report("engines:query:group-by-key",
                              "query `%s` over a keyed table with duplicate key values differs between engines: memory %s, disk %s, disk with the optimizer off %s; "
                              "table facts %s; plan on disk: %s" % (sql, a[:200], b[:200], noopt[:160], facts, plan_d[:300]), replay=qrp)
                elif kind == "keycolseq":
                    T["io_bad"] += 1
                    ck.report("engines:query:composite-key-order",
                              "query `%s` on a table whose key is declared by a table constraint differs between engines as a sequence: memory %s, disk %s, "
                              "disk with the optimizer off %s; plan on disk: %s" % (sql, a[:200], b[:200], noopt[:160], plan_d[:300]), replay=qrp)
                elif kind == "win" or kind.startswith("ordcol"):
                    T["io_bad"] += 1
                    ck.report("engines:query:window" if kind == "win" else "engines:query:outer-join-order",
                              "query `%s` differs between engines: memory %s, disk %s, disk with the optimizer off %s; table facts %s" % (
                                  sql, a[:200], b[:200], noopt[:160], facts), replay=qrp)
                else:
                    bad_here = bad_here or ("query `%s`" % sql, a[:200], b[:200])
            if bad_here:
                T["io_bad"] += 1
                predicted = sg.canon_tabs(m.get("tabs", "")) == sg.canon_tabs(i.get("tabs", "")) and \
                    sg.canon_tabs(m.get("mtabs", "")) == sg.canon_tabs(i.get("mtabs", ""))
                if False:
                    pass
                else:
                    ck.report("engines:%s" % s["k"], "%s: memory engine %s, disk engine %s" % bad_here, replay=rp)
                break
            # ---- model vs implementation, both engines
            T["mi"] += 1
            d = []
            if m.get("out") != i["out"] and not empty_chunk:
                d.append(("disk outcome", i["out"], m.get("out")))
            if m.get("mout") != i.get("mout") and s["k"] in ("create", "drop", "view", "index", "insert", "delete"):
                d.append(("memory outcome", i.get("mout"), m.get("mout")))
            if sg.canon_tabs(m.get("tabs", "")) != sg.canon_tabs(i.get("tabs", "")):
                d.append(("disk tables", sg.canon_tabs(i.get("tabs", ""))[:300], sg.canon_tabs(m.get("tabs", ""))[:300]))
            if sg.canon_tabs(m.get("mtabs", "")) != sg.canon_tabs(i.get("mtabs", "")):
                d.append(("memory tables", sg.canon_tabs(i.get("mtabs", ""))[:300], sg.canon_tabs(m.get("mtabs", ""))[:300]))
            if d:
                T["mi_bad"] += 1
                ck.report("corr:%s:%s" % (s["k"], d[0][0].replace(" ", "-")),
                          "model and implementation disagree on %s after `%s`: impl=%s model=%s" % (d[0][0], s.get("sql", s["k"])[:80], d[0][1], d[0][2]),
                          replay=rp, found_input=False)
                break
            if empty_chunk:
                # the leaked row-set id puts the implementation's ids one ahead of the model's (the
                # model does not exhibit the panic): the observed compaction plans no longer transfer
                break
            # ---- model's spec vs python oracle
            T["mo"] += 1
            if not tags and sg.canon_tabs(m.get("spec", "")) != sg.canon_tabs(orc.tabs_text()):
                T["mo_bad"] += 1
                ck.report("spec:model-vs-oracle", "Lean specification vs python multiset oracle at %s" % key, replay=rp, found_input=False)
                break
        if len(samples) < 3 and h["queries"]:
            samples.append({"statements": [x.get("sql", x["k"])[:120] for x in h["steps"]], "queries": [q[1] for q in h["queries"][:6]]})
    for name, st in bad.items():
        ck.report("thm:" + name, "theorem %s is not discharged: %s" % (name, st.get("status")),
                  replay={"theorem": name, "status": st}, found_input=False)
    ck.coverage.update({
        "evaluations": len(hists), "corpus_histories": len(fixed), "steps": T["steps"], "queries": T["queries"], "tagged_pk_queries": T["tagged"],
        "distinct_nontrivial": len(distinct),
        "rule": "statement sequences (DDL, INSERT incl. >1024-row batches, DELETE, forced compaction/vacuum/reopen on the disk side) x disk layout options, each step followed by SELECT * of every table and 1-3 generated queries on both engines (on keyed tables also pk-ordered scans, key-range scans, range scans aimed at block boundaries, and - round 6 - key range AND key order in one statement `WHERE pk <range> ORDER BY pk [LIMIT n]` compared as sequences plus primary-key joins under a key range, over tables built by several INSERTs with interleaving key ranges and small row-set sizes); `outcome-both:*` in the distribution = statement outcomes OBSERVED identically on both engines (insert:not-null-rejected = INSERT with NULL in a NOT NULL / key column refused by both); distinct_nontrivial = distinct (query, result) pairs with a non-empty result",
        "samples": samples,
        "model_vs_impl": {"compared": T["mi"], "disagree": T["mi_bad"]},
        "impl_vs_oracle": {"compared": T["io"], "disagree": T["io_bad"], "what": "memory engine vs disk engine"},
        "model_vs_oracle": {"compared": T["mo"], "disagree": T["mo_bad"]},
        "distribution": dict(g.dist, tagged_pk_queries_differing=T["tagged_bad"], **OUTC),
        "histories_cut_at_c03_defect": T.get("c03_defect_histories", 0),
        "imported_obligations": ["C12 ScanContract.sorted (pk-order scans)", "C13 ScanContract.range (key-range scans)"],
    })
    return ck.finish(level="proof", trusted_base=[
        "Lean 4 kernel", "rlverif c05 harness + checks/storegen.py",
        "models Model/Store.lean (disk, memory) tied to the engines by this differential run only",
        "query operators above the scan are shared by both engines and are C02/C11's subject; error messages are not compared"])


def replay(path):
    j = json.load(open(path))
    print(json.dumps(j, indent=1)[:6000])
    return 0
