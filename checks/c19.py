"""C19 — values of every type compare, hash and print coherently.

1. translator: variant order of `enum DataValue` / `enum DataType` re-extracted from /repo/src
   (translator/gen_valueorder.py -> lean/RlModel/Gen/ValueOrder.lean); `rank_matches_source` stops
   compiling when it differs from the hand model's `rank`.
2. Lean: theorems of RlModel.Thm.C19 about the executable model (whole DataValue).
3. harness c19 (real `DataValue`, real Display/FromStr, real SQL operators) vs driver drv_c19
   (the model), on the same generated requests; plus the model-free oracle (the algebraic laws
   and parse∘display = id checked directly on the implementation's answers).
"""
import json
import os
from collections import Counter

import vlib

THEOREMS = [
    "rank_matches_source", "rank_is_position", "derives_match_source", "type_order_matches_source", "interval_fields_match_source",
    "cmp_refl", "cmp_antisymm", "cmp_trans", "cmp_total", "cmp_eq_iff_eq", "cmp_congr",
    "eq_refl", "eq_symm", "eq_trans", "eq_hash",
    "cross_type_cmp", "int32_int64_differ", "null_least",
    "sql_kernel_eq_cmp", "sql_lt_iff_cmp", "sql_cross_width",
    "date_roundtrip", "date_display_out_of_range_regression", "date_out_of_range_unparseable", "civil_roundtrip",
    "int_roundtrip", "bool_roundtrip", "string_roundtrip",
    "blob_roundtrip", "blob_backslash_quote_regression",
    "interval_roundtrip", "interval_old_display_unsound", "interval_subsecond_regression", "timestamp_roundtrip", "timestamp_subsecond_regression", "timestamp_first_year_unsound", "f64_nan_roundtrip",
]

# reason tag computed by the model  ->  known-finding signature
WHY_SIG = {
    "date-range": ("roundtrip:date:out-of-range",
                   "Date admits every i32 day count but its text form is chrono's (years -262143..=262142): outside it Display prints `<date out of range: N days>`, which does not parse back"),
    "ts-first-year": ("roundtrip:timestamp:first-chrono-year",
                      "a timestamp in chrono's first year -262143 prints as 262143-.. BC; +262143 is not a chrono year, so it does not parse back"),
    "ts-range": ("roundtrip:timestamp:out-of-range",
                 "Timestamp admits every i64 but its text form is chrono's: outside it Display prints `<timestamp out of range: N us>`, which does not parse back"),
}

ORD = {"lt", "eq", "gt"}
SWAP = {"lt": "gt", "gt": "lt", "eq": "eq"}


def laws_cmp3(ans):
    """Model-free oracle on one `cmp3` answer: returns list of violated law names."""
    t = ans.split(" ")
    if len(t) != 12:
        return ["malformed:" + ans[:40]]
    ab, ba, bc, cb, ac, ca = t[0:6]
    eab, ebc, eac = [x == "true" for x in t[6:9]]
    ha, hb, hc = t[9:12]
    bad = []
    if ba != SWAP[ab] or cb != SWAP[bc] or ca != SWAP[ac]:
        bad.append("antisymmetry")
    if (ab == "eq") != eab or (bc == "eq") != ebc or (ac == "eq") != eac:
        bad.append("cmp-eq-consistency")
    # transitivity of <=
    le = lambda o: o in ("lt", "eq")
    if le(ab) and le(bc) and not le(ac):
        bad.append("transitivity")
    if ab == "lt" and le(bc) and ac != "lt":
        bad.append("transitivity")
    if le(ab) and bc == "lt" and ac != "lt":
        bad.append("transitivity")
    if le(ba) and le(cb) and not le(ca):
        bad.append("transitivity")
    if eab and ebc and not eac:
        bad.append("eq-transitivity")
    if (eab and ha != hb) or (ebc and hb != hc) or (eac and ha != hc):
        bad.append("eq-implies-hash")
    return bad


def parse_sections(s):
    out = {}
    for part in s.split(";"):
        k, _, v = part.partition(":")
        out[k] = v
    return out


def pairs(s):
    if s in ("", None):
        return set()
    return set(tuple(int(x) for x in p.split("-")) for p in s.split(","))


def check_sql(q, impl, model):
    """Compares one SQL batch.  Returns (list of (kind, detail)) disagreements; kind starts with
    'model:' for model-vs-impl and 'oracle:' for impl-vs-oracle."""
    bad = []
    t = q.split(" ")
    ty, vals = t[1], t[2:]
    if impl.startswith("create-failed") or impl.startswith("load-failed"):
        return [("harness:" + impl.split(":")[0], impl[:200])]
    I = parse_sections(impl)
    M = parse_sections(model)
    n = len(vals)
    if I.get("vals", "").split(" ") != vals:
        bad.append(("oracle:stored-values-differ", "inserted %s read back %s" % (vals, I.get("vals"))))
        return bad
    ranks = [int(x) for x in M["rank"].split(",")]
    nulls = {i for i, v in enumerate(vals) if v == "null"}
    # --- the six comparison kernels called directly (the optimizer may flip `<` into `>`)
    if I.get("kern") != M.get("kern"):
        ik, mk = (I.get("kern") or "").split(","), (M.get("kern") or "").split(",")
        names = ["eq", "ne", "gt", "lt", "ge", "le"]
        which = [names[k] for k in range(min(len(ik), len(mk), 6)) if ik[k] != mk[k]] or ["shape"]
        bad.append(("model:kernel-" + which[0], "kernels %s differ: impl %s model %s" % (which, I.get("kern", "")[:120], M.get("kern", "")[:120])))
    # --- SQL `<` kernel vs model kernel
    if M["kernel"] == "yes":
        if I["lt"] in ("err", "panic"):
            bad.append(("model:lt-kernel-missing", I["lt"]))
        else:
            got = set((a, b) for a, b in pairs(I["lt"]))
            exp = pairs(M["lt"])
            if got != exp:
                bad.append(("model:lt-pairs", "impl-only %s model-only %s" % (sorted(got - exp)[:5], sorted(exp - got)[:5])))
            # oracle: a < b via SQL  <=>  a sorts strictly before b (cmp = Less), non-null
            exp2 = set((i, j) for i in range(n) for j in range(n) if i not in nulls and j not in nulls and ranks[i] < ranks[j])
            if got != exp2:
                bad.append(("oracle:lt-vs-order", "sql-lt-only %s order-only %s" % (sorted(got - exp2)[:5], sorted(exp2 - got)[:5])))
    else:
        if I["lt"] not in ("err", "panic"):
            bad.append(("model:lt-kernel-unexpected", I["lt"][:80]))
    # --- equi-join partners (hash join: Hash + Eq of DataValue); NULL keys left to C11
    if I["eqjoin"] in ("err", "panic"):
        bad.append(("model:eqjoin-failed", I["eqjoin"]))
    else:
        got = set(p for p in pairs(I["eqjoin"]) if p[0] not in nulls and p[1] not in nulls)
        exp = set((i, j) for i in range(n) for j in range(n) if i not in nulls and j not in nulls and ranks[i] == ranks[j])
        if got != exp:
            bad.append(("model:eqjoin-pairs", "impl-only %s model-only %s" % (sorted(got - exp)[:5], sorted(exp - got)[:5])))
        if M["kernel"] == "yes" and pairs(M["eq"]) != exp:
            bad.append(("model:eq-kernel-vs-cmp", "kernel eq pairs differ from cmp classes"))
    # --- ORDER BY asc / desc
    for key, rev in (("asc", False), ("desc", True)):
        if I[key] in ("err", "panic"):
            bad.append(("model:orderby-failed", I[key]))
            continue
        seq = [int(x) for x in I[key].split(",")] if I[key] else []
        if sorted(seq) != list(range(n)):
            bad.append(("oracle:orderby-not-permutation", I[key]))
            continue
        rk = [ranks[i] for i in seq]
        ok = all(rk[k] >= rk[k + 1] for k in range(n - 1)) if rev else all(rk[k] <= rk[k + 1] for k in range(n - 1))
        if not ok:
            bad.append(("model:orderby-" + key, "ids %s have cmp-ranks %s" % (seq, rk)))
    # --- GROUP BY / DISTINCT
    if I["groups"] in ("err", "panic"):
        bad.append(("model:groupby-failed", I["groups"]))
    else:
        got = sorted(tuple(int(x) for x in g.split("-")) for g in I["groups"].split(",")) if I["groups"] else []
        cls = {}
        for i in range(n):
            cls.setdefault(ranks[i], []).append(i)
        exp = sorted((min(c), max(c), len(c)) for c in cls.values())
        if got != exp:
            bad.append(("model:groupby-classes", "impl %s model %s" % (got, exp)))
        if I["distinct"] not in ("err", "panic") and int(I["distinct"]) != len(cls):
            bad.append(("model:distinct-count", "impl %s model %d" % (I["distinct"], len(cls))))
    # --- top-N: ORDER BY g, v [DESC] LIMIT n OFFSET m over (g = id % 2, v) must be rows m+1..m+n of
    # the full order, compared on the keys (g, cmp-rank of v); ties on g at the cut-off are decided by v
    tn = I.get("topn", "")
    if tn in ("", "load-failed"):
        bad.append(("model:topn-not-run", tn))
    else:
        for part in tn.split(","):
            spec, _, got = part.partition("=")
            d, lim, off = spec.split("-")
            lim, off = int(lim), int(off)
            if got in ("err", "panic"):
                bad.append(("model:topn-failed", part))
                continue
            seq = [int(x) for x in got.split(".")] if got else []
            key = {"a": lambda i: (i % 2, ranks[i]), "d": lambda i: (-(i % 2), -ranks[i]), "m": lambda i: (i % 2, -ranks[i])}[d]
            exp = sorted(key(i) for i in range(n))[off:off + lim]
            if [key(i) for i in seq] != exp or len(set(seq)) != len(seq):
                bad.append(("model:topn-" + {"a": "asc", "d": "desc", "m": "mixed"}[d],
                            "ORDER BY %s LIMIT %d OFFSET %d returned ids %s with keys %s, rows %d..%d of the full order have keys %s" % (
                                {"a": "g, v", "d": "g desc, v desc", "m": "g, v desc"}[d], lim, off, seq, [key(i) for i in seq], off + 1, off + lim, exp)))
    # --- MIN / MAX
    mm = I.get("minmax", "")
    if mm in ("err", "panic", "none"):
        bad.append(("model:minmax-failed", mm))
    else:
        lo, hi = mm.split(" ")
        nn = [i for i in range(n) if i not in nulls]
        if nn:
            rlo = min(ranks[i] for i in nn)
            rhi = max(ranks[i] for i in nn)
            ilo = [i for i in nn if vals[i] == lo]
            ihi = [i for i in nn if vals[i] == hi]
            if not ilo or ranks[ilo[0]] != rlo:
                bad.append(("model:min", "impl %s" % lo))
            if not ihi or ranks[ihi[0]] != rhi:
                bad.append(("model:max", "impl %s" % hi))
        elif (lo, hi) != ("null", "null"):
            bad.append(("model:minmax-all-null", mm))
    return bad


def check_disk(q, impl, model):
    """Storage sort order: keyed table `k` on the disk engine (3..5 row-sets with interleaving key
    ranges) and its unkeyed twin `u`, fresh / after a compaction pass / after reopen.  `ord`
    (ORDER BY k) and `scan` (plain scan, whose order the planner trusts) must be sorted under the
    model's cmp; GROUP BY k and the join on k must give the same bags on k as on u, which must be
    the model's == classes."""
    bad = []
    t = q.split(" ")
    ty, vals = t[1], t[2:]
    n = len(vals)
    if impl.startswith(("create-failed", "load-failed")):
        return [("harness:" + impl.split(":")[0], impl[:200])]
    ranks = [int(x) for x in parse_sections(model)["rank"].split(",")]
    cls = {}
    for i in range(n):
        cls.setdefault(ranks[i], []).append(i)
    exp_groups = sorted((min(c), max(c), len(c)) for c in cls.values())
    exp_join = sorted((i, j) for i in range(n) for j in range(n) if ranks[i] == ranks[j])
    I = parse_sections(impl)
    for phase in ("fresh", "compacted", "reopened"):
        body = I.get(phase, "")
        if "=" not in body:
            bad.append(("model:disk-%s-failed" % phase, body[:80]))
            continue
        P = dict(part.split("=", 1) for part in body.split("|"))
        for key in ("ord", "scan"):
            v = P.get(key, "")
            if v in ("err", "panic"):
                bad.append(("model:disk-%s-%s-failed" % (key, phase), v))
                continue
            seq = [int(x) for x in v.split(",")] if v else []
            if sorted(seq) != list(range(n)):
                bad.append(("oracle:disk-%s-not-permutation:%s" % (key, phase), v[:120]))
                continue
            rk = [ranks[i] for i in seq]
            if any(rk[k] > rk[k + 1] for k in range(n - 1)):
                bad.append(("model:disk-%s-unsorted:%s" % (key, phase),
                            "%s of the keyed table returns ids %s whose keys have cmp-ranks %s (not sorted)" % (
                                "ORDER BY k" if key == "ord" else "the plain scan", seq, rk)))
        for a, b, exp, what in (("gk", "gu", exp_groups, "group"), ("jk", "ju", exp_join, "join")):
            ga, gb = P.get(a, ""), P.get(b, "")
            if ga in ("err", "panic") or gb in ("err", "panic"):
                bad.append(("model:disk-%s-failed:%s" % (what, phase), "%s / %s" % (ga[:20], gb[:20])))
                continue
            pa = sorted(tuple(int(x) for x in g.split("-")) for g in ga.split(",")) if ga else []
            pb = sorted(tuple(int(x) for x in g.split("-")) for g in gb.split(",")) if gb else []
            if pa != pb:
                bad.append(("oracle:disk-%s-keyed-vs-twin:%s" % (what, phase), "keyed %s twin %s" % (pa[:8], pb[:8])))
            if pa != exp:
                bad.append(("model:disk-%s:%s" % (what, phase), "keyed table %s, model classes %s" % (pa[:8], exp[:8])))
    return bad


def strip_rt(ans):
    return " ".join(x for x in ans.split(" ") if not x.startswith("rt:") and not x.startswith("why:"))


def field(ans, key):
    for x in ans.split(" "):
        if x.startswith(key + ":"):
            return x[len(key) + 1:]
    return None


def compare(ck, reqs, impl, model, stats, viol):
    """Fills `stats`; calls viol(sig, what, replay) for each failure."""
    for q, i, m in zip(reqs, impl, model):
        kind = q.split(" ", 1)[0]
        if kind == "cmp3":
            ty = q.split(" ")[1].split(":")[0]
            stats["dist"]["cmp3:" + ty] += 1
            stats["mvi"]["compared"] += 1
            if i != m:
                stats["mvi"]["disagree"] += 1
                viol("corr:cmp3:" + ty, "model and implementation disagree on %s" % q, {"request": q, "impl": i, "model": m})
            stats["ivo"]["compared"] += 1
            for law, ans, who in ((laws_cmp3(i), i, "impl"), (laws_cmp3(m), m, "model")):
                if law:
                    if who == "impl":
                        stats["ivo"]["disagree"] += 1
                        viol("law:" + law[0] + ":" + ty, "%s violated on the implementation for %s" % (law[0], q), {"request": q, "impl": i})
                    else:
                        stats["mvo"]["disagree"] += 1
                        viol("model-law:" + law[0], "model violates %s on %s" % (law[0], q), {"request": q, "model": m}, found=False)
            stats["mvo"]["compared"] += 1
            t = i.split(" ")
            if len(t) == 12 and (t[0] != "eq" or t[2] != "eq"):
                stats["nontrivial"].add(q)
            if len(t) == 12 and t[6] == "true" and q.split(" ")[1] != q.split(" ")[2]:
                stats["dist"]["eq-with-different-repr"] += 1
        elif kind == "disp":
            ty = q.split(" ")[1]
            stats["dist"]["disp:" + ty] += 1
            unmod = m.startswith("unmodelled") or " unmodelled" in m
            if not unmod:
                stats["mvi"]["compared"] += 1
                if strip_rt(i) != strip_rt(m):
                    stats["mvi"]["disagree"] += 1
                    viol("corr:display-parse:" + ty, "model and implementation disagree on %s" % q, {"request": q, "impl": i, "model": m})
            else:
                stats["dist"]["disp-unmodelled:" + ty] += 1
            # oracle: parse(display(v)) == v on the implementation
            stats["ivo"]["compared"] += 1
            ok = field(i, "rt") == "true"
            if ok:
                stats["nontrivial"].add(q)
            else:
                stats["ivo"]["disagree"] += 1
                why = field(m, "why")
                outcome = "display panics" if i == "panic" else "parse(display(v)) = %s" % (i.split(" ")[1] if " " in i else i)
                # a known finding absorbs the failure only when the model (which encodes the known
                # defects) predicts exactly the observed text and parse result
                exact = (not unmod) and strip_rt(i) == strip_rt(m)
                if exact and why in WHY_SIG:
                    sig, what = WHY_SIG[why]
                    stats["dist"]["finding:" + sig] += 1
                    viol(sig, what + " — e.g. %s: %s" % (q, outcome), {"request": q, "impl": i, "model": m})
                else:
                    viol("roundtrip:" + ty, "value does not survive display+parse: %s: %s" % (q, outcome), {"request": q, "impl": i, "model": m})
        elif kind == "parse":
            ty = q.split(" ")[1]
            stats["dist"]["parse:" + ty] += 1
            stats["dist"]["parse-outcome:" + i.split(":")[0]] += 1
            if m == "unmodelled":
                stats["dist"]["parse-unmodelled:" + ty] += 1
                continue
            stats["mvi"]["compared"] += 1
            if i != m:
                stats["mvi"]["disagree"] += 1
                viol("corr:parse:" + ty, "model and implementation disagree on %s" % q, {"request": q, "impl": i, "model": m})
            elif i.startswith("ok"):
                stats["nontrivial"].add(q)
        elif kind == "disk":
            ty = q.split(" ")[1]
            stats["dist"]["disk:" + ty] += 1
            stats["dist"]["disk-rowsets:" + (parse_sections(i).get("groups") or "?")] += 1
            bad = check_disk(q, i, m)
            stats["mvi"]["compared"] += 1
            stats["ivo"]["compared"] += 1
            if not bad:
                stats["nontrivial"].add(q)
            for k, detail in bad:
                if k.startswith("oracle:"):
                    stats["ivo"]["disagree"] += 1
                else:
                    stats["mvi"]["disagree"] += 1
                viol("sql:%s:%s" % (k, ty), "keyed %s table on the disk engine: %s (%s)" % (ty, k, detail), {"request": q, "impl": i[:3000], "model": m})
        elif kind == "sql":
            ty = q.split(" ")[1]
            stats["dist"]["sql:" + ty] += 1
            bad = check_sql(q, i, m)
            stats["mvi"]["compared"] += 1
            stats["ivo"]["compared"] += 1
            if not bad:
                stats["nontrivial"].add(q)
            for k, detail in bad:
                if k.startswith("oracle:"):
                    stats["ivo"]["disagree"] += 1
                else:
                    stats["mvi"]["disagree"] += 1
                viol("sql:%s:%s" % (k, ty), "SQL over a single-column %s table: %s (%s)" % (ty, k, detail), {"request": q, "impl": i, "model": m})


def run_requests(ck, req_path):
    (rc1, impl), (rc2, model) = vlib.run_pair(ck, [vlib.harness_bin("c19"), "run"], [vlib.lean_exe("drv_c19")], req_path)
    reqs = [l for l in open(req_path).read().split("\n") if l.strip() and not l.startswith("#")]
    while impl and impl[-1] == "":
        impl.pop()
    while model and model[-1] == "":
        model.pop()
    return reqs, impl, model, rc1, rc2


def run(ck):
    stats = {"dist": Counter(), "mvi": Counter(), "ivo": Counter(), "mvo": Counter(), "nontrivial": set()}

    def viol(sig, what, replay, found=True):
        ck.report(sig, what, replay=replay, found_input=found)

    vlib.ENV["VERIF_C19_WORK"] = ck.work
    # 1. translator
    rc, out = vlib.sh(["python3", os.path.join(vlib.VERIF, "translator/gen_valueorder.py"), vlib.REPO])
    ck.log(out.strip().split("\n")[-1])
    if rc != 0:
        ck.report("translator:valueorder", "cannot re-extract the DataValue variant order from the source: " + out[-400:],
                  replay={"log": out[-2000:]}, found_input=False)
    # 2. Lean
    bad = vlib.step_lean(ck, "RlModel.Thm.C19", THEOREMS, extra_targets=["drv_c19"])
    # 3. harness
    ok, log = vlib.step_cargo(ck, ["c19"])
    if not ok:
        ck.report("build:harness", "harness does not build against the repository", replay={"log": log[-2000:]}, found_input=False)
        return ck.finish(level="proof")
    # 4. corpus, then generated requests
    total_reqs = []
    files = []
    cdir = os.path.join(vlib.VERIF, "corpus", "C19")
    if os.path.isdir(cdir):
        files += [os.path.join(cdir, f) for f in sorted(os.listdir(cdir)) if f.endswith(".txt")]
    gen = os.path.join(ck.work, "req.txt")
    vlib.sh([vlib.harness_bin("c19"), "gen", ck.tier, gen])
    files.append(gen)
    for f in files:
        reqs, impl, model, rc1, rc2 = run_requests(ck, f)
        if len(impl) < len(reqs) or len(model) < len(reqs):
            ck.report("run:truncated", "harness (rc %s, %d lines) or driver (rc %s, %d lines) did not answer all %d requests of %s" % (
                rc1, len(impl), rc2, len(model), len(reqs), os.path.basename(f)),
                replay={"file": f, "impl_tail": impl[-3:], "model_tail": model[-3:]}, found_input=False)
            continue
        compare(ck, reqs, impl, model, stats, viol)
        total_reqs += reqs
    ck.log("correspondence: %d requests, model_vs_impl %s, impl_vs_oracle %s" % (len(total_reqs), dict(stats["mvi"]), dict(stats["ivo"])))
    # 5. undischarged obligations -> search result: the oracle above ran on all inputs
    for name, st in bad.items():
        hit = [v for v in ck.violations if v[3]]
        ck.report("thm:" + name, "theorem %s is not discharged (%s); %s" % (
            name, st.get("status"), "see the concrete violations reported by this run" if hit else
            "the model-free oracle found no failing input among %d requests" % len(total_reqs)),
            replay={"theorem": name, "status": st}, found_input=False)
    ck.coverage.update({
        "evaluations": len(total_reqs),
        "distinct_nontrivial": len(stats["nontrivial"]),
        "rule": "distinct request lines whose answer is non-trivial: cmp3 with at least one non-equal pair, "
                "disp whose text parses back to an equal value, parse with an accepted text, sql batches with all sections agreeing",
        "samples": total_reqs[:3] + [q for q in total_reqs if q.startswith("disp")][:2] + [q for q in total_reqs if q.startswith("parse")][100:102] + [q[:200] for q in total_reqs if q.startswith("sql")][:1],
        "model_vs_impl": {"compared": stats["mvi"]["compared"], "disagree": stats["mvi"]["disagree"]},
        "impl_vs_oracle": {"compared": stats["ivo"]["compared"], "disagree": stats["ivo"]["disagree"],
                           "explained_by_finding": {k[len("finding:"):]: v for k, v in stats["dist"].items() if k.startswith("finding:")},
                           "unexplained": stats["ivo"]["disagree"] - sum(v for k, v in stats["dist"].items() if k.startswith("finding:")),
                           "note": "a disagreement is absorbed by a finding only when the model predicts exactly the observed text and parse result; `unexplained` ones are each reported as a VIOLATION"},
        "model_vs_oracle": {"compared": stats["mvo"]["compared"], "disagree": stats["mvo"]["disagree"]},
        "distribution": dict(sorted(stats["dist"].items())),
    })
    return ck.finish(level="proof",
                     checker_cmd="python3 translator/gen_valueorder.py && lake build RlModel.Thm.C19 drv_c19 && #print axioms audit",
                     trusted_base=[
                         "Lean 4.33 kernel (axioms: propext, Classical.choice, Quot.sound)",
                         "translator/gen_valueorder.py (enum variant extraction from source text)",
                         "rlverif c19 harness: recording Hasher, generators; what it does not generate the tie does not see",
                         "modelled, validated differentially rather than verified: ordered-float Ord/Eq/Hash, rust_decimal cmp/normalize/Hash, chrono %Y-%m-%d[ %H:%M:%S] formatting/parsing and date range, core int/bool parsing",
                         "not modelled (oracle only): f64/decimal/vector Display+FromStr, time-zone suffixes other than +00:00",
                     ])


def replay(path):
    d = json.load(open(path))
    r = d.get("replay") or {}
    q = r.get("request")
    print(json.dumps(d, indent=1)[:3000])
    if not q:
        return 0
    vlib.step_cargo(vlib.Check("C19"), ["c19"])
    rc, out = vlib.sh([vlib.harness_bin("c19"), "one"] + q.split(" "))
    print("implementation now answers:", out.strip())
    rc, out2 = vlib.sh([vlib.lean_exe("drv_c19")], stdin=q + "\n")
    print("model answers:            ", out2.strip())
    return 0
