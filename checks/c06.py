"""C06 — column encodings round-trip every value exactly.

 1. translator/gen_consts.py: storage-format constants from /repo source -> lean/RlModel/Gen/Consts.lean
 2. Lean obligations (RlModel.Thm.C06) + driver drv_c06
 3. harness c06 (real column builders / column iterator through the cfg(risinglight_verif) hook)
 4. corpus + generated requests: model_vs_impl (bytes, index entries, read results),
    impl_vs_oracle (model-free: every batch is the slice of the input at the reported row id,
    the concatenation is the input from the start row minus the skipped ranges), model_vs_oracle
 5. decide."""
import json
import os
import re
import sys

import vlib

THEOREMS = [
    "varint_roundtrip", "varint_guard_forced", "varints_roundtrip", "le_roundtrip",
    "shouldFinish_new", "block_roundtrip_plain_of", "block_roundtrip_plain_fixed", "block_roundtrip_nullable", "block_roundtrip_plain_char",
    "block_roundtrip_rle", "block_roundtrip_dict", "block_roundtrip_blob", "column_roundtrip", "column_roundtrip_exact",
    "iter_refines_slice_partial", "iter_refines_slice_scan",
    "nextBatch_specX", "skipBlocks_spec", "skipFake_spec", "skip_spec", "takeWhile_wf", "new_good_at", "full_spec",
    "iter_refines_slice_all", "iter_refines_slice_full", "specFull_batches", "iter_refines_slice_full_holds",
    "nonnullable_null_witness", "nullable_cross_block_regression", "replace_whole_bitmap_loses_rows", "char_embedded_nul_witness", "interval_subday_regression",
    "rle_eq_not_identity_witness", "cut_concat", "cut_blocks_nonempty", "index_exact", "index_covers",
]

KNOWN_REASONS = {
    # reason tag computed by the model / oracle  ->  signature in known_findings/C06.json
    "null-in-nonnullable": "nonnullable:null-reads-default",
    "char-embedded-nul": "char:embedded-nul-truncates",
    "f64-eq-nonidentical": "rle-dict:f64-eq-collapses-bit-patterns",
}
UNMODELLED = ("dec", "ts", "tstz", "vec")


# ------------------------------------------------------------------------------------------------
# request / answer parsing
# ------------------------------------------------------------------------------------------------

def parse_req(line):
    body, _, feat = line.partition(" #")
    t = [x for x in body.split(" ") if x]
    nv = int(t[8])
    vals = t[9:9 + nv]
    no = int(t[9 + nv])
    ops = t[10 + nv:10 + nv + no]
    return {"ty": t[1], "nullable": t[2] == "1", "enc": t[3], "cw": None if t[4] == "-" else int(t[4]),
            "block": int(t[5]), "crc": t[6] == "1", "start": int(t[7]), "vals": vals, "ops": ops,
            "feat": [] if feat.strip() in ("", "-") else feat.strip().split("+"), "line": body}


def parse_ans(line):
    """-> {"build": "ok"|"panic", "col": hex, "idx": [(first,count,off,len)], "outs": [...]}"""
    t = line.strip().split(" ")
    if not t or t[0] == "Bpanic":
        return {"build": "panic", "col": "", "idx": [], "outs": []}
    if t[0] != "B" or len(t) < 4 or t[3] != "R":
        return {"build": "garbled", "col": "", "idx": [], "outs": [], "raw": line[:200]}
    idx = [] if t[2] == "-" else [tuple(int(x) for x in e.split(",")) for e in t[2].split(";")]
    return {"build": "ok", "col": "" if t[1] == "-" else t[1], "idx": idx, "outs": t[4:]}


DEFAULTS = {"dec": "dec:0", "ts": "ts:0", "tstz": "tstz:0", "iv": "iv:0:0:0", "vec": "vec:[]", "bool": "b:false", "i16": "i16:0", "i32": "i32:0", "i64": "i64:0", "f64": "f64:0000000000000000",
            "date": "date:0", "str": "s:", "blob": "blob:"}


# ------------------------------------------------------------------------------------------------
# model-free oracle
# ------------------------------------------------------------------------------------------------

def f64_class(v):
    """OrderedFloat<f64>'s Eq classes: all NaNs equal, -0.0 == 0.0."""
    if not v.startswith("f64:"):
        return v
    bits = int(v[4:], 16)
    if (bits >> 52) & 0x7FF == 0x7FF and bits & ((1 << 52) - 1):
        return "f64:nan"
    if bits & ((1 << 63) - 1) == 0:
        return "f64:zero"
    return v


def norm_null_default(req):
    d = DEFAULTS[req["ty"]]
    return (lambda v: d if v == "null" else v), (lambda v: v)


def norm_char_nul(req):
    def cut(v):
        if v.startswith("s:"):
            h = v[2:]
            for i in range(0, len(h), 2):
                if h[i:i + 2] == "00":
                    return "s:" + h[:i]
        return v
    return cut, (lambda v: v)


def norm_f64(req):
    return f64_class, f64_class


def walk(req, ans, norm=None):
    """The property, checked on one answer without any model: every returned (row_id, batch) is
    the slice of the written values at row_id, row ids are the logical positions implied by the
    ops so far, batches respect the requested size, the scan ends exactly at the end, and the
    index entries partition the rows.  `norm = (on_written, on_read)` value maps (identity when
    None) are used only to attribute a failure to one known mechanism.
    -> (verdict ok|bad|skip, reason, detail, info)"""
    fw, fr = norm if norm else ((lambda v: v), (lambda v: v))
    xs = [fw(v) for v in req["vals"]]
    n = len(xs)
    info = {"crossing": False}
    if req["cw"] is not None and any(v.startswith("s:") and (len(v) - 2) // 2 > req["cw"] for v in req["vals"]):
        # outside the input domain (an item wider than the declared char width): the builder panics
        if ans["build"] == "panic":
            return "skip", "char-too-long", "", info
    if ans["build"] != "ok":
        return "bad", "build-" + ans["build"], "", info
    if n == 0:
        return "skip", "empty", "", info
    bounds = []
    pos = 0
    for (first, count, off, ln) in ans["idx"]:
        if first != pos or count == 0:
            return "bad", "index-inexact", "entry first=%d count=%d but %d rows precede it" % (first, count, pos), info
        pos += count
        bounds.append(pos)
    if pos != n:
        return "bad", "index-inexact", "index covers %d rows of %d" % (pos, n), info
    outs = list(ans["outs"])
    state = {"p": req["start"], "i": 0}

    def take():
        if state["i"] >= len(outs):
            return None
        state["i"] += 1
        return outs[state["i"] - 1]

    def block_end(r):
        for b in bounds:
            if r < b:
                return b
        return n

    def batch(o, limit):
        p = state["p"]
        if o is None:
            return "bad", "missing-output", ""
        if o in ("panic", "err"):
            return "bad", "read-" + o, "at logical row %d" % p
        if o == "none":
            if p < n:
                return "bad", "early-end", "None at row %d of %d" % (p, n)
            return "ok", "", ""
        m = re.match(r"b:(\d+):(.*)$", o)
        if not m:
            return "bad", "unexpected-output", o[:40]
        rid = int(m.group(1))
        vs = [fr(v) for v in m.group(2).split(",")] if m.group(2) != "" else []
        k = len(vs)
        if limit is not None and rid + limit > block_end(rid) and block_end(rid) < n:
            info["crossing"] = True
        if rid != p:
            return "bad", "row-id-inexact", "batch reports row %d, logical position %d" % (rid, p)
        if vs != xs[rid:rid + k]:
            return "bad", "batch-not-slice", "row_id=%d got %s want %s" % (rid, vs[:6], xs[rid:rid + 6])
        if k == 0 or p >= n:
            return "bad", "empty-batch", ""
        if limit is not None and k > limit:
            return "bad", "batch-too-large", "%d > %d" % (k, limit)
        state["p"] = p + k
        return "ok", "", ""

    for op in req["ops"]:
        name, _, arg = op.partition(":")
        if name == "h":
            o = take()
            if o in ("panic", "err", None):
                return "bad", "read-%s" % o, "", info
        elif name == "r":
            o = take()
            if o in ("panic", "err", None):
                return "bad", "read-%s" % o, "", info
            if o.startswith("r:") and state["p"] < n and int(o[2:]) != state["p"]:
                return "bad", "row-id-inexact", "fetch_current_row_id=%s logical=%d" % (o[2:], state["p"]), info
        elif name == "s":
            state["p"] += int(arg)
        elif name == "sh":
            o = take()
            if o is None or not o.startswith("k:"):
                return "bad", "read-%s" % o, "", info
            k = int(o[2:])
            if k > int(arg):
                return "bad", "skip-too-large", "", info
            state["p"] += k
        elif name in ("n", "nh"):
            lim = None if arg == "-" else int(arg)
            v, r, d = batch(take(), lim)
            if v != "ok":
                return v, r, d, info
        elif name == "drain":
            dn, _, da = arg.partition(":")
            lim = None if da == "-" else int(da)
            while True:
                o = take()
                v, r, d = batch(o, lim)
                if v != "ok":
                    return v, r, d, info
                if o == "none":
                    break
    if state["i"] != len(outs):
        return "bad", "extra-output", " ".join(outs[state["i"]:state["i"] + 3])[:80], info
    return "ok", "", "", info


def classify(req, ans, same_as_model):
    """Attributes an oracle failure to known mechanisms using the request itself (what was
    written, how it was read) and the answer's own index — never the model's prediction.
    (A batch spanning two blocks of a plain nullable column used to be one of them,
    `iter:nullable-batch-crosses-block`; repaired in /repo, so such a failure is a violation.)
    -> list of reason tags or None."""
    norms = []
    if not req["nullable"] and "null" in req["vals"]:
        norms.append(("null-in-nonnullable", norm_null_default(req)))
    if req["cw"] is not None and any(v.startswith("s:") and "00" in [v[2:][i:i + 2] for i in range(0, len(v) - 2, 2)] for v in req["vals"]):
        norms.append(("char-embedded-nul", norm_char_nul(req)))
    if req["ty"] == "f64" and req["enc"] in ("rle", "dict"):
        cls = {}
        for v in req["vals"]:
            cls.setdefault(f64_class(v), set()).add(v)
        if any(len(s) > 1 for s in cls.values()):
            norms.append(("f64-eq-nonidentical", norm_f64(req)))
    for tag, nm in norms:
        if walk(req, ans, nm)[0] == "ok":
            return [tag]
    if len(norms) > 1:
        def compose(fs):
            def f(v):
                for g in fs:
                    v = g(v)
                return v
            return f
        nm = (compose([x[1][0] for x in norms]), compose([x[1][1] for x in norms]))
        if walk(req, ans, nm)[0] == "ok":
            return [x[0] for x in norms]
    return None


# ------------------------------------------------------------------------------------------------
# the check
# ------------------------------------------------------------------------------------------------

def corpus_lines():
    d = os.path.join(vlib.VERIF, "corpus", "C06")
    out = []
    if os.path.isdir(d):
        for fn in sorted(os.listdir(d)):
            if fn.endswith(".txt"):
                out += [l for l in open(os.path.join(d, fn)).read().split("\n") if l.startswith("enc ")]
    return out


def run_both(ck, req_path):
    (rc1, impl), (rc2, model) = vlib.run_pair(ck, [vlib.harness_bin("c06"), "run"], [vlib.lean_exe("drv_c06")], req_path)
    return rc1, impl, rc2, model


def decide(ck, reqs, impl, model, cov):
    from collections import Counter
    dist = cov.setdefault("distribution", {})
    c_ty, c_enc, c_blk, c_feat, c_ops, c_blocks, c_out = (Counter() for _ in range(7))
    mvi = {"compared": 0, "disagree": 0}
    ivo = {"compared": 0, "disagree": 0, "known": 0, "skipped": 0}
    mvo = {"compared": 0, "disagree": 0, "known": 0, "skipped": 0}
    distinct = set()
    for k, q in enumerate(reqs):
        req = parse_req(q)
        a_i = impl[k] if k < len(impl) else ""
        a_m = model[k] if k < len(model) else ""
        A_i, A_m = parse_ans(a_i), parse_ans(a_m)
        c_ty[req["ty"] + ("?" if req["nullable"] else "")] += 1
        c_enc[req["enc"]] += 1
        c_blk[req["block"]] += 1
        for f in req["feat"]:
            c_feat[f] += 1
        for op in req["ops"]:
            c_ops[op.split(":")[0]] += 1
        c_blocks[min(len(A_i["idx"]), 20)] += 1
        modelled = req["ty"] not in UNMODELLED
        same = a_i.strip() == a_m.strip() or not modelled
        if modelled:
            mvi["compared"] += 1
        if len(req["vals"]) > 0 and len(A_i["idx"]) >= 2:
            distinct.add(req["line"])
        # --- implementation vs the property itself
        v, r, d, info = walk(req, A_i)
        c_out[v + (":" + r if r else "")] += 1
        if v == "skip":
            ivo["skipped"] += 1
        else:
            ivo["compared"] += 1
        if v == "bad":
            ivo["disagree"] += 1
            tags = classify(req, A_i, same)
            replay = {"request": q, "impl": a_i[:4000], "model": a_m[:4000], "broken_clause": r, "detail": d}
            if tags:
                for t in tags:
                    if ck.report(KNOWN_REASONS[t], "%s: %s (%s)" % (t, r, d[:160]), replay=replay) == "known":
                        ivo["known"] += 1
            else:
                ck.report("oracle:%s/%s%s/%s" % (r, req["enc"], "-nullable" if req["nullable"] else "", req["ty"]),
                          "the implementation breaks the round-trip property (%s): %s" % (r, d[:300]), replay=replay)
        # --- model vs the property (validates the model as a spec carrier)
        vm, rm, dm, _ = walk(req, A_m) if modelled else ("skip", "unmodelled", "", None)
        if vm == "skip":
            mvo["skipped"] += 1
        else:
            mvo["compared"] += 1
            if vm == "bad":
                mvo["disagree"] += 1
                if classify(req, A_m, same):
                    mvo["known"] += 1
        # --- the tie
        if not same:
            mvi["disagree"] += 1
            where = "build" if a_i.split(" R")[0] != a_m.split(" R")[0] else "read"
            found = v == "bad" and not classify(req, A_i, same)
            ck.report("corr:%s/%s%s" % (where, req["enc"], "-nullable" if req["nullable"] else ""),
                      "model and implementation disagree (%s part) on %s" % (where, q[:200]),
                      replay={"request": q, "impl": a_i[:4000], "model": a_m[:4000], "oracle_on_impl": [v, r, d]},
                      found_input=found)
    dist.update({"type(?=nullable)": dict(c_ty), "encode": dict(c_enc), "block_size": {str(k): v for k, v in sorted(c_blk.items())},
                 "injected_features": dict(c_feat), "ops": dict(c_ops), "blocks_per_column(cap20)": {str(k): v for k, v in sorted(c_blocks.items())},
                 "oracle_outcomes_on_impl": dict(c_out)})
    return mvi, ivo, mvo, distinct


def run(ck):
    n_arrays = 2600 if ck.quick() else 36000
    # 1. translator
    rc, out = vlib.sh([sys.executable, os.path.join(vlib.VERIF, "translator", "gen_consts.py")])
    ck.log(out.strip())
    if rc != 0:
        ck.report("translator:consts", "storage-format constants can no longer be extracted from the source: " + out.strip()[-300:],
                  replay={"output": out[-2000:]}, found_input=False)
    # 2. Lean
    bad = vlib.step_lean(ck, "RlModel.Thm.C06", THEOREMS, extra_targets=["drv_c06"])
    rcb, logb = vlib.lake_build(["RlModel.Thm.C06"])
    if rcb != 0 and not bad:
        ck.report("thm:module", "RlModel.Thm.C06 does not build (a tie to the regenerated source constants or an example fails)",
                  replay={"log": logb[-2000:]}, found_input=False)
    # 3. harness
    ok, log = vlib.step_cargo(ck, ["c06"])
    if not ok:
        ck.report("build:harness", "harness does not build against the repository", replay={"log": log[-2000:]}, found_input=False)
        return ck.finish(level="proof")
    # 4. corpus first, then generated
    req_path = os.path.join(ck.work, "req.txt")
    gen_path = os.path.join(ck.work, "gen.txt")
    vlib.sh([vlib.harness_bin("c06"), "gen", str(n_arrays), gen_path])
    corpus = corpus_lines()
    gen_lines = [l for l in open(gen_path).read().split("\n") if l]
    reqs = corpus + gen_lines
    with open(req_path, "w") as f:
        f.write("\n".join(reqs) + "\n")
    ck.log("running %d requests (%d corpus) on implementation and model" % (len(reqs), len(corpus)))
    rc1, impl, rc2, model = run_both(ck, req_path)
    impl = [l for l in impl if l != ""] if len([l for l in impl if l != ""]) == len(reqs) else impl
    model = [l for l in model if l != ""] if len([l for l in model if l != ""]) == len(reqs) else model
    if rc1 != 0 or len(impl) < len(reqs):
        ck.report("run:harness", "harness run failed (rc=%s, %d answers for %d requests)" % (rc1, len(impl), len(reqs)),
                  replay={"tail": "\n".join(impl[-5:])[-2000:]}, found_input=False)
    if rc2 != 0 or len(model) < len(reqs):
        ck.report("run:driver", "Lean driver failed (rc=%s, %d answers for %d requests)" % (rc2, len(model), len(reqs)),
                  replay={"tail": "\n".join(model[-5:])[-2000:]}, found_input=False)
    cov = ck.coverage
    mvi, ivo, mvo, distinct = decide(ck, reqs, impl, model, cov)
    # 5. undischarged obligations: search = the oracle run above (all generated + corpus inputs)
    for name, st in bad.items():
        ck.report("thm:" + name, "theorem %s is not discharged (%s); the model-free oracle found %d unexplained failing input(s) on this run"
                  % (name, st.get("status"), len([v for v in ck.violations if v[0].startswith("oracle:")])),
                  replay={"theorem": name, "status": st}, found_input=False)
    cov.update({
        "evaluations": len(reqs),
        "distinct_nontrivial": len(distinct),
        "rule": "distinct request lines whose column has >= 1 row and was cut into >= 2 blocks by the real builder",
        "samples": [r[:300] for r in gen_lines[:3] + corpus[:2]],
        "model_vs_impl": mvi, "impl_vs_oracle": ivo, "model_vs_oracle": mvo,
        "not_modelled_byte_exact": ["decimal", "timestamp", "vector"],
        "unproved": ["the RLE / dictionary BLOCK iterators are modelled by logical position (run cursor, never_used validated by the correspondence run only)",
                     "block round-trips of decimal / timestamp / vector (no byte model)"],
    })
    return ck.finish(level="proof", checker_cmd="translator/gen_consts.py; lake build RlModel.Thm.C06 drv_c06; #print axioms audit",
                     trusted_base=["Lean 4 kernel (axioms: propext, Classical.choice, Quot.sound)",
                                   "translator/gen_consts.py (regex extraction of constants)",
                                   "harness/src/bin/c06.rs + /repo hook storage::secondary::verif_hooks (thin wrappers over the real builders/iterators)",
                                   "checks/c06.py oracle (slice semantics)",
                                   "RLE/dictionary block iterators are modelled by logical position (their internal run cursor is validated differentially, not proved)"])


def replay(path):
    """Re-executes a stored case on the implementation and on the model and prints both."""
    rp = json.load(open(path))
    q = rp["replay"]["request"] if isinstance(rp.get("replay"), dict) and "request" in rp["replay"] else None
    if q is None:
        print(json.dumps(rp, indent=1)[:4000])
        return 0
    os.makedirs(vlib.WORK, exist_ok=True)
    tmp = os.path.join(vlib.WORK, "replay_c06_%d.txt" % os.getpid())
    open(tmp, "w").write(q + "\n")
    rc1, o1 = vlib.sh([vlib.harness_bin("c06"), "run", tmp])
    rc2, o2 = vlib.sh([vlib.lean_exe("drv_c06")], stdin=q + "\n")
    os.unlink(tmp)
    req = parse_req(q)
    print("request:", q[:2000])
    print("impl   :", o1.strip()[:2000])
    print("model  :", o2.strip()[:2000])
    v, r, d, _ = walk(req, parse_ans(o1.strip()))
    print("oracle on impl:", v, r, d)
    return 0 if v != "bad" else 1
