"""C06 — column encodings round-trip every value exactly.

 1. translator/gen_consts.py: storage-format constants from /repo source -> lean/RlModel/Gen/Consts.lean
 2. Lean obligations (RlModel.Thm.C06) + driver drv_c06
 3. harness c06 (real column builders / column iterator through the cfg(risinglight_verif) hook)
 4. corpus + generated requests: model_vs_impl (bytes, index entries, read results),
    impl_vs_oracle (model-free: every batch is the slice of the input at the reported row id,
    the concatenation is the input from the start row minus the skipped ranges), model_vs_oracle
 5. decide."""
import json
import os
import re
import sys

import vlib

THEOREMS = [
    "varint_roundtrip", "varint_guard_forced", "varints_roundtrip",
    "le_roundtrip", "fixed_roundtrip_i16", "fixed_roundtrip_i32", "fixed_roundtrip_i64",
    "block_roundtrip_plain_fixed", "block_roundtrip_plain_char", "block_roundtrip_plain_blob",
    "block_roundtrip_nullable", "block_roundtrip_rle", "block_roundtrip_dict",
    "char_embedded_nul_witness", "nonnullable_null_witness", "rle_eq_not_identity_witness",
    "cut_concat", "cut_blocks_nonempty", "column_roundtrip", "index_exact", "index_covers",
    "iter_refines_slice", "iter_concat_partial", "nullable_cross_block_witness",
]

KNOWN_REASONS = {
    # reason tag computed by the model / oracle  ->  signature in known_findings/C06.json
    "nullable-batch-crosses-block": "iter:nullable-batch-crosses-block",
    "null-in-nonnullable": "nonnullable:null-reads-default",
    "char-embedded-nul": "char:embedded-nul-truncates",
    "f64-eq-nonidentical": "rle-dict:f64-eq-collapses-bit-patterns",
}


# ------------------------------------------------------------------------------------------------
# request / answer parsing
# ------------------------------------------------------------------------------------------------

def parse_req(line):
    body, _, feat = line.partition(" #")
    t = [x for x in body.split(" ") if x]
    nv = int(t[8])
    vals = t[9:9 + nv]
    no = int(t[9 + nv])
    ops = t[10 + nv:10 + nv + no]
    return {"ty": t[1], "nullable": t[2] == "1", "enc": t[3], "cw": None if t[4] == "-" else int(t[4]),
            "block": int(t[5]), "crc": t[6] == "1", "start": int(t[7]), "vals": vals, "ops": ops,
            "feat": [] if feat.strip() in ("", "-") else feat.strip().split("+"), "line": body}


def parse_ans(line):
    """-> {"build": "ok"|"panic", "col": hex, "idx": [(first,count,off,len)], "outs": [...]}"""
    t = line.strip().split(" ")
    if not t or t[0] == "Bpanic":
        return {"build": "panic", "col": "", "idx": [], "outs": []}
    if t[0] != "B" or len(t) < 4 or t[3] != "R":
        return {"build": "garbled", "col": "", "idx": [], "outs": [], "raw": line[:200]}
    idx = [] if t[2] == "-" else [tuple(int(x) for x in e.split(",")) for e in t[2].split(";")]
    return {"build": "ok", "col": "" if t[1] == "-" else t[1], "idx": idx, "outs": t[4:]}


DEFAULTS = {"bool": "b:false", "i16": "i16:0", "i32": "i32:0", "i64": "i64:0", "f64": "f64:0000000000000000",
            "date": "date:0", "str": "s:", "blob": "blob:"}


def oracle(req, ans):
    """Model-free oracle for one request on one answer (implementation's or model's).
    Returns (verdict, reason, detail): verdict in ok | bad | skip.
    `reason` names the first broken clause of the property."""
    xs = req["vals"]
    n = len(xs)
    if ans["build"] != "ok":
        return "bad", "build-" + ans["build"], ""
    if n == 0:
        return "skip", "empty", ""
    # index exactness: entries partition 0..n, in order, none empty
    pos = 0
    for (first, count, off, ln) in ans["idx"]:
        if first != pos or count == 0:
            return "bad", "index-inexact", "entry first=%d count=%d but %d rows precede it" % (first, count, pos)
        pos += count
    if pos != n:
        return "bad", "index-inexact", "index covers %d rows of %d" % (pos, n)
    got_concat = []
    for o in ans["outs"]:
        if o in ("panic", "err"):
            return "bad", "read-" + o, ""
        if o.startswith("h:") or o.startswith("r:") or o == "none":
            continue
        m = re.match(r"b:(\d+):(.*)$", o)
        rid = int(m.group(1))
        vs = m.group(2).split(",") if m.group(2) != "" else []
        want = xs[rid:rid + len(vs)]
        if vs != want:
            return "bad", "batch-not-slice", "row_id=%d got %s want %s" % (rid, vs[:6], want[:6])
        got_concat.append((rid, len(vs)))
    return "ok", "", got_concat


def walk(req, ans):
    """Full oracle including positions: replays the op list against the outputs.
    -> (verdict, reason, detail)"""
    xs = req["vals"]
    n = len(xs)
    v, r, d = oracle(req, ans)
    if v != "ok":
        return v, r, d
    outs = list(ans["outs"])
    p = req["start"]
    i = 0

    def take():
        nonlocal i
        if i >= len(outs):
            return None
        i += 1
        return outs[i - 1]

    def batch(o, limit):
        nonlocal p
        if o is None:
            return "bad", "missing-output", ""
        if o == "none":
            if p < n:
                return "bad", "early-end", "None at row %d of %d" % (p, n)
            return "ok", "", ""
        m = re.match(r"b:(\d+):(.*)$", o)
        if not m:
            return "bad", "unexpected-output", o[:40]
        rid = int(m.group(1))
        k = len(m.group(2).split(",")) if m.group(2) != "" else 0
        if rid != p:
            return "bad", "row-id-inexact", "batch reports row %d, logical position %d" % (rid, p)
        if k == 0 or p >= n:
            return "bad", "empty-batch", ""
        if limit is not None and k > limit:
            return "bad", "batch-too-large", "%d > %d" % (k, limit)
        p += k
        return "ok", "", ""

    for op in req["ops"]:
        name, _, arg = op.partition(":")
        if name in ("h", "r"):
            take()
        elif name == "s":
            p += int(arg)
        elif name == "sh":
            # skip(min(c, hint)) — the hint is the implementation's; bounded by c
            # logical effect: unknown k <= c; recover it from the next reported row id
            nxt = next((o for o in outs[i:] if o.startswith("b:") or o.startswith("r:")), None)
            if nxt is None:
                p = max(p, n) if any(o == "none" for o in outs[i:]) else p
            else:
                q = int(nxt.split(":")[1])
                if not (p <= q <= p + int(arg)):
                    return "bad", "row-id-inexact", "after skip(<=%s) from %d the iterator is at %d" % (arg, p, q)
                p = q
        elif name in ("n", "nh"):
            lim = None if arg == "-" else int(arg)
            v, r, d = batch(take(), lim)
            if v != "ok":
                return v, r, d
        elif name == "drain":
            dn, _, da = arg.partition(":")
            lim = None if da == "-" else int(da)
            while True:
                o = take()
                v, r, d = batch(o, lim)
                if v != "ok":
                    return v, r, d
                if o == "none":
                    break
            if p < n:
                return "bad", "early-end", "drain stopped at %d of %d" % (p, n)
    return "ok", "", ""


def classify(req, verdict, reason, detail=""):
    """Maps a broken clause on a request to a known-finding reason tag, using only the request's
    own features (what was written / how it was read), never the model."""
    if verdict != "bad":
        return None
    if "null-in-nonnullable" in req["feat"] and reason in ("batch-not-slice",):
        return "null-in-nonnullable"
    if "char-embedded-nul" in req["feat"] and reason == "batch-not-slice":
        return "char-embedded-nul"
    if "f64-eq-nonidentical" in req["feat"] and req["enc"] in ("rle", "dict") and reason == "batch-not-slice":
        return "f64-eq-nonidentical"
    return None
