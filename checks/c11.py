"""C11 — all physical implementations of an operator agree.

1. Lean: theorems of RlModel.Thm.C11 (L2 algorithms vs L1 spec / vs each other) + driver drv_c11.
2. Harness c11: generated cases (tables with explicit chunk boundaries + hand-built plan
   s-expressions join/hashjoin/mergejoin, agg/hashagg/sortagg, topn vs limit(order), each also
   over the same rows re-chunked) executed by the REAL executors through verif_run_plan.
3. Decide:
   model_vs_impl   every plan: rows of the real executor == rows of its L2 model (bags; key
                   sequences for the ordered family);
   impl_vs_oracle  within a case all implementations must return the same answer (this is the
                   property itself, model-free);
   model_vs_oracle the model predicts exactly the disagreements that are observed.
   An observed disagreement whose mechanism the model names (reason tag) is reported under
   that tag as signature (KNOWN-FINDING when listed in known_findings/C11.json); a
   disagreement the model does not explain is a VIOLATION with its own signature.
"""
import json
import os
import subprocess
import vlib

THEOREMS = [
    "c11_builder_flat",
    # nested loop = spec
    "nl_eq_spec_inner", "nl_eq_spec_left_outer", "nl_eq_spec_semi", "nl_eq_spec_anti",
    "nlJoinG_eq_nlJoin", "nlMatchedR_spec", "nlUnmatchedR_spec", "nl_eq_spec_right_outer", "nl_eq_spec_full_outer", "nl_eq_spec",
    "hash_eq_nl_right_outer", "hash_eq_nl_full_outer", "chunking_irrelevant_nljoinG",
    # chunk boundaries
    "chunking_irrelevant_nljoin", "chunking_irrelevant_hashjoin", "chunking_irrelevant_mergejoin",
    "chunking_irrelevant_order", "chunking_irrelevant_topn", "chunking_irrelevant_hashagg",
    "chunking_irrelevant_sortagg", "chunking_irrelevant_semijoin", "chunking_irrelevant_hashsemijoin",
    "chunking_irrelevant_simpleagg_unsound", "chunkpath_rowcount",
    # hash joins, the executors' bodies on given key vectors (NULL keys never match since the fix: commit):
    # characterised without hypothesis, = nested loop / spec under KeysComparable, which raw mixed-width
    # keys do not satisfy
    "hashjoin_perm", "hashjoin_is_joinBag", "joinBag_eq_spec", "hash_eq_spec_partial",
    "hash_eq_nl_inner", "hash_eq_nl_left_outer", "hash_eq_nl_semi", "hash_eq_nl_anti", "hash_semi2_eq_nl",
    "hash_eq_spec_right_outer", "hash_eq_spec_full_outer",
    "keysComparable_null_free", "hash_raw_keys_need_widening",
    # the executors themselves (keys built through join_key since the fix: commit "join keys compare by
    # value"): KeysComparable discharged for all data, = nested loop / spec without hypothesis on the keys
    "widen_keys_comparable", "c11_widen_keys_comparable", "equiOn_wk", "sqlCmp_joinKey", "sorted_widen",
    "hashW_eq_spec", "hashW_eq_nl", "hashW_semi_eq_nl", "hashW_semi2_eq_nl", "mergeW_eq_hashW", "mergeW_eq_spec",
    "mergeW_eq_spec_raw_sorted", "chunking_irrelevant_hashjoinW", "chunking_irrelevant_mergejoinW",
    "hashW_int_width_regression", "mergeW_int_width_regression",
    # regression inputs: the witnesses of the former *_unsound_null_key theorems
    "hashjoin_null_key_regression", "hash_anti_null_key_regression", "mergejoin_null_key_regression",
    # limit / top-N
    "limit_exec_eq_spec", "chunking_irrelevant_limit", "topn_eq_order_limit", "topn_eq_spec",
    # aggregation paths
    "rowpath_eq_spec", "rowpath_sum_eq_spec", "chunkpath_sum_eq_spec", "rowpath_count_distinct_eq_spec",
    "chunkpath_count_distinct_eq_spec", "simpleagg_eq_hashagg_nokeys_sum", "simpleagg_eq_hashagg_nokeys_sum_regression",
    "simpleagg_eq_hashagg_nokeys_first_unsound",
    "simpleagg_is_chunkpath", "sortagg_nokeys_is_rowpath", "maxVal_assoc", "minVal_assoc", "chunkpath_eq_spec",
    "simpleagg_eq_hashagg_nokeys",
    "hashagg_groupwise", "hashagg_eq_spec_partial", "sortagg_one_run", "hashagg_eq_sortagg_one_run",
    # merge join
    "groupByKeys_eq_runs", "groupByKeys_empty_keys", "mergejoin_groups_sorted", "merge_eq_hash_empty_keys_unsound",
    "mergeLoop_perm", "mergejoin_sorted_perm", "merge_eq_hash", "merge_eq_spec",
    "saLoop_runs", "sortagg_runs", "hashagg_eq_sortagg", "hashagg_eq_sortagg_unsorted_unsound",
]

# deviations of the chunk path that depend on where the chunk boundaries are (see
# chunking_irrelevant_simpleagg_unsound)
CHUNK_DEPENDENT = {"agg:first/chunk-path", "agg:last/chunk-path", "agg:scalar-sum-empty"}

# witnesses of the `_unsound` theorems, replayed on the implementation by the corpus file
CORPUS = os.path.join(vlib.VERIF, "corpus", "C11")


def split_rows(s):
    """'(a b)(c d)' -> ['(a b)', '(c d)']"""
    s = s.strip()
    if not s:
        return []
    return [r + ")" for r in s.split(")") if r.strip()]


def parse_answer(cell):
    parts = [p.strip() for p in cell.split(" ; ")]
    parts = cell.split(";")
    status = parts[0].strip()
    rows = split_rows(parts[1]) if len(parts) > 1 else []
    spec = split_rows(parts[2]) if len(parts) > 2 else []
    tags = [t for t in (parts[3].strip().split(",") if len(parts) > 3 else []) if t]
    return status, rows, spec, tags


def canon(rows, compare):
    return rows if compare == "seq" else sorted(rows)


def load(req_path, meta_path, impl_lines, model_lines):
    reqs = [l for l in open(req_path).read().split("\n") if l.strip()]
    meta = [json.loads(l) for l in open(meta_path).read().split("\n") if l.strip()]
    impl = {l.split("\t")[0]: l.split("\t")[1:] for l in impl_lines if l.strip()}
    model = {l.split("\t")[0]: l.split("\t")[1:] for l in model_lines if l.strip()}
    return reqs, meta, impl, model


def base_label(lab):
    return lab.split("@")[0]


def decide(ck, reqs, meta, impl, model, stats, origin="gen"):
    """Compares one batch; reports through ck; updates stats."""
    for q, m in zip(reqs, meta):
        cid = str(m["id"])
        fam, cmpm, labels = m["family"], m["compare"], m["labels"]
        stats["evaluations"] += len(labels)
        stats["families"][fam] = stats["families"].get(fam, 0) + 1
        dkey = fam + ":" + m["detail"].split(" aggs=")[0].split(" keys=$")[0]
        stats["detail"][dkey] = stats["detail"].get(dkey, 0) + 1
        for sizes in m["chunks"]:
            for s in sizes:
                b = "1" if s == 1 else "2-3" if s <= 3 else "4-511" if s < 512 else "512-1022" if s < 1023 else str(s)
                stats["chunk_sizes"][b] = stats["chunk_sizes"].get(b, 0) + 1
        if cid not in impl or cid not in model or len(impl[cid]) != len(labels) or len(model[cid]) != len(labels):
            ck.report("corr:%s/missing-answer" % fam, "case %s: missing answer (impl %s, model %s)" % (
                cid, cid in impl, cid in model), replay={"request": q, "meta": m}, found_input=False)
            continue
        res = []
        for lab, ic, mc in zip(labels, impl[cid], model[cid]):
            ist, irows, _, _ = parse_answer(ic)
            mst, mrows, mspec, mtags = parse_answer(mc)
            # `order-sensitive:<mechanism>`: the plan aggregates on the row path over the output of
            # `order` (sort_unstable_by) and the aggregate depends on the order of ties: the
            # executor's answer is then not a function of the input bag, and the model (stable
            # sort) can not and must not be compared row by row
            sens = [t[len("order-sensitive:"):] for t in mtags if t.startswith("order-sensitive:")]
            res.append({"label": lab, "impl_status": ist.split(" ")[0], "impl_detail": ist, "impl": canon(irows, cmpm),
                        "model_status": mst.split(" ")[0], "model": canon(mrows, cmpm),
                        "spec": canon(mspec, cmpm), "tags": [t for t in mtags if not t.startswith("order-sensitive:")],
                        "sens": sens})
        nontrivial = False
        # ---- model_vs_impl ----------------------------------------------------------------
        for r in res:
            if r["model_status"] == "unsupported":
                stats["unsupported"] += 1
                # the model says the executor does not exist / asserts; the implementation must
                # not return rows either (it panics, or its task dies and the stream ends)
                if r["impl_status"] == "ok" and r["impl"]:
                    stats["model_vs_impl"]["disagree"] += 1
                    ck.report("corr:%s/%s-unsupported" % (fam, base_label(r["label"])),
                              "model says unsupported, implementation returned rows",
                              replay={"request": q, "meta": m, "plan": r}, found_input=False)
                continue
            if r["model_status"] != "ok":
                ck.report("corr:%s/model-error" % fam, "model could not run plan %s: %s" % (r["label"], r["model_status"]),
                          replay={"request": q, "meta": m}, found_input=False)
                continue
            if r["impl"]:
                nontrivial = True
            if r["sens"] and r["impl_status"] == "ok" and len(r["impl"]) == len(r["model"]):
                stats["order_sensitive_skipped"] += 1
                continue
            stats["model_vs_impl"]["compared"] += 1
            if r["impl_status"] != "ok" or r["impl"] != r["model"]:
                stats["model_vs_impl"]["disagree"] += 1
                ck.report("corr:%s/%s" % (fam, base_label(r["label"])),
                          "L2 model and real executor disagree on plan %s of case %s (%s): impl=%s %s model=%s" % (
                              r["label"], cid, m["detail"], r["impl_detail"], r["impl"][:6], r["model"][:6]),
                          replay={"request": q, "meta": m, "plan": r["label"], "impl": r["impl"], "model": r["model"]},
                          found_input=False)
        if nontrivial:
            stats["distinct"].add(q.split(" ", 2)[2])
        # ---- impl_vs_oracle: pairwise agreement of the implementations ---------------------
        live = [r for r in res if r["model_status"] == "ok" and r["impl_status"] == "ok"]
        for i in range(len(live)):
            for j in range(i + 1, len(live)):
                a, b = live[i], live[j]
                # `agg` without keys returns one row on empty input, hashagg none: the property
                # compares them on non-empty input only
                labs = {base_label(a["label"]), base_label(b["label"])}
                if fam == "agg" and "simple" in labs and len(labs) > 1:
                    other = b if base_label(a["label"]) == "simple" else a
                    if not other["spec"]:
                        stats["skipped_empty_input"] += 1
                        continue
                stats["impl_vs_oracle"]["compared"] += 1
                sens = sorted(set(a["sens"]) | set(b["sens"]))
                predicted = a["model"] != b["model"]
                observed = a["impl"] != b["impl"]
                if any(t.startswith("agg:first") or t.startswith("agg:last") for t in sens):
                    # `first`/`last` are order dependent BY DEFINITION; after `order`
                    # (sort_unstable_by) the order of ties is unspecified, so hashagg(X) and
                    # sortagg(order(X)) are not comparable on them: outside the property
                    stats["order_dependent_first_last_skipped"] += 1
                    continue
                if sens:
                    predicted = observed  # tie order decides; the model can not know
                stats["model_vs_oracle"]["compared"] += 1
                if predicted != observed:
                    stats["model_vs_oracle"]["disagree"] += 1
                if not observed:
                    continue
                stats["impl_vs_oracle"]["disagree"] += 1
                # mechanisms that can explain a DIFFERENCE between the two: deviations from the
                # spec that only one of them has (a deviation both share, e.g. COUNT(DISTINCT)
                # counting NULL on both paths, does not make them differ), plus tie-order ones
                tags = []
                if predicted:
                    tags = sorted((set(a["tags"]) ^ set(b["tags"])) | set(sens))
                    if not tags:
                        # both deviate from the spec by the same named mechanisms and still differ
                        # (same operator over two chunkings): only the chunk-dependent ones can
                        # make a difference
                        both = set(a["tags"]) | set(b["tags"])
                        tags = sorted(both & CHUNK_DEPENDENT) or sorted(both)
                what = "%s: %s and %s return different answers (%s)" % (fam, a["label"], b["label"], m["detail"])
                rep = {"request": q, "meta": m, "a": a, "b": b}
                if not tags:
                    ck.report("impl-disagree:%s/%s-vs-%s" % (fam, base_label(a["label"]), base_label(b["label"])), what, replay=rep)
                for t in tags:
                    stats["tags"][t] = stats["tags"].get(t, 0) + 1
                    ck.report(t, what + " [" + t + "]", replay=rep)


def new_stats():
    return {"evaluations": 0, "families": {}, "detail": {}, "chunk_sizes": {}, "unsupported": 0, "skipped_empty_input": 0, "order_sensitive_skipped": 0, "order_dependent_first_last_skipped": 0,
            "model_vs_impl": {"compared": 0, "disagree": 0}, "impl_vs_oracle": {"compared": 0, "disagree": 0},
            "model_vs_oracle": {"compared": 0, "disagree": 0}, "tags": {}, "distinct": set()}


def run_batch(ck, req, meta, stats, origin):
    hb = vlib.harness_bin("c11")
    p1 = subprocess.Popen([hb, "run", req], stdout=subprocess.PIPE, stderr=subprocess.DEVNULL, text=True, env=vlib.ENV)
    with open(req) as f:
        p2 = subprocess.Popen([vlib.lean_exe("drv_c11")], stdin=f, stdout=subprocess.PIPE, stderr=subprocess.DEVNULL, text=True)
        out2 = p2.communicate()[0]
    out1 = p1.communicate()[0]
    reqs, metas, impl, model = load(req, meta, out1.split("\n"), out2.split("\n"))
    decide(ck, reqs, metas, impl, model, stats, origin)
    return reqs


def run(ck):
    n = 520 if ck.quick() else 7000
    bad = vlib.step_lean(ck, "RlModel.Thm.C11", THEOREMS, extra_targets=["drv_c11"])
    ok, log = vlib.step_cargo(ck, ["c11"])
    if not ok:
        ck.report("build:harness", "harness does not build against the repository", replay={"log": log[-2000:]}, found_input=False)
        return ck.finish(level="proof")
    stats = new_stats()
    # corpus first (witnesses of the _unsound theorems and past failures)
    creq, cmeta = os.path.join(CORPUS, "cases.txt"), os.path.join(CORPUS, "cases.meta.jsonl")
    if os.path.exists(creq):
        ck.log("corpus: %s" % creq)
        run_batch(ck, creq, cmeta, stats, "corpus")
    corpus_evals = stats["evaluations"]
    req, meta = os.path.join(ck.work, "req.txt"), os.path.join(ck.work, "meta.jsonl")
    vlib.sh([vlib.harness_bin("c11"), "gen", str(n), req, meta])
    ck.log("generated %d cases (seed %s)" % (n, ck.seed))
    reqs = run_batch(ck, req, meta, stats, "gen")
    # a theorem that no longer checks: the correspondence run above is the search for a failing
    # input; if it found none the obligation is reported without one
    for name, st in bad.items():
        ck.report("thm:" + name, "theorem %s is not discharged (%s)" % (name, st.get("status")),
                  replay={"theorem": name, "status": st, "searched": "corpus + %d generated cases, no implementation disagreement outside known findings" % n},
                  found_input=False)
    ck.coverage.update({
        "evaluations": stats["evaluations"],
        "distinct_nontrivial": len(stats["distinct"]),
        "rule": "one evaluation = one plan executed on the real executors and on the model; distinct_nontrivial = distinct (tables, plans) cases in which at least one implementation returned a row",
        "samples": [r[:400] for r in reqs[:3]],
        "model_vs_impl": stats["model_vs_impl"],
        "impl_vs_oracle": stats["impl_vs_oracle"],
        "model_vs_oracle": stats["model_vs_oracle"],
        "distribution": {"families": stats["families"], "shapes": dict(sorted(stats["detail"].items())[:80]),
                         "table_chunk_sizes": stats["chunk_sizes"], "unsupported_plans": stats["unsupported"],
                         "simple_vs_hash_skipped_on_empty_input": stats["skipped_empty_input"],
                         "reason_tags_seen": stats["tags"], "first_last_after_unstable_sort_pairs_not_compared": stats["order_dependent_first_last_skipped"], "order_sensitive_plans_not_compared_with_model": stats["order_sensitive_skipped"], "corpus_evaluations": corpus_evals},
    })
    return ck.finish(level="proof", trusted_base=[
        "Lean 4 kernel (theorems about Model.Exec / Model.Rel)",
        "Model.ExecPlan plan interpreter and the c11 harness/generator (glue, validated by the differential run only)",
        "expression evaluation is row-wise in the model (vectorised kernels are C14's subject)",
        "hash-map iteration order and sort tie order are never observed (bags / key projections)",
    ])


def replay(path):
    d = json.load(open(path))
    rep = d.get("replay", {})
    q = rep.get("request")
    if not q:
        print(json.dumps(d, indent=1))
        return 0
    work = os.path.join(vlib.WORK, "C11-replay-%d" % os.getpid())
    os.makedirs(work, exist_ok=True)
    p = os.path.join(work, "req.txt")
    open(p, "w").write(q + "\n")
    rc, out = vlib.sh([vlib.harness_bin("c11"), "run", p])
    print("implementation:", out.strip())
    rc, out = vlib.sh([vlib.lean_exe("drv_c11")], stdin=q + "\n")
    print("model:", out.strip())
    return 0
