"""C07 — Deletes are exact and permanent; compaction is invisible.

1. Lean: theorems of RlModel.Thm.C07 (+ driver drv_c07).
2. Harness c07 built from /repo's working tree (hooks on).
3. Witness histories (the Lean `…_unsound` / reason-tag witnesses, replayed on the real engine),
   corpus, then generated histories over {create, insert, delete, compact, vacuum, reopen} x layout
   options: model vs implementation (bags, DELETE counts, manifest, snapshot, DV contents, physical
   positions), implementation vs the model-free multiset oracle, model's spec vs the oracle.
"""
import glob
import json
import os

import vlib
from checks import storegen as sg

PROP = "C07"
THEOREMS = [
    "handler_roundtrip", "handler_roundtrip_full_unsound",
    "dv_apply_spec", "scan_any_batching", "delete_exact_rowset",
    "compaction_output_perm", "compaction_keeps_key_order", "keyLe_totalPreorder", "compaction_keeps_key_order_keyLe",
    "delete_exact", "compaction_invisible", "vacuum_invisible", "history_exact",
    "deleted_never_reappears", "survivor_never_lost",
    "history_refines_spec", "statement_outcome_exact",
]
WEIGHTS = {"insert": 36, "delete": 26, "compact": 16, "vacuum": 5, "reopen": 9, "create": 8, "drop": 0,
           "view": 0, "index": 0}


def witnesses():
    """Histories that exhibit, on the implementation, what the model says goes wrong."""
    d = sg.TableDef("t0", [("a", "INT", False, False)])

    def ins(rows):
        return {"k": "insert", "table": "t0", "rows": [(r,) for r in rows], "def": d,
                "sql": "insert into t0 values " + ", ".join("(%d)" % r for r in rows)}

    w1 = [{"k": "create", "def": d, "sql": d.sql()}, ins([1, 2]), ins([3]),
          {"k": "delete", "table": "t0", "pred": ("true",), "def": d, "sql": "delete from t0"},
          {"k": "compact"}, {"k": "reopen"}, {"k": "reopen"}, ins([5, 6]), ins([7])]
    # former finding reopen:rowset-id-reissued-under-stale-dv (fixed by repository commit 5071ff5):
    # kept as a regression history, it must simply agree with the model and the oracle now
    return [sg.make_hist(900001, (4096, 128, 1, 1), ["t0", "t1", "t2"], w1)]


def boundary_delete(g, d, live, batches):
    """DELETE by key range whose bound c is the SMALLEST or LARGEST key of one INSERT's batch (= of a row-set
    while it is not compacted; the generator knows the inserts), or c - 1 / c + 1: `<= c`, `= c`, `< c`, `>= c`,
    `> c`, BETWEEN with both ends on boundaries.  Inclusive vs exclusive bounds at row-set boundaries."""
    r = g.r
    bounds = []
    for b in batches:
        ks = [k for k in b if k in live]
        if ks:
            bounds += [min(ks), max(ks)]
    if not bounds:
        bounds = [0]

    def pick():
        return r.choice(bounds) + r.choice([0, 0, 0, 1, -1])
    c = pick()
    form = r.random()
    if form < 0.3:
        p, sql = ("cmp", 0, "le", c), "delete from t0 where a <= %d" % c
    elif form < 0.45:
        p, sql = ("cmp", 0, "eq", c), "delete from t0 where a = %d" % c
    elif form < 0.55:
        p, sql = ("cmp", 0, "lt", c), "delete from t0 where a < %d" % c
    elif form < 0.65:
        p, sql = ("cmp", 0, "ge", c), "delete from t0 where a >= %d" % c
    elif form < 0.75:
        p, sql = ("cmp", 0, "gt", c), "delete from t0 where a > %d" % c
    else:
        lo, hi = sorted([c, pick()])
        p = ("and", ("cmp", 0, "ge", lo), ("cmp", 0, "le", hi))
        sql = ("delete from t0 where a between %d and %d" if r.random() < 0.5 else "delete from t0 where a >= %d and a <= %d") % (lo, hi)
    g.count("delete-at-rowset-boundary")

    def holds(q, k):
        if q[0] == "and":
            return holds(q[1], k) and holds(q[2], k)
        return {"ge": k >= q[3], "gt": k > q[3], "lt": k < q[3], "le": k <= q[3], "eq": k == q[3]}[q[2]]
    for k in [k for k in live if holds(p, k)]:
        live.discard(k)
    return {"k": "delete", "table": "t0", "pred": p, "def": d, "sql": sql}


def gen_keydel_hist(g, hid, big=False):
    """DELETE exactness x key-range scan: a keyed table (INT primary key in column 0, unique keys,
    C13's hypotheses) whose row-sets span SEVERAL blocks (small block sizes, or one big INSERT), and
    DELETEs whose predicate is a range on the key - the planner pushes the bound into the scan, which
    then SEEKS into the row-set while carrying the row-handler column.  The bounds lie anywhere in the
    key space, mostly beyond the first blocks.  The reported count and the table afterwards must be
    the model's / the oracle's."""
    r = g.r
    d = sg.TableDef("t0", [("a", "INT", True, True), ("b", "INT", False, False)])
    if big:
        opts = (256 << 20, 16384, r.choice([0, 1]), 1)
        sizes = [9000, 12500]
    else:
        opts = (r.choice([256 << 20, 1 << 20, 16384, 4096]), r.choice([32, 64, 128, 128, 1024]), r.choice([0, 1]), r.choice([1, 1, 0]))
        sizes = [300, 600, 700, 1100]
    g.count("keydel:block=%d" % opts[1])
    steps = [{"k": "create", "def": d, "sql": d.sql()}]
    live = set()
    batches = []
    nxt = [0]

    def ins(n, dense):
        ks = []
        while len(ks) < n:
            # dense: consecutive keys (a row-set = one key interval); sparse: keys interleave with the other row-sets
            k = nxt[0] if dense else r.randrange(-2000, 40000)
            nxt[0] += 1 if dense else 0
            if k not in live and k not in ks:
                ks.append(k)
        if dense:
            nxt[0] = max(nxt[0], max(ks) + 1)
        r.shuffle(ks)
        live.update(ks)
        batches.append(list(ks))
        rows = [(k, g.gen_val("INT", False)) for k in ks]
        sql = "insert into t0 values %s" % ", ".join("(%s, %s)" % (sg.sql_lit(a, "INT"), sg.sql_lit(b, "INT")) for a, b in rows)
        return {"k": "insert", "table": "t0", "rows": rows, "def": d, "sql": sql}

    def dele():
        if r.random() < 0.35:
            return boundary_delete(g, d, live, batches)
        keys = sorted(live) or [0]
        # bound positions: mostly past the first blocks, up to and past the end
        pos = r.choice([0.3, 0.45, 0.55, 0.6, 0.75, 0.9, 0.98, r.random()])
        c = keys[min(len(keys) - 1, int(pos * len(keys)))] + r.choice([0, 0, 1])
        form = r.random()
        if form < 0.45:
            op = r.choice(["ge", "gt"])
            p = ("cmp", 0, op, c)
            sql = "delete from t0 where a %s %d" % (sg.OPS[op], c)
        elif form < 0.85:
            hi = c + r.choice([1, 5, 40, 300, 5000])
            lo_op, hi_op = r.choice(["gt", "ge"]), r.choice(["lt", "le"])
            p = ("and", ("cmp", 0, lo_op, c), ("cmp", 0, hi_op, hi))
            sql = "delete from t0 where a %s %d and a %s %d" % (sg.OPS[lo_op], c, sg.OPS[hi_op], hi)
        elif form < 0.93:
            p = ("cmp", 0, "eq", c)
            sql = "delete from t0 where a = %d" % c
        else:
            op = r.choice(["lt", "le"])
            p = ("cmp", 0, op, c)
            sql = "delete from t0 where a %s %d" % (sg.OPS[op], c)
        g.count("keydel:delete-by-key-range")

        def holds(q, k):
            if q[0] == "and":
                return holds(q[1], k) and holds(q[2], k)
            return {"ge": k >= q[3], "gt": k > q[3], "lt": k < q[3], "le": k <= q[3], "eq": k == q[3]}[q[2]]
        for k in [k for k in live if holds(p, k)]:
            live.discard(k)
        return {"k": "delete", "table": "t0", "pred": p, "def": d, "sql": sql}

    steps.append(ins(r.choice(sizes), r.random() < 0.5))
    for _ in range(r.choice([0, 0, 1, 2]) if not big else 0):
        steps.append(ins(r.choice([40, 300, 600]), r.random() < 0.5))
    steps.append(dele())
    for _ in range(r.randint(2, 6) if not big else 2):
        x = r.random()
        if x < 0.5:
            steps.append(dele())
        elif x < 0.65:
            steps.append(ins(r.choice([40, 300, 600]), r.random() < 0.5))
        elif x < 0.8:
            steps.append({"k": "compact"})
        elif x < 0.9:
            steps.append({"k": "reopen"})
        else:
            steps.append({"k": "vacuum"})
    return sg.make_hist(hid, opts, ["t0", "t1", "t2"], steps)


def gen_keyorder_hist(g, hid):
    """Key order of the ordered scan x merge of row-sets: a table WITH a primary key whose INSERTs make
    3 to 6 row-sets with irregular, overlapping key ranges (the pattern {1,4},{3},{2} and random ones,
    not round-robin); after EVERY step the harness reads `select pk from t order by pk` (`kseq`), which
    must be the sorted keys; then a forced compaction over the row-sets (the merge is written into a
    new row-set), key-range DELETEs (counts), reopen, more inserts, on several block / row-set sizes."""
    r = g.r
    d = sg.TableDef("t0", [("a", "INT", True, True), ("b", "INT", False, False)])
    opts = (r.choice([256 << 20, 1 << 20, 16384, 4096, 512]), r.choice([32, 64, 128, 1024, 16384]), r.choice([0, 1]), r.choice([1, 1, 0]))
    g.count("keyorder:rowset=%d" % opts[0])
    steps = [{"k": "create", "def": d, "sql": d.sql()}]
    live = set()

    batches = []

    def ins(ks):
        ks = [k for k in ks if k not in live]
        if not ks:
            ks = [max(live) + 1 if live else 0]
        live.update(ks)
        batches.append(list(ks))
        rows = [(k, g.gen_val("INT", False)) for k in ks]
        sql = "insert into t0 values %s" % ", ".join("(%s, %s)" % (sg.sql_lit(a, "INT"), sg.sql_lit(b, "INT")) for a, b in rows)
        return {"k": "insert", "table": "t0", "rows": rows, "def": d, "sql": sql}

    def irregular(nsets):
        """key sets with irregular, overlapping ranges"""
        form = r.random()
        if form < 0.25:
            # the minimal pattern {1,4},{3},{2} (the second / third input is the smaller child), scaled and shifted
            m, o = r.choice([1, 1, 10, 100]), r.choice([0, 0, 7, 1000])
            base = [[1, 4], [3], [2]] if r.random() < 0.5 else [[1, 5, 6], [4, 8], [2, 3, 7]]
            sets = [[o + m * k for k in ks] for ks in base]
            while len(sets) < nsets:
                sets.append([o + m * r.choice([0, 9, 10, 11]) + len(sets)])
            return sets
        n = r.choice([12, 40, 150, 600])
        keys = r.sample(range(-50, 4 * n), n)
        # irregular assignment: runs of random length go to a random set (never round-robin)
        sets = [[] for _ in range(nsets)]
        keys.sort()
        j = 0
        while j < len(keys):
            run = r.choice([1, 1, 2, 3, 7, 20])
            sets[r.randrange(nsets)].extend(keys[j:j + run])
            j += run
        for x in sets:
            if not x:
                x.append(keys.pop(r.randrange(len(keys))) + 100000 + len(x))
            r.shuffle(x)
        return sets

    def dele():
        if r.random() < 0.6:
            return boundary_delete(g, d, live, batches)
        keys = sorted(live) or [0]
        c = keys[int(r.random() * len(keys))] + r.choice([0, 0, 1])
        form = r.random()
        if form < 0.5:
            op = r.choice(["ge", "gt", "lt", "le"])
            p = ("cmp", 0, op, c)
            sql = "delete from t0 where a %s %d" % (sg.OPS[op], c)
        else:
            hi = c + r.choice([1, 3, 20, 200])
            p = ("and", ("cmp", 0, "ge", c), ("cmp", 0, "lt", hi))
            sql = "delete from t0 where a >= %d and a < %d" % (c, hi)

        def holds(q, k):
            if q[0] == "and":
                return holds(q[1], k) and holds(q[2], k)
            return {"ge": k >= q[3], "gt": k > q[3], "lt": k < q[3], "le": k <= q[3]}[q[2]]
        for k in [k for k in live if holds(p, k)]:
            live.discard(k)
        g.count("keyorder:delete-by-key-range")
        return {"k": "delete", "table": "t0", "pred": p, "def": d, "sql": sql}

    nsets = r.choice([3, 3, 4, 5, 6])
    g.count("keyorder:rowsets=%d" % nsets)
    for ks in irregular(nsets):
        steps.append(ins(ks))
    # mostly: DELETEs while the row-sets are still apart (bounds on their smallest / largest keys), so the
    # merge then also runs over delete vectors
    for _ in range(r.choice([0, 1, 1, 2, 3])):
        steps.append(dele())
    if r.random() < 0.3:
        steps.append({"k": "reopen"})
        steps.append(dele())
    steps.append({"k": "compact"})
    for _ in range(r.randint(2, 5)):
        x = r.random()
        if x < 0.4:
            steps.append(dele())
        elif x < 0.55:
            steps.append({"k": "reopen"})
        elif x < 0.85:
            for ks in irregular(r.choice([1, 2, 3])):
                steps.append(ins(ks))
        else:
            steps.append({"k": "compact"})
    return sg.make_hist(hid, opts, ["t0", "t1", "t2"], steps)


def load_corpus():
    out = []
    for p in sorted(glob.glob(os.path.join(vlib.VERIF, "corpus", PROP, "*.json"))):
        j = json.load(open(p))
        out.append(sg.hist_from_json(j, hid=800000 + len(out)))
    return out


def run(ck):
    n = 80 if ck.quick() else 2000
    bad = vlib.step_lean(ck, "RlModel.Thm.C07", THEOREMS, extra_targets=["drv_c07"])
    ok, log = vlib.step_cargo(ck, ["c07"])
    if not ok:
        ck.report("build:harness", "harness does not build against the repository", replay={"log": log[-2000:]}, found_input=False)
        return ck.finish(level="proof")
    g = sg.Gen(ck.seed * 7919 + 7, "c07")
    hists = []
    for i in range(n):
        if i % 4 == 0:
            # every fourth history: keyed table, 3-6 row-sets with irregular overlapping key ranges,
            # ordered scan after every step, compaction over them, key-range deletes, reopen
            hists.append(gen_keyorder_hist(g, i))
        elif i % 4 == 2:
            # every fourth history: DELETE by key range over multi-block keyed row-sets (one in ten of
            # those with a > 8200-row INSERT and 16 KiB blocks)
            hists.append(gen_keydel_hist(g, i, big=(i % 40 == 2)))
        else:
            hists.append(g.history(i, weights=WEIGHTS, bulk=(i % 8 == 1)))
    fixed = witnesses() + load_corpus()
    totals, samples = {}, []
    ck.log("running %d witness/corpus histories and %d generated histories" % (len(fixed), len(hists)))
    impl, model, ann, errs = sg.run_hists(ck.work, vlib.harness_bin("c07"), vlib.lean_exe("drv_c07"), fixed + hists, "c07", shards=12)
    if errs:
        ck.report("harness:crash", "the harness process failed: %s" % errs[0][1][-400:], replay={"stderr": errs[0][1]}, found_input=False)
    sg.evaluate(ck, fixed + hists, impl, model, totals, samples)
    # an undischarged theorem: the search for a failing input is the oracle run above
    found_any = any(v[3] for v in ck.violations)
    for name, st in bad.items():
        ck.report("thm:" + name, "theorem %s is not discharged: %s" % (name, st.get("status")),
                  replay={"theorem": name, "status": st}, found_input=False if not found_any else False)
    distinct = len(totals.get("distinct", ()))
    ck.coverage.update({
        "evaluations": len(hists) + len(fixed),
        "steps": totals.get("steps", 0),
        "distinct_nontrivial": distinct,
        "rule": "generated histories over create/insert/delete/compact/vacuum/reopen x storage options; after EVERY step the ordered scan `select pk from t order by pk` of every keyed table must return the keys in key order (with the bag equality: the sorted keys); every fourth history is a keyed table built from 3-6 INSERTs with irregular overlapping key ranges (incl. {1,4},{3},{2}), compacted, then key-range DELETEs / reopen; every fourth history is a keyed table (INT primary key) with row-sets of several blocks and DELETEs by KEY RANGE (pushed-down bound: the DELETE's scan seeks into the row-set carrying the row-handler column), count and contents compared with model and oracle; non-trivial = some table reached >= 2 row-sets AND a DELETE removed >= 1 row; distinct = distinct request lines",
        "samples": samples,
        "model_vs_impl": {"compared": totals.get("mi", 0), "disagree": totals.get("mi_bad", 0)},
        "impl_vs_oracle": {"compared": totals.get("io", 0), "disagree": totals.get("io_bad", 0)},
        "model_vs_oracle": {"compared": totals.get("mo", 0), "disagree": totals.get("mo_bad", 0)},
        "distribution": dict(g.dist, compaction_merges=totals.get("merges", 0), reopens=totals.get("reopens", 0),
                             max_rowsets_per_table=totals.get("max_rowsets", 0),
                             ordered_scans_of_keyed_tables_checked=totals.get("kseq_checked", 0)),
        "witnesses_replayed": [h["expect_sig"] for h in fixed if h.get("expect_sig")],
    })
    return ck.finish(level="proof", trusted_base=[
        "Lean 4 kernel", "rlverif c07 harness + checks/storegen.py (generator, canonicalisation, multiset oracle)",
        "model Model/Store.lean is tied to src/storage/secondary by this differential run only",
        "row-set file encodings (C06), checksum (C18), scan order / range filters (C12/C13) are other properties"])


def replay(path):
    j = json.load(open(path))
    rp = j.get("replay") or {}
    if "history" not in rp:
        print(json.dumps(j, indent=1)[:4000])
        return 0
    h = sg.hist_from_json(rp["history"], hid=1)
    work = os.path.join(vlib.WORK, "C07-replay-%d" % os.getpid())
    os.makedirs(work, exist_ok=True)
    impl, model, ann, errs = sg.run_hists(work, vlib.harness_bin("c07"), vlib.lean_exe("drv_c07"), [h], "rp", shards=1)
    for k, s in enumerate(h["steps"]):
        key = "H1.%d" % k
        print("step %d: %s" % (k, s.get("sql", s["k"])[:200]))
        print("   impl : %s" % {a: b[:200] for a, b in (impl.get(key) or {}).items() if a in ("out", "tabs", "msg")})
        print("   model: %s" % {a: b[:200] for a, b in (model.get(key) or {}).items() if a in ("out", "tabs", "spec", "tag")})
    import shutil
    shutil.rmtree(work, ignore_errors=True)
    return 0
