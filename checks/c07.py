"""C07 — Deletes are exact and permanent; compaction is invisible.

1. Lean: theorems of RlModel.Thm.C07 (+ driver drv_c07).
2. Harness c07 built from /repo's working tree (hooks on).
3. Witness histories (the Lean `…_unsound` / reason-tag witnesses, replayed on the real engine),
   corpus, then generated histories over {create, insert, delete, compact, vacuum, reopen} x layout
   options: model vs implementation (bags, DELETE counts, manifest, snapshot, DV contents, physical
   positions), implementation vs the model-free multiset oracle, model's spec vs the oracle.
"""
import glob
import json
import os

import vlib
from checks import storegen as sg

PROP = "C07"
THEOREMS = [
    "handler_roundtrip", "handler_roundtrip_full_unsound",
    "dv_apply_spec", "scan_any_batching", "delete_exact_rowset",
    "compaction_output_perm", "compaction_keeps_key_order",
]
WEIGHTS = {"insert": 36, "delete": 26, "compact": 16, "vacuum": 5, "reopen": 9, "create": 8, "drop": 0,
           "view": 0, "index": 0}


def witnesses():
    """Histories that exhibit, on the implementation, what the model says goes wrong."""
    d = sg.TableDef("t0", [("a", "INT", False, False)])

    def ins(rows):
        return {"k": "insert", "table": "t0", "rows": [(r,) for r in rows], "def": d,
                "sql": "insert into t0 values " + ", ".join("(%d)" % r for r in rows)}

    w1 = [{"k": "create", "def": d, "sql": d.sql()}, ins([1, 2]), ins([3]),
          {"k": "delete", "table": "t0", "pred": ("true",), "def": d, "sql": "delete from t0"},
          {"k": "compact"}, {"k": "reopen"}, {"k": "reopen"}, ins([5, 6]), ins([7])]
    return [sg.make_hist(900001, (4096, 128, 1, 1), ["t0", "t1", "t2"], w1,
                         expect_sig="reopen:rowset-id-reissued-under-stale-dv")]


def load_corpus():
    out = []
    for p in sorted(glob.glob(os.path.join(vlib.VERIF, "corpus", PROP, "*.json"))):
        j = json.load(open(p))
        out.append(sg.hist_from_json(j, hid=800000 + len(out)))
    return out


def replay_obj(h, k, impl, model):
    key = "H%d.%d" % (h["id"], k)
    return {"history": sg.hist_to_json(h), "line": h["line"], "step": k,
            "sql_so_far": [s.get("sql", s["k"]) for s in h["steps"][:k + 1]],
            "impl": impl.get(key), "model": model.get(key)}


def evaluate(ck, hists, impl, model, totals, samples):
    for h in hists:
        cnt, ev, stats, tags = sg.compare_hist(h, impl, model)
        for a in cnt:
            totals[a] = totals.get(a, 0) + cnt[a]
        nontriv = stats["max_rowsets"] >= 2 and stats["deleted_rows"] >= 1
        totals["nontrivial"] = totals.get("nontrivial", 0) + (1 if nontriv else 0)
        for a in ("merges", "reopens"):
            totals[a] = totals.get(a, 0) + stats[a]
        totals["max_rowsets"] = max(totals.get("max_rowsets", 0), stats["max_rowsets"])
        if nontriv:
            totals.setdefault("distinct", set()).add(h["line"])
        if len(samples) < 3 and nontriv:
            samples.append([s.get("sql", s["k"])[:160] for s in h["steps"]])
        seen_sig = None
        for e in ev:
            if e[0] == "prop":
                _, k, what, got, exp, tg = e
                sig = sg.sig_of_tags(tg)
                step_kind = h["steps"][k]["k"]
                m = model.get("H%d.%d" % (h["id"], k), {})
                predicted = ("tabs" in m and sg.canon_tabs(m["tabs"]) == got) or (m.get("out") == got)
                if sig and predicted:
                    ck.report(sig, "%s: implementation has %s, a plain multiset of the acknowledged statements has %s "
                              "(model reproduces the implementation; reason %s)" % (what, got[:160], exp[:160], ",".join(tg)),
                              replay=replay_obj(h, k, impl, model))
                    seen_sig = sig
                else:
                    ck.report("impl:%s:%s" % (step_kind, what.split(" ")[0]),
                              "%s: implementation %s, expected %s" % (what, got[:200], exp[:200]),
                              replay=replay_obj(h, k, impl, model))
            elif e[0] == "corr":
                _, k, field, a, b = e
                # a disagreement that is also a property failure is reported by the "prop" event
                if any(x[0] == "prop" and x[1] == k for x in ev) and sg.sig_of_tags(tags) is None:
                    continue
                found = any(x[0] == "prop" for x in ev)
                ck.report("corr:%s:%s" % (h["steps"][k]["k"], field),
                          "model and implementation disagree on `%s` after step %d (%s): impl=%s model=%s" % (
                              field, k, h["steps"][k].get("sql", h["steps"][k]["k"])[:100], str(a)[:200], str(b)[:200]),
                          replay=replay_obj(h, k, impl, model), found_input=found)
            elif e[0] == "spec":
                _, k, field, a, b = e
                ck.report("spec:model-vs-oracle", "the Lean specification and the python multiset oracle disagree at step %d: %s vs %s" % (k, a, b),
                          replay=replay_obj(h, k, impl, model), found_input=False)
        if h.get("expect_sig") and seen_sig != h["expect_sig"]:
            ck.report("witness:%s" % h["expect_sig"],
                      "the recorded defect %s no longer reproduces on the implementation (repaired? then move it to `fixed`)" % h["expect_sig"],
                      replay={"history": sg.hist_to_json(h)}, found_input=False)
            # not a property violation by itself: tell the reader, do not fail the check
            ck.violations = [v for v in ck.violations if v[0] != "witness:%s" % h["expect_sig"]]
            ck.notes.append("witness for %s did not reproduce" % h["expect_sig"])
            totals.setdefault("witness_not_reproduced", []).append(h["expect_sig"])


def run(ck):
    n = 80 if ck.quick() else 2000
    bad = vlib.step_lean(ck, "RlModel.Thm.C07", THEOREMS, extra_targets=["drv_c07"])
    ok, log = vlib.step_cargo(ck, ["c07"])
    if not ok:
        ck.report("build:harness", "harness does not build against the repository", replay={"log": log[-2000:]}, found_input=False)
        return ck.finish(level="proof")
    g = sg.Gen(ck.seed * 7919 + 7, "c07")
    hists = [g.history(i, weights=WEIGHTS, bulk=(i % 8 == 0)) for i in range(n)]
    fixed = witnesses() + load_corpus()
    totals, samples = {}, []
    ck.log("running %d witness/corpus histories and %d generated histories" % (len(fixed), len(hists)))
    impl, model, ann, errs = sg.run_hists(ck.work, vlib.harness_bin("c07"), vlib.lean_exe("drv_c07"), fixed + hists, "c07", shards=12)
    if errs:
        ck.report("harness:crash", "the harness process failed: %s" % errs[0][1][-400:], replay={"stderr": errs[0][1]}, found_input=False)
    evaluate(ck, fixed + hists, impl, model, totals, samples)
    # an undischarged theorem: the search for a failing input is the oracle run above
    found_any = any(v[3] for v in ck.violations)
    for name, st in bad.items():
        ck.report("thm:" + name, "theorem %s is not discharged: %s" % (name, st.get("status")),
                  replay={"theorem": name, "status": st}, found_input=False if not found_any else False)
    distinct = len(totals.get("distinct", ()))
    ck.coverage.update({
        "evaluations": len(hists) + len(fixed),
        "steps": totals.get("steps", 0),
        "distinct_nontrivial": distinct,
        "rule": "generated histories over create/insert/delete/compact/vacuum/reopen x storage options; non-trivial = some table reached >= 2 row-sets AND a DELETE removed >= 1 row; distinct = distinct request lines",
        "samples": samples,
        "model_vs_impl": {"compared": totals.get("mi", 0), "disagree": totals.get("mi_bad", 0)},
        "impl_vs_oracle": {"compared": totals.get("io", 0), "disagree": totals.get("io_bad", 0)},
        "model_vs_oracle": {"compared": totals.get("mo", 0), "disagree": totals.get("mo_bad", 0)},
        "distribution": dict(g.dist, compaction_merges=totals.get("merges", 0), reopens=totals.get("reopens", 0),
                             max_rowsets_per_table=totals.get("max_rowsets", 0)),
        "witnesses_replayed": [h["expect_sig"] for h in fixed if h.get("expect_sig")],
    })
    return ck.finish(level="proof", trusted_base=[
        "Lean 4 kernel", "rlverif c07 harness + checks/storegen.py (generator, canonicalisation, multiset oracle)",
        "model Model/Store.lean is tied to src/storage/secondary by this differential run only",
        "row-set file encodings (C06), checksum (C18), scan order / range filters (C12/C13) are other properties"])


def replay(path):
    j = json.load(open(path))
    rp = j.get("replay") or {}
    if "history" not in rp:
        print(json.dumps(j, indent=1)[:4000])
        return 0
    h = sg.hist_from_json(rp["history"], hid=1)
    work = os.path.join(vlib.WORK, "C07-replay-%d" % os.getpid())
    os.makedirs(work, exist_ok=True)
    impl, model, ann, errs = sg.run_hists(work, vlib.harness_bin("c07"), vlib.lean_exe("drv_c07"), [h], "rp", shards=1)
    for k, s in enumerate(h["steps"]):
        key = "H1.%d" % k
        print("step %d: %s" % (k, s.get("sql", s["k"])[:200]))
        print("   impl : %s" % {a: b[:200] for a, b in (impl.get(key) or {}).items() if a in ("out", "tabs", "msg")})
        print("   model: %s" % {a: b[:200] for a, b in (model.get(key) or {}).items() if a in ("out", "tabs", "spec", "tag")})
    import shutil
    shutil.rmtree(work, ignore_errors=True)
    return 0
