"""C08 — readers see a stable snapshot and their files are never removed.

Also the library shared by the three schedule properties C08 C09 C10 (parsing of the harness
traces, step-by-step comparison with the Lean model's replay, the model-free oracles)."""
import itertools
import json
import os
import re
import vlib

THEOREMS = [
    # kernel invariant: every kernel operation preserves it (Lemmas/StoreConc.lean)
    "SC.kinv_init", "SC.kinv_pin", "SC.kinv_unpin", "SC.kinv_reserve", "SC.kinv_commitA",
    "SC.kinv_commitAPanic", "SC.kinv_commitB", "SC.kinv_find", "SC.kinv_unlink", "SC.kinv_abandon",
    "SC.kinv_allocDv",
    # every atomic segment is one kernel operation; theorem I (all schedules)
    "SC.astep_kstep", "SC.inv_init", "SC.inv_step", "SC.inv_reachable", "SC.inv_reachable_init",
    # the property's guarantees
    "SC.no_missing_file", "SC.fetch_never_missing", "SC.unlink_only_unpinned", "SC.kstep_stable",
    "SC.reader_sees_start_snapshot", "SC.assert_epoch_unreachable",
    # non-vacuity / tightness of the vacuum rule
    "SC.vacuum_rule_tight", "SC.vacuum_rule_off_by_one_unsafe",
]

TRUSTED = [
    "Lean 4 kernel",
    "harness scheduler (harness/src/bin/sched_common): attribution of operator tasks to the released actor, quiescence detection via tokio runtime metrics",
    "yield points inserted in /repo (cfg risinglight_verif) mark every lock acquisition / await of the modelled files; code between two points is taken as atomic",
    "tokio current-thread runtime, tokio::fs, parking_lot / futures / tokio mutexes behave as documented",
]

# --------------------------------------------------------------------------------------------
# s-expressions
# --------------------------------------------------------------------------------------------


def parse_sexp(s):
    toks = re.findall(r"\(|\)|[^\s()]+", s)
    pos = 0

    def rd():
        nonlocal pos
        t = toks[pos]
        pos += 1
        if t == "(":
            out = []
            while toks[pos] != ")":
                out.append(rd())
            pos += 1
            return out
        return t
    return rd()


def field(lst, name):
    for x in lst:
        if isinstance(x, list) and x and x[0] == name:
            return x
    return None


# --------------------------------------------------------------------------------------------
# traces
# --------------------------------------------------------------------------------------------


def canon_ops(detail):
    if detail in ("-", ""):
        return "-"
    out = []
    for o in detail.split(","):
        p = o.split(":")
        if p[0] in ("adddv", "deldv"):
            out.append(":".join(p[:3]))
        else:
            out.append(o)
    return ",".join(sorted(out))


def canon_impl_event(name, detail):
    """Implementation event -> the text the Lean driver prints for the same event."""
    if name in ("vm.pin", "vm.unpin", "vm.commitA", "cp.table", "cp.locked", "rd.batch", "scan.batch", "vac.unlinked"):
        return "%s %s" % (name, detail)
    if name == "vm.commit.begin":
        return "%s %s" % (name, canon_ops(detail))
    if name == "vac.find":
        keys = [k for k in detail.split(",") if k and k != "-"]
        keys.sort(key=lambda k: tuple(int(x) for x in k.split("_")))
        return "vac.find %s" % (",".join(keys) if keys else "-")
    if name == "cmd.done":
        return "cmd.done %s" % detail
    if name in ("txn.lock.begin", "ddl.create.begin"):
        return "lock.begin"
    return name


class Trace:
    def __init__(self, line):
        self.line = line
        t = parse_sexp(line)
        assert t[0] == "trace", line[:80]
        self.id = t[1]
        self.steps = []
        for st in field(t, "steps")[1:]:
            evs = [(int(e[1]), int(e[2]), e[3], e[4]) for e in st if isinstance(e, list) and e[0] == "ev"]
            pick = field(st, "pick")
            obs = field(st, "obs")
            disk = field(st, "disk")
            en = field(st, "en")
            self.steps.append({"pick": pick[1:], "evs": evs, "obs": obs[1] if len(obs) > 1 else "",
                               "disk": disk[1] if len(disk) > 1 else "-", "en": en[1:] if en else []})
        self.deadlock = field(t, "deadlock")[1]
        self.final = {x[0]: x[1] for x in field(t, "final")[1:]}
        ro = field(t, "reopen")
        self.reopen_status = ro[1]
        self.reopen = {x[0]: x[1] for x in ro[2:]}
        self.checks = field(t, "checks")[1:]

    def events(self):
        for i, st in enumerate(self.steps):
            for e in st["evs"]:
                yield i, e

    def driver_line(self):
        """The trace without harness-only events (oracle reads)."""
        return re.sub(r" \(ev \d+ \d+ rd\.oracle [^)]*\)", "", self.line)

    def choices(self):
        return [(int(s["pick"][2]), int(s["pick"][3])) for s in self.steps if s["pick"][0] != "-" and s["pick"][0] != "0"]


def parse_model(line):
    t = parse_sexp(line)
    if t[0] != "model":
        return None
    steps = []
    stuck = None
    for st in t[2:]:
        if isinstance(st, list) and st and st[0] == "step":
            evs = [" ".join(e[1:]) for e in st if isinstance(e, list) and e[0] == "ev"]
            for e in st:
                if isinstance(e, list) and e[0] == "stuck":
                    stuck = " ".join(e[1:])
            obs = field(st, "obs")
            disk = field(st, "disk")
            steps.append({"evs": evs, "obs": obs[1] if len(obs) > 1 else "", "disk": disk[1] if len(disk) > 1 else "-"})
    fin = field(t, "final")
    final = {x[0]: x[1] for x in fin[1:] if isinstance(x, list)}
    ro = field(t, "reopen")
    return {"id": t[1], "steps": steps, "stuck": stuck, "final": final,
            "reopen": ro[1] if ro and len(ro) > 1 else "?"}


def compare(trace, model):
    """First disagreement between implementation trace and model replay, or None."""
    if model is None:
        return {"step": -1, "what": "model output unparsable"}
    for i, st in enumerate(trace.steps):
        if i >= len(model["steps"]):
            return {"step": i, "what": "model stopped", "stuck": model["stuck"]}
        m = model["steps"][i]
        impl_evs = [canon_impl_event(e[2], e[3]) for e in st["evs"] if e[2] != "rd.oracle"]
        if model["stuck"] and i == len(model["steps"]) - 1:
            return {"step": i, "what": "model says the implementation's next event is not enabled",
                    "stuck": model["stuck"], "impl_events": impl_evs, "model_events": m["evs"]}
        if impl_evs != m["evs"]:
            return {"step": i, "what": "event details differ", "impl_events": impl_evs, "model_events": m["evs"]}
        if st["obs"] != m["obs"]:
            return {"step": i, "what": "version-manager state differs", "impl": st["obs"], "model": m["obs"],
                    "events": impl_evs}
        if st["disk"] != m["disk"]:
            return {"step": i, "what": "directory listing differs", "impl": st["disk"], "model": m["disk"],
                    "events": impl_evs}
    if trace.deadlock == "none" and trace.final != model["final"]:
        return {"step": len(trace.steps), "what": "final table contents differ", "impl": trace.final,
                "model": model["final"]}
    return None


# --------------------------------------------------------------------------------------------
# running
# --------------------------------------------------------------------------------------------


def run_cases(ck, binary, driver, cases, tag="run"):
    """cases: list of case lines -> list of (case_line, Trace|None, model|None)."""
    path = os.path.join(ck.work, "%s.cases" % tag)
    with open(path, "w") as f:
        f.write("\n".join(cases) + "\n")
    rc, out = vlib.sh([vlib.harness_bin(binary), "run", path], timeout=3000,
                      env={"VERIF_WORK": os.path.join(ck.work, "dbs")})
    tl = [l for l in out.split("\n") if l.startswith("(trace ")]
    traces = {}
    for l in tl:
        try:
            t = Trace(l)
            traces[t.id] = t
        except Exception as ex:  # noqa: BLE001
            ck.notes.append("unparsable trace: %s" % ex)
    ids = [parse_sexp(c)[1] for c in cases]
    data = "\n".join(traces[i].driver_line() for i in ids if i in traces) + "\n"
    rc2, out2 = vlib.sh([vlib.lean_exe(driver)], stdin=data, timeout=3000)
    models = {}
    for l in out2.split("\n"):
        if l.startswith("(model "):
            m = parse_model(l)
            if m:
                models[m["id"]] = m
    res = []
    for c, i in zip(cases, ids):
        res.append((c, traces.get(i), models.get(i)))
    return res, (rc, out[-2000:] if rc != 0 else "")


def gen_cases(ck, binary, n, tag="gen", extra_args=()):
    path = os.path.join(ck.work, "%s.cases" % tag)
    rc, out = vlib.sh([vlib.harness_bin(binary), "gen", str(n), path] + list(extra_args))
    if rc != 0:
        raise RuntimeError("generator failed: " + out[-500:])
    return [l for l in open(path).read().split("\n") if l.strip()]


def corpus_cases(prop):
    d = os.path.join(vlib.VERIF, "corpus", prop)
    out = []
    if os.path.isdir(d):
        for fn in sorted(os.listdir(d)):
            if fn.endswith(".cases"):
                out += [l for l in open(os.path.join(d, fn)).read().split("\n") if l.startswith("(case ")]
    return out


# Footprint of the segment a thread executes when it is released from a gate: token -> mode
# (R read, W write, C commutative update).  Two segments of different actors are independent
# when they share no token, or only in modes R/R or C/C.  Anything not listed is `*` = dependent
# on everything (conservative).  Reference counts are C (increments/decrements commute; only
# `find_vacuum` reads them); a reader's fetch segments read `disk`, unlinks write it, so the
# interleavings of fetches with unlinks are all kept.
def footprint(gate, cmd):
    kind = cmd.split(":")[0]
    if gate == "cmd.begin":
        if kind == "read":
            return {"rc": "C", "ep": "R"}
        if kind == "compact":
            return {"cat": "R"}     # clones the table map; the pin comes after the table lock
        if kind == "vacuum":
            return {"rc": "R", "ep": "R", "pend": "W", "pool": "W"}
        if kind == "drop":
            return {"rc": "C", "ep": "R", "cat": "W"}
        return {"*": "W"}
    if kind == "drop":
        return {"ddl.drop.applied": {"rc": "C", "ep": "R"},
                "vm.commit.begin": {"ep": "W", "pend": "W", "man": "W", "pool": "W"},
                "vm.committed": {"rc": "C"}}.get(gate, {"*": "W"})
    if kind == "read":
        return {"txn.pinned": {"pool": "R"}, "rd.open": {"disk": "R", "rc": "C"},
                "rd.batch": {"disk": "R", "rc": "C"}}.get(gate, {"*": "W"})
    if kind == "compact":
        return {"cp.pass.begin": {"rc": "C", "ep": "R", "pool": "R", "disk": "W", "rid": "W", "tl": "W"},
                "vm.commit.begin": {"ep": "W", "pool": "W", "pend": "W", "man": "W"},
                "vm.committed": {"rc": "C", "tl": "W"}}.get(gate, {"*": "W"})
    if kind == "vacuum":
        return {"vac.find": {"disk": "W"}, "vac.unlinked": {"disk": "W"}}.get(gate, {"*": "W"})
    return {"*": "W"}


def independent(u, v):
    """u, v = (actor, thread, gate, cmd)"""
    if u[0] == v[0]:
        return False
    fu, fv = footprint(u[2], u[3]), footprint(v[2], v[3])
    if "*" in fu or "*" in fv:
        return False
    for tok, m in fu.items():
        if tok in fv and not (m == fv[tok] and m in ("R", "C")):
            return False
    return True


def exhaustive(ck, binary, driver, template, limit, on_result, reduce=True):
    """All interleavings of one small actor-program template, up to commutation of independent
    segments (sleep sets; `reduce=False`: plain enumeration).  Stateless: every schedule is
    executed from scratch; a frontier item is (forced choice prefix, sleep set after its last
    choice).  An execution whose default continuation takes a sleeping transition is cut there
    (it is a reordering of an execution explored elsewhere)."""
    frontier = [([], frozenset())]
    done = cut = 0
    rnd = 0
    while frontier and done < limit:
        batch, frontier = frontier[:400], frontier[400:]
        cases = []
        for i, (pre, _) in enumerate(batch):
            c = re.sub(r"\(case \S+", "(case x%d_%d" % (rnd, i), template, count=1)
            c = re.sub(r"\(sched[^)]*\)", "(sched %s)" % " ".join(str(x) for x in pre), c, count=1)
            cases.append(c)
        res, _ = run_cases(ck, binary, driver, cases, tag="exh%d" % rnd)
        for (pre, sleep0), (c, t, m) in zip(batch, res):
            done += 1
            on_result(c, t, m)
            if t is None:
                continue
            # nodes of phase 2 with their enabled identities and the command each actor runs
            cur = {}
            nodes = []
            for st in t.steps:
                if st["pick"][0] not in ("-", "0") and st["en"]:
                    ids = []
                    for e in st["en"]:
                        at, gate = e.split("@")
                        a, th = at.split(".")
                        ids.append((a, th, gate, cur.get(a, "?")))
                    nodes.append((ids, int(st["pick"][2])))
                for (a, th, name, detail) in st["evs"]:
                    if name == "cmd.begin":
                        cur[str(a)] = detail
            # the command of an actor gated at cmd.begin is the one it is about to start: the
            # event was recorded when it reached the gate, so `cur` already has it
            sleep = set(sleep0)
            path = []
            for pos, (ids, ch) in enumerate(nodes):
                ex = ids[ch]
                if pos >= len(pre):
                    blocked = reduce and ex in sleep
                    # the default continuation takes index 0; every other non-sleeping transition
                    # of this node is explored as a child (in order, each sleeping on the earlier)
                    explored = [] if blocked else [ex]
                    for alt_i, alt in enumerate(ids):
                        if alt_i == ch or (reduce and alt in sleep):
                            continue
                        child_sleep = frozenset(u for u in (set(sleep) | set(explored)) if independent(u, alt)) if reduce else frozenset()
                        frontier.append((path + [alt_i], child_sleep))
                        explored.append(alt)
                    if blocked:
                        # this execution continues with a sleeping transition: a reordering of
                        # an execution explored elsewhere; its other branches were just queued
                        cut += 1
                        break
                sleep = {u for u in sleep if independent(u, ex)}
                path.append(ch)
        rnd += 1
    return done, len(frontier), cut


EXHAUSTIVE_TEMPLATES = [
    # one reader, one compaction pass, one vacuum pass over two row-sets (coarser gating)
    "(case e1 (gate cmd.begin txn.lock.begin txn.pinned vm.commit.begin vm.committed cp.pass.begin vac.find vac.unlinked rd.open rd.batch)"
    " (setup create:t1 ins:t1:1+2 ins:t1:3) (actors (read:t1:4) (compact) (vacuum)) (sched ) (rng 0) (sticky 0) (script ))",
    # reader vs DROP TABLE vs vacuum
    "(case e2 (gate cmd.begin txn.lock.begin txn.pinned vm.commit.begin vm.committed ddl.drop.applied vac.find vac.unlinked rd.open rd.batch)"
    " (setup create:t1 ins:t1:1+2) (actors (read:t1:4) (drop:t1) (vacuum)) (sched ) (rng 0) (sticky 0) (script ))",
    # an executor-level scan (Database::run) streaming two batches vs a compaction pass and a vacuum pass
    "(case e3 (gate cmd.begin scan.batch vm.commit.begin vm.committed vac.find vac.unlinked)"
    " (setup create:t1 ins:t1:1+2 ins:t1:3) (actors (sel:t1) (compact) (vacuum)) (sched ) (rng 0) (sticky 0) (script ))",
]


# --------------------------------------------------------------------------------------------
# model-free oracles
# --------------------------------------------------------------------------------------------


def reader_oracle(trace):
    """C08: every storage-level reader returned exactly the rows an ungated full scan showed
    in the atomic segment in which the reader pinned, and no reader saw an error/panic.
    Returns list of problems."""
    bad = []
    oracle = {}
    cur = {}
    for i, (a, th, name, detail) in trace.events():
        if name == "cmd.begin":
            cur[a] = detail
        elif name == "rd.oracle":
            oracle[a] = detail
        elif name == "cmd.done" and cur.get(a, "").startswith("read:"):
            exp = oracle.pop(a, None)
            if exp is None:
                # table did not exist when the reader started
                if not detail.startswith("err:notfound"):
                    bad.append({"step": i, "actor": a, "what": "reader without oracle ended with " + detail})
                continue
            if detail != exp:
                bad.append({"step": i, "actor": a, "cmd": cur[a], "reader": detail, "rows_at_start": exp})
    for c in trace.checks:
        bad.append({"what": c})
    return bad


def scan_pin_oracle(trace):
    """Executor-level scans (`TableScanExecutor` inside `Database::run`): every batch must be
    fetched while the scan's read transaction still holds its version pin (pin from before the
    scan is opened to the end of the stream), and no pass / session may die.  Model-free: only
    the order of the implementation's own `vm.pin` / `scan.batch` / `vm.unpin` events per thread."""
    bad = []
    pins = {}
    for i, (a, th, name, detail) in trace.events():
        if name == "vm.pin":
            pins[(a, th)] = pins.get((a, th), 0) + 1
        elif name == "vm.unpin":
            pins[(a, th)] = pins.get((a, th), 0) - 1
        elif name == "scan.batch" and pins.get((a, th), 0) <= 0:
            bad.append({"step": i, "actor": a, "thread": th, "what": "scan batch of %s rows fetched after the scan's pin was released" % detail})
        elif name == "panic" or (name == "cmd.done" and detail == "panic"):
            bad.append({"step": i, "actor": a, "thread": th, "what": "a pass or session died: %s" % detail})
    return bad


def nontrivial_overlap(trace):
    """A schedule is non-trivial when some reader had another actor's commit or unlink between
    its pin and its end."""
    open_readers = set()
    hit = False
    cur = {}
    for _, (a, th, name, detail) in trace.events():
        if a == 0:
            continue
        if name == "cmd.begin":
            cur[a] = detail
        if name == "txn.pinned" and ((th == 0 and cur.get(a, "").startswith("read:")) or (th != 0 and cur.get(a, "").startswith("sel:"))):
            open_readers.add(a)
        elif name == "cmd.done":
            open_readers.discard(a)
        elif name in ("vm.committed", "vac.unlinked", "vac.find") and any(r != a for r in open_readers):
            hit = True
    return hit


def summarize_distribution(traces):
    d = {"events": {}, "cmds": {}, "steps": [], "actors": {}}
    for t in traces:
        d["steps"].append(len(t.steps))
        na = len({a for _, (a, _, _, _) in t.events()}) - 1
        d["actors"][str(na)] = d["actors"].get(str(na), 0) + 1
        for _, (a, th, name, detail) in t.events():
            d["events"][name] = d["events"].get(name, 0) + 1
            if name == "cmd.begin" and a != 0:
                k = detail.split(":")[0]
                d["cmds"][k] = d["cmds"].get(k, 0) + 1
            if name == "cmd.done":
                k = "done:" + re.sub(r"rows:.*", "rows", detail)
                d["events"][k] = d["events"].get(k, 0) + 1
    st = sorted(d["steps"]) or [0]
    d["steps"] = {"min": st[0], "median": st[len(st) // 2], "max": st[-1]}
    return d


# --------------------------------------------------------------------------------------------
# the check
# --------------------------------------------------------------------------------------------


def lean_and_build(ck, module, theorems, driver, binary):
    bad = vlib.step_lean(ck, module, theorems, extra_targets=[driver])
    for name, st in bad.items():
        ck.report("thm:" + name, "theorem %s is not discharged: %s" % (name, st.get("status")),
                  replay={"theorem": name, "status": st}, found_input=False)
    ok, log = vlib.step_cargo(ck, [binary])
    if not ok:
        ck.report("build:harness", "harness does not build against the repository", replay={"log": log[-2000:]},
                  found_input=False)
    return ok


def run(ck):
    n = 220 if ck.quick() else 600
    if not lean_and_build(ck, "RlModel.Thm.C08", THEOREMS, "drv_c08", "c08"):
        return ck.finish(level="proof", trusted_base=TRUSTED)
    cases = corpus_cases("C08") + gen_cases(ck, "c08", n)
    ck.log("running %d schedules" % len(cases))
    res, err = run_cases(ck, "c08", "drv_c08", cases)
    traces = [t for _, t, _ in res if t]
    cnt = {"compared": 0, "disagree": 0}
    orc = {"compared": 0, "disagree": 0}
    missing = [c for c, t, m in res if t is None]
    if missing:
        ck.report("harness:no-trace", "the harness produced no trace for %d case(s)" % len(missing),
                  replay={"case": missing[0], "harness_tail": err[1]}, found_input=False)
    nontrivial = set()
    exh = {}

    def judge(c, t, m):
        if t is None:
            return
        orc["compared"] += 1
        bad = reader_oracle(t)
        if bad:
            orc["disagree"] += 1
            ck.report("reader:snapshot-or-file", "a reader did not see its start snapshot / a pinned file was unlinked: %s" % json.dumps(bad[0]),
                      replay={"case": c, "problems": bad, "trace": t.line})
        sp = scan_pin_oracle(t)
        if sp:
            orc["disagree"] += 0 if bad else 1
            sig = "scan:batch-after-unpin" if "fetched after" in sp[0]["what"] else "bg:pass-or-session-died"
            ck.report(sig, "executor-level scan / background pass: %s" % json.dumps(sp[0]),
                      replay={"case": c, "problems": sp, "trace": t.line})
        if t.deadlock != "none":
            ck.report("sched:deadlock", "schedule did not finish: %s" % t.deadlock, replay={"case": c, "trace": t.line})
        cnt["compared"] += 1
        d = compare(t, m)
        if d:
            cnt["disagree"] += 1
            # the tie is broken: is the property itself violated on this input? (oracle above
            # already ran on it); otherwise report the disagreement without a failing input
            ck.report("corr:model-vs-impl", "model and implementation disagree at step %s: %s" % (d["step"], d["what"]),
                      replay={"case": c, "diff": d, "trace": t.line}, found_input=False)
        if nontrivial_overlap(t):
            nontrivial.add(t.driver_line().split("(steps", 1)[1][:4000])
    for c, t, m in res:
        judge(c, t, m)
    if not ck.quick():
        for k, tmpl in enumerate(EXHAUSTIVE_TEMPLATES):
            n_done, n_left, n_cut = exhaustive(ck, "c08", "drv_c08", tmpl, 20000, judge)
            exh["template%d" % k] = {"schedules": n_done, "unexplored_frontier": n_left, "sleep_set_cuts": n_cut}
            ck.log("exhaustive template %d: %d schedules (%d cut by sleep sets), frontier left %d" % (k, n_done, n_cut, n_left))
            if n_left:
                ck.notes.append("exhaustive template %d not completed within the cap" % k)
    ck.coverage.update({
        "evaluations": len(traces),
        "distinct_nontrivial": len(nontrivial),
        "rule": "a schedule counts when another actor's commit, find_vacuum or unlink happened between a reader's pin and its end; distinct = distinct event sequences",
        "samples": cases[:3],
        "model_vs_impl": cnt, "impl_vs_oracle": orc,
        "model_vs_oracle": {"compared": 0, "disagree": 0, "note": "the oracle is an ungated scan of the implementation; the model's reader result is compared with the implementation's in model_vs_impl"},
        "distribution": summarize_distribution(traces),
        "exhaustive_templates": exh,
    })
    return ck.finish(level="proof", trusted_base=TRUSTED)


def replay(path):
    """Re-drives the stored schedule on the implementation and on the model."""
    rp = json.load(open(path))
    case = rp.get("replay", {}).get("case")
    if not case:
        print(json.dumps(rp, indent=1)[:3000])
        return 0
    ck = vlib.Check("C08", "quick", 1)
    res, _ = run_cases(ck, "c08", "drv_c08", [case], tag="replay")
    for c, t, m in res:
        print("case:", c)
        if t:
            for i, st in enumerate(t.steps):
                print(" step %d pick=%s %s" % (i, st["pick"], [canon_impl_event(e[2], e[3]) for e in st["evs"]]))
                print("    impl  %s | %s" % (st["obs"], st["disk"]))
                if m and i < len(m["steps"]):
                    print("    model %s | %s" % (m["steps"][i]["obs"], m["steps"][i]["disk"]))
            print(" final impl:", t.final, "reopen:", t.reopen_status, t.reopen)
            print(" oracle problems:", reader_oracle(t))
            print(" model-vs-impl:", compare(t, m))
    import shutil
    shutil.rmtree(ck.work, ignore_errors=True)
    return 0
