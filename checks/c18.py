"""C18 — corrupted column data is detected, not returned.

 1. translator/gen_consts.py (trailer/footer sizes, magic, checksum-type codes, default_for_cli checksum)
 2. Lean obligations (RlModel.Thm.C18) + driver drv_c18
 3. harness c18
 4. corpus + generated column-level requests (real builder output x patch x read sequence, CRC model vs
    crc32fast) : model_vs_impl + model-free oracle (a read is Err or returns the pristine payload);
    on-disk databases through SQL (CRC32 options like default_for_cli): for each *.col / *.idx file a
    sweep of positions x {bit flip, byte overwrite, truncation, trailer-field overwrite} x {first read,
    repeated reads, fresh reopen}: outcome vs model prediction, oracle = never Ok with different rows,
    untouched table stays readable.
 5. decide."""
import json
import os
import re
import sys
import zlib
from collections import Counter

import vlib

THEOREMS = [
    "crc_linear", "crc_detects_single_bit", "crc_detects_burst_le_32_bits", "crc_detects_burst_le_32",
    "crc_detects_byte_overwrite", "verify_detects", "verify_or_unchanged_partial",
    "detected_every_time", "cache_first_read_path_unsound",
    "accepted_has_own_crc", "cktype_none_refused", "accepted_sealed", "verify_detects_any_cktype",
    "cktype_overwrite_regression", "trailer_not_a_mac", "index_open_detects", "index_count_protected",
    "index_count_unique", "index_cktype_none_refused", "index_count_regression", "index_cktype_overwrite_regression",
    "openBlock_false_of_true", "getBlock_verifies_at_that_read", "getBlock_step", "every_returned_block_was_verified",
    "compaction_never_launders", "cache_first_compaction_launders", "laundered_block_verifies",
]

SIG_CACHE = "read:cache-before-verify"
SIG_CKTYPE = "trailer:cktype-overwrite"
SIG_IDX_CKTYPE = "idx-footer:cktype-overwrite"
SIG_COUNT = "idx:footer-count-unprotected"
SIG_OPEN = "idx:open-failure-blocks-database"
SIG_LAUNDER = "compaction:launders-corrupted-block"


def be(n, w):
    return n.to_bytes(w, "big")


def corpus_lines():
    """Minimal witnesses (built here with zlib.crc32, independent of model and implementation)."""
    body = bytes([1, 0, 0, 0]) + be(0, 4)
    blk = body + be(1, 4) + be(zlib.crc32(body), 8)
    ents = bytes([4, 0x18, 20, 0x28, 1]) + bytes([8, 0x10, 20, 0x18, 20, 0x20, 1, 0x28, 1])
    idx = ents + be(0x2333, 4) + be(2, 8) + be(1, 4) + be(zlib.crc32(ents), 8)
    two = blk + blk
    lines = [
        "col %s 0,20 set:0:65 C g0 g0 g0 F g0" % blk.hex(),          # first read Err, repeated reads return 65
        "col %s 0,20 zero12:0:0:65 C g0" % blk.hex(),                 # checksum type := None, checksum := 0
        "col %s 0,20;20,20 flip:21:3 g1 C g1 F g1 g1" % two.hex(),    # warm cache keeps the pristine block
        "idx %s cnt:1" % idx.hex(),                                   # count is outside the checksum
        "idx %s zero12i:2:21" % idx.hex(),                            # footer checksum type := None
        "idx %s flip:1:0" % idx.hex(),
        "crc 313233343536373839",
    ]
    d = os.path.join(vlib.VERIF, "corpus", "C18")
    if os.path.isdir(d):
        for fn in sorted(os.listdir(d)):
            if fn.endswith(".txt"):
                lines += [l for l in open(os.path.join(d, fn)).read().split("\n") if l and not l.startswith("#")]
    return lines


# ------------------------------------------------------------------------------------------------
# column level
# ------------------------------------------------------------------------------------------------

def idx_consistent(impl, model):
    if impl == model:
        return True
    if model == "accepted-altered":
        return impl.startswith("ok:") or impl == "err:decode"
    return False


def count_field_patch(patch, n):
    t = patch.split(":")
    if t[0] == "cnt":
        return True
    if t[0] in ("flip", "set"):
        return n - 20 <= int(t[1]) < n - 12
    return False


def apply_patch_py(data, patch, ents):
    b = bytearray(data)
    t = patch.split(":")
    n = len(b)
    if t[0] == "flip" and int(t[1]) < n:
        b[int(t[1])] ^= 1 << int(t[2])
    elif t[0] == "set" and int(t[1]) < n:
        b[int(t[1])] = int(t[2])
    elif t[0] == "trunc":
        b = b[:int(t[1])]
    elif t[0] == "ck0":
        off, ln = ents[int(t[1])]
        b[off + ln - 12:off + ln - 8] = bytes(4)
    elif t[0] == "zero12":
        off, ln = ents[int(t[1])]
        b[off + ln - 12:off + ln] = bytes(12)
        b[off + int(t[2])] = int(t[3])
    elif t[0] == "settype":
        off, ln = ents[int(t[1])]
        b[off + ln - 16:off + ln - 12] = int(t[2]).to_bytes(4, "big")
    elif t[0] == "cnt":
        b[n - 20:n - 12] = int(t[1]).to_bytes(8, "big")
    elif t[0] == "zero12i":
        b[n - 12:n] = bytes(12)
        b[int(t[1])] = int(t[2])
    return bytes(b)


BLOCK_FIELDS = (("type", 16, 12), ("cktype", 12, 8), ("cksum", 8, 0))


def changed_fields(orig, patched, ents, b):
    """Which parts of block b differ between the pristine and the patched file: any of
    payload / type / cktype / cksum, or ['truncated']."""
    off, ln = ents[b]
    if len(patched) < off + ln:
        return ["truncated"]
    o, p = orig[off:off + ln], patched[off:off + ln]
    out = []
    if o[:ln - 16] != p[:ln - 16]:
        out.append("payload")
    for name, a, z in BLOCK_FIELDS:
        if o[ln - a:ln - z] != p[ln - a:ln - z]:
            out.append(name)
    return out


def changed_offsets(orig, patched):
    n = min(len(orig), len(patched))
    return [i for i in range(n) if orig[i] != patched[i]] + list(range(n, max(len(orig), len(patched))))


def declares_no_checksum(patched, ents, b):
    """The mechanism of `trailer:cktype-overwrite`, judged on the bytes the reader sees: the block's
    own trailer says checksum type None with checksum 0 (so verify_checksum compares 0 with 0)."""
    off, ln = ents[b]
    if len(patched) < off + ln:
        return False
    return patched[off + ln - 12:off + ln - 8] == bytes(4) and patched[off + ln - 8:off + ln] == bytes(8)


def idx_footer_changes(orig, patched):
    """Fields of the index file that differ: entries / magic / count / cktype / cksum / truncated."""
    if len(patched) != len(orig):
        return ["truncated"]
    n = len(orig)
    out = []
    for name, a, z in (("entries", n, 24), ("magic", 24, 20), ("count", 20, 12), ("cktype", 12, 8), ("cksum", 8, 0)):
        if orig[n - a:n - z] != patched[n - a:n - z]:
            out.append(name)
    return out


def col_oracle(t, outs):
    """col <hex> <entries> <patch> <seq..> -> list of (sig_or_None, what) violations of
    'every read is Err or returns the pristine payload'."""
    data = bytes.fromhex(t[1])
    ents = [tuple(int(x) for x in e.split(",")) for e in t[2].split(";")]
    patch = t[3]
    seq = t[4:]
    res = []
    k = 0
    corrupted = False
    failed_since_fresh = set()
    for op in seq:
        if op == "C":
            corrupted = True
        elif op == "F":
            failed_since_fresh = set()
        elif op.startswith("g"):
            b = int(op[1:])
            o = outs[k] if k < len(outs) else "missing"
            k += 1
            off, ln = ents[b]
            pristine = data[off:off + ln - 16].hex()
            ptype = int.from_bytes(data[off + ln - 16:off + ln - 12], "big")
            if o.startswith("ok:"):
                _, ty, payload = o.split(":")
                if payload != pristine or int(ty) != ptype:
                    patched = apply_patch_py(data, patch, ents)
                    fields = changed_fields(data, patched, ents, b)
                    what = ("block %d (file offsets %s, field(s) %s, patch %s): read returned type %s payload %s, written type %d payload %s"
                            % (b, changed_offsets(data, patched)[:8], "+".join(fields), patch, ty, payload[:64], ptype, pristine[:64]))
                    if declares_no_checksum(patched, ents, b):
                        res.append((SIG_CKTYPE, "the block's own trailer now says checksum type None / checksum 0, so nothing is verified: " + what))
                    elif b in failed_since_fresh:
                        res.append((SIG_CACHE, "an earlier read of this block failed with a checksum error, this read returns the altered block: " + what))
                    else:
                        res.append(("!" + "+".join(fields), what))
            elif o == "err:checksum":
                failed_since_fresh.add(b)
            elif not o.startswith("err:"):
                res.append((None, "unexpected outcome %s" % o))
    return res


def idx_oracle(t, out):
    data = bytes.fromhex(t[1])
    n = len(data)
    orig_count = int.from_bytes(data[n - 20:n - 12], "big")
    patch = t[2]
    if patch == "none" or apply_patch_py(data, patch, []) == data:
        return [] if out == "ok:%d" % orig_count else [(None, "pristine index does not open: %s" % out)]
    patched_idx = apply_patch_py(data, patch, [])
    fields = idx_footer_changes(data, patched_idx)
    only_count = fields == ["count"]
    footer_none = len(patched_idx) >= 24 and patched_idx[-12:] == bytes(12)
    if out == "abort":
        if only_count:
            return [(SIG_COUNT, "unverified footer count makes ColumnIndex::from_bytes abort the process (Vec::with_capacity(count))")]
        return [(None, "process abort on %s" % patch)]
    if out.startswith("ok:"):
        if only_count:
            return [(SIG_COUNT, "index with overwritten block count opens without error (%s blocks instead of %d)" % (out[3:], orig_count))]
        if footer_none:
            return [(SIG_IDX_CKTYPE, "altered index accepted: its own footer now says checksum type None / checksum 0 (changed: %s)" % "+".join(fields))]
        return [("!" + "+".join(fields), "altered index file (field(s) %s, offsets %s) opens: %s after %s" % ("+".join(fields), changed_offsets(data, patched_idx)[:8], out, patch))]
    return []


# ------------------------------------------------------------------------------------------------
# disk level
# ------------------------------------------------------------------------------------------------

def parse_res(res):
    d = {}
    for tok in re.findall(r"(open|reopen|q1|q2|q3|u|r1|ru):(DIFF:(?:\([^)]*\) ?)*|\S+)", res):
        k, v = tok
        d[k] = "DIFF" if v.startswith("DIFF") else v
    return d


def affected_block(patch, ents, flen):
    t = patch.split(":")
    if t[0] in ("flip", "set"):
        p = int(t[1])
        for b, (off, ln) in enumerate(ents):
            if off <= p < off + ln:
                return b
        return None
    if t[0] in ("ck0", "zero12", "settype"):
        return int(t[1])
    if t[0] == "trunc":
        nl = int(t[1])
        for b, (off, ln) in enumerate(ents):
            if off + ln > nl:
                return b
        return None
    return None


def defer_corr(pending, sig, what, replay, found):
    """Correspondence disagreements are collected per signature and reported once, preferring a
    case on which the property itself fails on the implementation (a concrete failing input)."""
    cur = pending.get(sig)
    if cur is None or (found and not cur[2]):
        pending[sig] = (what, replay, found)


def flush_corr(ck, pending):
    for sig, (what, replay, found) in pending.items():
        ck.report(sig, what, replay=replay, found_input=found)


def disk_decide(ck, layouts, cases, model_answers, cov):
    """-> counters; reports violations / known findings."""
    mvi = {"compared": 0, "disagree": 0}
    ivo = {"compared": 0, "disagree": 0, "known": 0}
    dist = Counter()
    pending = {}
    for case, manswer in zip(cases, model_answers):
        name, patch, res = case["file"], case["patch"], case["res"]
        kind = "col" if name.endswith(".col") else "idx"
        if res.startswith("harness-panic"):
            ck.report("run:disk-case", "the harness panicked on %s %s: %s" % (name, patch, res[:200]), replay={"file": name, "patch": patch, "res": res}, found_input=False)
            continue
        r = parse_res(res)
        lay = layouts[name]
        flen = lay["len"]
        pk = patch.split(":")[0]
        coarse = ("abort" if r.get("open") == "abort" else "panic" if r.get("open") == "panic" else
                  "diff" if "DIFF" in [r.get(k) for k in ("q1", "q2", "q3", "r1")] else
                  "err" if str(r.get("q1", "")).startswith("err") else "same")
        dist["%s/%s -> %s" % (kind, pk, coarse)] += 1
        orig_bytes = bytes.fromhex(lay["hex"])
        patched_bytes = apply_patch_py(orig_bytes, patch, lay.get("entries", []))
        if kind == "col":
            ab = affected_block(patch, lay["entries"], flen)
            fields = changed_fields(orig_bytes, patched_bytes, lay["entries"], ab) if ab is not None else []
            no_ck = ab is not None and declares_no_checksum(patched_bytes, lay["entries"], ab)
        else:
            ab = None
            fields = idx_footer_changes(orig_bytes, patched_bytes)
            no_ck = len(patched_bytes) >= 24 and patched_bytes[-12:] == bytes(12)
        only_count = kind == "idx" and fields == ["count"]
        replay = {"file": name, "patch": patch, "file_offsets_changed": changed_offsets(orig_bytes, patched_bytes)[:16],
                  "fields_changed": fields, "block": ab, "rows_before": layouts.get("__want_t__", ""),
                  "observed (rows after = DIFF:...)": res[:3000], "model": manswer,
                  "how": "c18 disk: tables t(a int, b varchar) 30 rows and u(k int); default_for_cli options with target_block_size 64; patch the file; open; select a,b from t x3; select k from u; reopen; select again"}
        # ---- oracle: the property itself
        ivo["compared"] += 1
        viol = []
        if r.get("open") == "abort":
            viol.append((SIG_COUNT if only_count else None,
                         "opening the database aborts the process (unverified footer count -> Vec::with_capacity)"))
        elif r.get("open") == "panic" or r.get("reopen") == "panic":
            viol.append((SIG_OPEN if kind == "idx" else None,
                         "Database::new_on_disk panics on the corrupted %s file: the untouched table u is unreadable as well" % kind))
        else:
            for q in ("q1", "q2", "q3", "r1"):
                if r.get(q) == "DIFF":
                    # attribution by mechanism, judged on the bytes the reader sees, never by patch kind
                    if kind == "col" and no_ck:
                        sig = SIG_CKTYPE
                    elif kind == "col" and q in ("q2", "q3") and r.get("q1") == "err:checksum":
                        sig = SIG_CACHE
                    elif only_count:
                        sig = SIG_COUNT
                    elif kind == "idx" and no_ck:
                        sig = SIG_IDX_CKTYPE
                    else:
                        sig = "!" + "+".join(fields)
                    viol.append((sig, "%s returns Ok with different rows (field(s) changed: %s, file offsets %s)" % (q, "+".join(fields), changed_offsets(orig_bytes, patched_bytes)[:8])))
                elif r.get(q) not in ("same",) and not str(r.get(q, "")).startswith("err") and r.get(q) != "panic":
                    viol.append((None, "%s: unexpected outcome %s" % (q, r.get(q))))
            for q in ("u", "ru"):
                if r.get(q) != "same":
                    viol.append((None, "untouched table u: %s = %s" % (q, r.get(q))))
        if viol:
            ivo["disagree"] += 1
        for sig, what in viol:
            if sig and not sig.startswith("!"):
                if ck.report(sig, "on-disk %s, %s: %s" % (kind, patch, what), replay=replay) == "known":
                    ivo["known"] += 1
            elif sig:
                ck.report("disk:%s/accepted-altered-%s" % (kind, sig[1:]), "on-disk %s %s: %s" % (name, patch, what), replay=replay)
            else:
                ck.report("disk:%s/%s/%s" % (kind, pk, coarse), "on-disk %s %s: %s" % (name, patch, what), replay=replay)
        # ---- model prediction
        mvi["compared"] += 1
        ok = True
        if kind == "col":
            ents = lay["entries"]
            b = affected_block(patch, ents, flen)
            if b is None:
                ok = coarse == "same"
            else:
                off, ln = ents[b]
                pristine = lay["hex"][2 * off:2 * (off + ln - 16)]
                ptype = int(lay["hex"][2 * (off + ln - 16):2 * (off + ln - 12)], 16)
                pred = []
                for o in manswer.split(" "):
                    if o.startswith("ok:"):
                        pred.append("same" if o.split(":")[2] == pristine and int(o.split(":")[1]) == ptype else "ok-altered")
                    else:
                        pred.append(o)
                obs = [r.get("q1"), r.get("q2"), r.get("q3"), r.get("r1")]
                # an altered payload need not alter rows (padding bits of a validity bitmap, bytes
                # under a NULL): `ok-altered` predicts Ok, with the same or different rows
                ok = len(pred) == 4 and all(p == o or (p == "ok-altered" and o in ("same", "DIFF")) for p, o in zip(pred, obs))
        else:
            m = manswer
            orig_count = int.from_bytes(bytes.fromhex(lay["hex"])[flen - 20:flen - 12], "big") if flen >= 24 else -1
            if m.startswith("err:"):
                ok = coarse == "panic"
            elif m == "accepted-altered":
                # altered entries pass the (disabled) checksum; what protobuf decoding and the scan
                # make of them is not modelled
                ok = coarse in ("panic", "diff", "err", "same")
            elif m.startswith("ok:"):
                ok = coarse == "same" if int(m[3:]) == orig_count else coarse in ("diff", "err", "panic")
            else:
                ok = False
        if not ok:
            mvi["disagree"] += 1
            defer_corr(pending, "corr:disk/%s/%s" % (kind, pk), "model prediction and on-disk outcome disagree for %s %s: model %s, observed %s" % (name, patch, manswer[:200], res[:300]),
                       replay, bool(viol and any(s is None or s.startswith("!") for s, _ in viol)))
    flush_corr(ck, pending)
    cov.setdefault("distribution", {})["disk_cases(kind/patch -> outcome)"] = dict(sorted(dist.items()))
    return mvi, ivo


SIG_MISSING = "scan:read-error-ends-scan"


def compact_decide(ck, cases, manswers, cov, wants=None):
    """Background compaction reads the corrupted block first (c18 compact)."""
    wants = wants or {}
    mvi = {"compared": 0, "disagree": 0}
    ivo = {"compared": 0, "disagree": 0, "known": 0}
    dist = Counter()
    for case, m in zip(cases, manswers):
        res = case["res"]
        r = {}
        for k, v in re.findall(r"(open|reopen|c1|c2|q1|q2|u|r1|r2|dirs):(DIFF:(?:\([^)]*\) ?)*|\S+)", res):
            r[k] = "DIFF" if v.startswith("DIFF") else v
        newdir = "0_3" in r.get("dirs", "")
        pk = case["patch"].split(":")[0]
        if not case["changed"]:
            continue
        keyed = bool(case.get("keyed"))
        tbl = "keyed" if keyed else "keyless"
        replay = {"file": case["file"], "table": "t (a int primary key, b varchar): scans and compaction merge one child iterator per row-set (MergeIterator)" if keyed else "t (a int, b varchar): concat scan path",
                  "patch": case["patch"], "block": case["block"], "blocks_in_file": case.get("nblocks"), "seq": case["seq"], "observed": res[:1200], "model": m,
                  "how": "c18 compact: table t in two row-sets of 20 rows (target_block_size 64: several blocks per column), one block corrupted; A: compaction pass x2, SELECT .. ORDER BY a, reopen, SELECT x2; B: SELECT, compaction pass, SELECT, reopen, SELECT x2; oracle: Err, or exactly the 40 original rows"}
        ivo["compared"] += 1
        viol = []
        raw = dict(re.findall(r"(q1|q2|r1|r2):(DIFF:(?:\([^)]*\) ?)*)", res))
        for q in ("q1", "q2", "r1", "r2"):
            if r.get(q) == "DIFF":
                # judged on the rows returned: fewer rows, every one of them an original row => nothing
                # was altered, a part of the table is silently missing (a read error ended a scan)
                got = re.findall(r"\(([^)]*)\)", raw.get(q, ""))
                want_rows = wants.get(keyed, [])
                if want_rows and len(got) < len(want_rows) and set(got) <= set(want_rows) and len(set(got)) == len(got):
                    viol.append((SIG_MISSING, "%s returns Ok with %d of the %d rows (none altered; missing: %s ..): a block of the table fails verification, the query must fail instead"
                                 % (q, len(got), len(want_rows), " ".join("(%s)" % x for x in want_rows if x not in set(got))[:120])))
                    continue
                cents = [tuple(int(x) for x in e.split(",")) for e in case["entries"].split(";")]
                cdata = bytes.fromhex(case["hex"])
                if declares_no_checksum(apply_patch_py(cdata, case["patch"], cents), cents, case["block"]):
                    sig = SIG_CKTYPE
                elif q in ("r1", "r2") and newdir:
                    sig = SIG_LAUNDER
                elif q in ("q1", "q2") and newdir:
                    sig = SIG_LAUNDER
                elif (q == "q2" and r.get("q1") == "err:checksum") or (q == "r2" and r.get("r1") == "err:checksum") or (q == "q1" and case["seq"] == "A"):
                    sig = SIG_CACHE
                else:
                    sig = None
                viol.append((sig, "%s returns Ok with different rows%s" % (q, " from the row-set a compaction pass wrote (valid checksums)" if sig == SIG_LAUNDER else "")))
        if r.get("u") != "same":
            viol.append((None, "untouched table u = %s" % r.get("u")))
        dist["%s/%s/%s%s -> c1:%s c2:%s newrowset:%s reopen:%s" % (tbl, case["seq"], pk, "" if case["block"] == 0 else "@later-block", r.get("c1"), r.get("c2", "-"), newdir, r.get("r1"))] += 1
        if viol:
            ivo["disagree"] += 1
        for sig, what in viol:
            if sig:
                if ck.report(sig, "compaction sequence %s, %s: %s" % (case["seq"], case["patch"], what), replay=replay) == "known":
                    ivo["known"] += 1
            else:
                ck.report("compact:%s/%s/%s" % (tbl, case["seq"], pk), what, replay=replay)
        # model: reads of the affected block in order (first load, then cache hits)
        mvi["compared"] += 1
        outs = m.split(" ")
        first_err = outs[0].startswith("err") if outs and outs[0] else False
        second_ok = len(outs) > 1 and outs[1].startswith("ok:")
        if first_err and not second_ok:
            ok = not newdir      # every read fails: compaction can never write the table
        elif first_err:
            # first reader fails, the next one gets the cached block: laundering possible
            ok = newdir or "panic" in (r.get("c1"), r.get("c2")) or r.get("c1") == "ok"
        else:
            ok = newdir or "panic" in (r.get("c1"), r.get("c2"))   # accepted at once (e.g. zero12 / padding bits)
        if not ok:
            mvi["disagree"] += 1
            ck.report("corr:compact/%s/%s/%s" % (tbl, case["seq"], pk), "model prediction and compaction outcome disagree: model %s observed %s" % (m[:160], res[:300]),
                      replay=replay, found_input=False)
    cov.setdefault("distribution", {})["compaction_cases"] = dict(sorted(dist.items()))
    return mvi, ivo


def reread_decide(ck, out, rc, cov):
    """c18 reread: the file is altered while the database is open, between two reads.  Oracle: every
    read after the alteration is Err or returns exactly the original rows (a block still cached);
    after a reopen it is Err.  Prediction of the model (`getBlock`: every load from the file is
    verified at THAT read): capacity 0 -> Err, capacity 1024 -> the cached original; in between either."""
    mvi = {"compared": 0, "disagree": 0}
    ivo = {"compared": 0, "disagree": 0, "known": 0}
    dist = Counter()
    cases, wants = [], {}
    for line in out.split("\n"):
        try:
            if line.startswith("{\"reread_want\""):
                w = json.loads(line)
                wants[bool(w.get("keyed"))] = re.findall(r"\(([^)]*)\)", w["reread_want"])
            elif line.startswith("{\"file\""):
                cases.append(json.loads(line))
        except ValueError:
            pass
    if rc != 0 or not cases:
        ck.report("run:reread", "re-read run failed (rc=%s): %s" % (rc, out[-400:]), replay={"tail": out[-2000:]}, found_input=False)
    for c in cases:
        if not c["changed"]:
            continue
        res = c["res"]
        r = {}
        for k, v in re.findall(r"(open|reopen|q0|q1|q2|u|r1):(DIFF:(?:\([^)]*\) ?)*|\S+)", res):
            r[k] = "DIFF" if v.startswith("DIFF") else v
        pk = c["patch"].split(":")[0]
        dist["cache %d/%s -> q1:%s q2:%s r1:%s" % (c["cache"], pk, r.get("q1"), r.get("q2"), r.get("r1"))] += 1
        replay = {"file": c["file"], "table": "t (a int primary key, b varchar)" if c.get("keyed") else "t (a int, b varchar)", "block_cache_capacity": c["cache"],
                  "patch": c["patch"], "block": c["block"], "blocks_in_file": c["nblocks"], "observed": res[:1500],
                  "how": "c18 reread: default_for_cli options, target_block_size 64, cache_size as given; open; SELECT a, b FROM t ORDER BY a (q0: all blocks loaded and verified); apply the patch to the .col file IN PLACE while the database is open; SELECT again twice (q1, q2); SELECT k FROM u; reopen; SELECT (r1). Oracle: q1/q2 Err or the original 40 rows, r1 Err"}
        ivo["compared"] += 1
        viol = []
        if r.get("q0") != "same":
            viol.append(("reread:first-read", "the pristine table does not read back before the alteration: q0 = %s" % r.get("q0")))
        for q in ("q1", "q2", "r1"):
            if r.get(q) == "DIFF":
                viol.append(("reread:accepted-altered/cache-%s" % ("0" if c["cache"] == 0 else "n"),
                             "%s returns Ok with ALTERED rows: the block was loaded from the file again after the alteration (cache capacity %d) and returned without passing its checksum at that read" % (q, c["cache"])))
            elif r.get(q) not in ("same",) and not str(r.get(q, "")).startswith("err") and r.get(q) != "panic":
                viol.append(("reread:outcome", "%s: unexpected outcome %s" % (q, r.get(q))))
        if r.get("r1") == "same":
            viol.append(("reread:reopen-accepts", "after a reopen the altered file reads back Ok with the original rows (%s)" % c["patch"]))
        if r.get("u") != "same":
            viol.append(("reread:other-table", "untouched table u = %s" % r.get("u")))
        if viol:
            ivo["disagree"] += 1
        for sig, what in viol:
            ck.report(sig, "re-read, %s %s: %s" % (c["file"], c["patch"], what), replay=replay)
        # model prediction
        if c["cache"] in (0, 1024):
            mvi["compared"] += 1
            if c["cache"] == 0:
                # (a hit on an entry moka has not evicted yet would be `same`: tolerated, counted in the distribution)
                ok = all(str(r.get(q, "")).startswith("err") or r.get(q) == "same" for q in ("q1", "q2")) and str(r.get("r1", "")).startswith("err")
            else:
                ok = r.get("q1") == "same" and r.get("q2") == "same" and str(r.get("r1", "")).startswith("err")
            if not ok:
                mvi["disagree"] += 1
                ck.report("corr:reread/cache-%d/%s" % (c["cache"], pk), "model prediction (capacity 0: every read loads and verifies -> Err; capacity 1024: cache hit -> original rows; reopen -> Err) and outcome disagree: %s" % res[:300],
                          replay=replay, found_input=any(r.get(q) == "DIFF" for q in ("q1", "q2", "r1")))
    cov.setdefault("distribution", {})["reread_cases"] = dict(sorted(dist.items()))
    return mvi, ivo


def run(ck):
    n_cols = 8 if ck.quick() else 120
    n_disk = 1000 if ck.quick() else 20000
    rc, out = vlib.sh([sys.executable, os.path.join(vlib.VERIF, "translator", "gen_consts.py")])
    ck.log(out.strip())
    if rc != 0:
        ck.report("translator:consts", "storage-format constants can no longer be extracted: " + out.strip()[-300:], replay={"output": out[-2000:]}, found_input=False)
    bad = vlib.step_lean(ck, "RlModel.Thm.C18", THEOREMS, extra_targets=["drv_c18"])
    rcb, logb = vlib.lake_build(["RlModel.Thm.C18"])
    if rcb != 0 and not bad:
        ck.report("thm:module", "RlModel.Thm.C18 does not build (a tie to the regenerated source constants or an example fails)", replay={"log": logb[-2000:]}, found_input=False)
    ok, log = vlib.step_cargo(ck, ["c18"])
    if not ok:
        ck.report("build:harness", "harness does not build against the repository", replay={"log": log[-2000:]}, found_input=False)
        return ck.finish(level="proof")
    cov = ck.coverage
    # ---- column level
    gen_path = os.path.join(ck.work, "gen.txt")
    req_path = os.path.join(ck.work, "req.txt")
    vlib.sh([vlib.harness_bin("c18"), "gen", str(n_cols), gen_path])
    corpus = corpus_lines()
    reqs = corpus + [l for l in open(gen_path).read().split("\n") if l]
    open(req_path, "w").write("\n".join(reqs) + "\n")
    ck.log("column level: %d requests (%d corpus)" % (len(reqs), len(corpus)))
    (rc1, impl), (rc2, model) = vlib.run_pair(ck, [vlib.harness_bin("c18"), "run"], [vlib.lean_exe("drv_c18")], req_path)
    if rc1 != 0 or len(impl) < len(reqs):
        ck.report("run:harness", "harness run failed (rc=%s, %d answers for %d requests)" % (rc1, len(impl), len(reqs)), replay={"tail": "\n".join(impl[-3:])[-1500:]}, found_input=False)
    if rc2 != 0 or len(model) < len(reqs):
        ck.report("run:driver", "Lean driver failed (rc=%s)" % rc2, replay={"tail": "\n".join(model[-3:])[-1500:]}, found_input=False)
    mvi = {"compared": 0, "disagree": 0}
    ivo = {"compared": 0, "disagree": 0, "known": 0}
    mvo = {"compared": 0, "disagree": 0, "known": 0}
    kinds = Counter()
    outcomes = Counter()
    distinct = set()
    pending_col = {}
    for k, q in enumerate(reqs):
        a = impl[k].strip() if k < len(impl) else ""
        m = model[k].strip() if k < len(model) else ""
        t = q.split(" ")
        mvi["compared"] += 1
        if t[0] == "crc":
            kinds["crc"] += 1
            want = str(zlib.crc32(b"" if t[1] == "-" else bytes.fromhex(t[1])))
            ivo["compared"] += 1
            mvo["compared"] += 1
            if a != want:
                ivo["disagree"] += 1
                ck.report("oracle:crc", "implementation CRC differs from zlib.crc32 on %s" % q[:80], replay={"request": q, "impl": a, "zlib": want})
            if m != want:
                mvo["disagree"] += 1
            same = a == m
        elif t[0] == "idx":
            pk = t[2].split(":")[0]
            kinds["idx/" + pk] += 1
            outcomes["idx/%s -> %s" % (pk, a.split(":")[0] + (":" + a.split(":")[1] if a.startswith("err") else ""))] += 1
            same = idx_consistent(a, m)
            ivo["compared"] += 1
            v = idx_oracle(t, a)
            if t[2] != "none":
                distinct.add(q)
            if v:
                ivo["disagree"] += 1
            for sig, what in v:
                rp = {"request": q, "impl": a, "model": m}
                if sig and not sig.startswith("!"):
                    if ck.report(sig, "index file, %s: %s" % (t[2], what), replay=rp) == "known":
                        ivo["known"] += 1
                elif sig:
                    ck.report("oracle:idx/accepted-altered-" + sig[1:], what, replay=rp)
                else:
                    ck.report("oracle:idx/" + pk, what, replay=rp)
        elif t[0] == "col":
            pk = t[3].split(":")[0]
            kinds["col/" + pk] += 1
            same = a == m
            outs = a.split(" ") if a else []
            outcomes["col/%s -> %s" % (pk, ",".join(o.split(":")[0] + (":" + o.split(":")[1] if o.startswith("err") else "") for o in outs))] += 1
            ivo["compared"] += 1
            mvo["compared"] += 1
            v = col_oracle(t, outs)
            vm = col_oracle(t, m.split(" ") if m else [])
            if t[3] != "none":
                distinct.add(q)
            if vm:
                mvo["disagree"] += 1
                if all(s and not s.startswith("!") for s, _ in vm):
                    mvo["known"] += 1
            if v:
                ivo["disagree"] += 1
            for sig, what in v:
                rp = {"request": q[:6000], "impl": a[:3000], "model": m[:3000], "what": what}
                if sig and not sig.startswith("!"):
                    if ck.report(sig, "column level, %s, seq %s: %s" % (t[3], " ".join(t[4:]), what), replay=rp) == "known":
                        ivo["known"] += 1
                elif sig:
                    ck.report("oracle:col/accepted-altered-" + sig[1:], what, replay=rp)
                else:
                    ck.report("oracle:col/" + pk, what, replay=rp)
        else:
            same = a == m
        if not same:
            mvi["disagree"] += 1
            ov = col_oracle(t, a.split(" ")) if t[0] == "col" else idx_oracle(t, a) if t[0] == "idx" else []
            unexplained = any(s is None or s.startswith("!") for s, _ in ov)
            defer_corr(pending_col, "corr:%s/%s" % (t[0], (t[3] if t[0] == "col" else t[2] if t[0] == "idx" else "crc").split(":")[0]),
                       "model and implementation disagree on %s: impl %s model %s" % (q[:120], a[:160], m[:160]),
                       {"request": q[:6000], "impl": a[:3000], "model": m[:3000], "oracle_on_impl": [w for _, w in ov][:3]}, unexplained)
    flush_corr(ck, pending_col)
    # ---- disk level
    ck.log("disk level: %d corruption cases on an on-disk database" % n_disk)
    rc3, dout = vlib.sh([vlib.harness_bin("c18"), "disk", ck.work, str(n_disk)], timeout=3000)
    layouts, cases = {}, []
    for line in dout.split("\n"):
        if not line.startswith("{"):
            continue
        try:
            d = json.loads(line)
        except ValueError:
            continue
        if "want_t" in d:
            layouts["__want_t__"] = d["want_t"]
        elif "layout" in d:
            layouts[d["layout"]] = d
        elif "file" in d:
            cases.append(d)
    for name, lay in list(layouts.items()):
        if name.endswith(".idx"):
            layouts[name.replace(".idx", ".col")]["entries"] = [tuple(int(x) for x in e.split(",")) for e in lay["entries"].split(";")]
    if rc3 != 0 or not cases:
        ck.report("run:disk", "on-disk run failed (rc=%s): %s" % (rc3, dout[-400:]), replay={"tail": dout[-2000:]}, found_input=False)
    dreq = []
    for c in cases:
        lay = layouts[c["file"]]
        if c["file"].endswith(".col"):
            b = affected_block(c["patch"], lay["entries"], lay["len"])
            b = 0 if b is None else b
            dreq.append("col %s %s %s C g%d g%d g%d F g%d" % (lay["hex"], ";".join("%d,%d" % e for e in lay["entries"]), c["patch"], b, b, b, b))
        else:
            dreq.append("idx %s %s" % (lay["hex"], c["patch"]))
    rcm, mout = vlib.sh([vlib.lean_exe("drv_c18")], stdin="\n".join(dreq) + "\n")
    manswers = [l.strip() for l in mout.split("\n")][:len(cases)]
    dmvi, divo = disk_decide(ck, layouts, cases, manswers, cov)
    # ---- compaction reads it first
    n_comp = 320 if ck.quick() else 3000
    ck.log("compaction level: %d cases (two row-sets, one corrupted block, compaction passes before/after queries; half on a keyed table = MergeIterator path)" % n_comp)
    rc4, cout = vlib.sh([vlib.harness_bin("c18"), "compact", ck.work, str(n_comp)], timeout=3000)
    ccases = []
    cwants = {}
    for line in cout.split("\n"):
        if line.startswith("{\"compact_want\""):
            try:
                w = json.loads(line)
                cwants[bool(w.get("keyed"))] = re.findall(r"\(([^)]*)\)", w["compact_want"])
            except ValueError:
                pass
        if line.startswith("{\"file\""):
            try:
                ccases.append(json.loads(line))
            except ValueError:
                pass
    if rc4 != 0 or not ccases:
        ck.report("run:compact", "compaction run failed (rc=%s): %s" % (rc4, cout[-400:]), replay={"tail": cout[-2000:]}, found_input=False)
    creq = []
    for c in ccases:
        # layout of the file from the harness is not printed here: the model only needs the block, so
        # the request is built from the pristine bytes on the harness side (hex travels in `layout`)
        creq.append("col %s %s %s C g%d g%d g%d F g%d" % (c.get("hex", ""), c.get("entries", ""), c["patch"], c["block"], c["block"], c["block"], c["block"]))
    rcm2, mout2 = vlib.sh([vlib.lean_exe("drv_c18")], stdin="\n".join(creq) + "\n")
    cmans = [l.strip() for l in mout2.split("\n")][:len(ccases)]
    cmvi, civo = compact_decide(ck, ccases, cmans, cov, cwants)
    # ---- corruption BETWEEN reads of an open database (read, alter the file in place, read again)
    n_rr = 180 if ck.quick() else 1500
    ck.log("re-read level: %d cases (open with block-cache capacity 0 / 1 / 8 / 1024, read, alter one block in place, read twice, reopen)" % n_rr)
    rc5, rout = vlib.sh([vlib.harness_bin("c18"), "reread", ck.work, str(n_rr)], timeout=3000)
    rmvi, rivo = reread_decide(ck, rout, rc5, cov)
    for name, st in bad.items():
        ck.report("thm:" + name, "theorem %s is not discharged (%s)" % (name, st.get("status")), replay={"theorem": name, "status": st}, found_input=False)
    cov.setdefault("distribution", {}).update({"column_level_requests": dict(kinds), "column_level_outcomes": dict(sorted(outcomes.items())),
                                                "disk_files": {n: l["len"] for n, l in layouts.items() if isinstance(l, dict)}})
    cov.update({
        "evaluations": len(reqs) + len(cases) + len(ccases) + rivo["compared"],
        "distinct_nontrivial": len(distinct) + len({(c["file"], c["patch"]) for c in cases}),
        "rule": "distinct (file bytes, patch, read sequence) with a patch that changes at least one byte; on-disk: distinct (file, patch)",
        "samples": [r[:200] for r in reqs[len(corpus):len(corpus) + 2]] + [json.dumps(c)[:300] for c in cases[:3]],
        "model_vs_impl": {"compared": mvi["compared"] + dmvi["compared"] + cmvi["compared"] + rmvi["compared"], "disagree": mvi["disagree"] + dmvi["disagree"] + cmvi["disagree"] + rmvi["disagree"], "column_level": mvi, "disk_level": dmvi, "compaction_level": cmvi, "reread_level": rmvi},
        "impl_vs_oracle": {"compared": ivo["compared"] + divo["compared"] + civo["compared"] + rivo["compared"], "disagree": ivo["disagree"] + divo["disagree"] + civo["disagree"] + rivo["disagree"], "known": ivo["known"] + divo["known"] + civo["known"] + rivo["known"], "column_level": ivo, "disk_level": divo, "compaction_level": civo, "reread_level": rivo},
        "model_vs_oracle": mvo,
    })
    return ck.finish(level="proof", checker_cmd="translator/gen_consts.py; lake build RlModel.Thm.C18 drv_c18; #print axioms audit",
                     trusted_base=["Lean 4 kernel (axioms: propext, Classical.choice, Quot.sound)", "translator/gen_consts.py",
                                   "harness/src/bin/c18.rs + /repo hook storage::secondary::verif_hooks", "python zlib.crc32 (CRC oracle)",
                                   "moka cache modelled as: try_get_with publishes what the loader returns Ok (the loader verifies), a failed load is not cached; no eviction at these sizes",
                                   "protobuf content of index entries is not modelled (their length-delimited framing and count are)"])


def replay(path):
    rp = json.load(open(path))
    r = rp.get("replay") or {}
    print(json.dumps({k: (v if len(str(v)) < 600 else str(v)[:600] + "...") for k, v in r.items()}, indent=1))
    q = r.get("request")
    if q:
        os.makedirs(vlib.WORK, exist_ok=True)
        tmp = os.path.join(vlib.WORK, "replay_c18_%d.txt" % os.getpid())
        open(tmp, "w").write(q + "\n")
        rc1, o1 = vlib.sh([vlib.harness_bin("c18"), "run", tmp])
        rc2, o2 = vlib.sh([vlib.lean_exe("drv_c18")], stdin=q + "\n")
        os.unlink(tmp)
        print("impl :", o1.strip()[:1500])
        print("model:", o2.strip()[:1500])
    return 0
