"""C12 — ORDER BY, LIMIT and OFFSET are honoured on every storage layout.

1. Lean: theorems of RlModel.Thm.C12 (sort = sorted permutation, top-N = slice of the sort, LIMIT
   arithmetic, memtable/merge/concat scan order, order analysis under the scan contract and its
   refutation for the scan the executor really performs) + driver drv_c12.
2. Harness c12 (built from /repo's working tree): disk databases with tiny blocks, one row-set per
   INSERT, deletes; ORDER BY / LIMIT / OFFSET queries with the optimizer on and off, plus the
   storage-level merge scan.
3. Decision: model_vs_impl (Lean model on the optimized plan and the observed layout vs rows
   returned), impl_vs_oracle (python sort of the unordered result + slice; count/membership for
   LIMIT without ORDER BY), model_vs_oracle (the model's spec vs the same oracle).

This module also holds the helpers shared with checks/c13.py (same model file, same protocol).
"""
import collections
import json
import os

import vlib

THEOREMS = [
    "order_sorted_perm", "order_limit_slice", "topn_eq_order_limit", "limit_count", "limit_subset",
    "absent_limit", "limit_exec_spec", "topn_absent_limit", "merge_iter_sorted", "memtable_sorted",
    "compaction_sorted_perm", "merge_heap_bounds", "merge_heap_sorted", "topn_heap_eq_order_limit",
    "concat_scan_sorted_iff", "table_scan_sorted", "table_scan_sorted_under_range", "two_rowsets_scan_sorted", "scan_contract_sorted", "order_analysis_sound",
    "useless_order_sound_partial", "useless_order_sound", "reachable_rowsets_sorted", "useless_order_sound_reachable",
    "order_arm_Scan", "order_arm_Order", "order_arm_TopN", "order_arm_Proj", "order_arm_Filter", "order_arm_Window", "order_arm_Limit",
    "order_arm_MergeJoin", "order_arm_SortAgg", "order_merge_sound", "mergejoin_order_claim_needs_group_eq", "hashjoin_probe_order", "hashjoin_left_outer_order_unsound",
]

PRECEDENCE = [
    "topn:absent-limit", "order:pk-order-multi-rowset", "range:scan-filter-not-range", "range:null-bound", "range:key-type-not-i32",
    "range:key-not-first-scanned", "range:key-not-col0", "range:key-not-primary", "range:dup-keys-across-blocks",
]

# ---------------------------------------------------------------------------------------------
# s-expressions
# ---------------------------------------------------------------------------------------------


def parse_sexp(s):
    """Atoms are strings, lists are python lists."""
    stack = [[]]
    i, n = 0, len(s)
    while i < n:
        c = s[i]
        if c == "(":
            stack.append([])
            i += 1
        elif c == ")":
            top = stack.pop()
            stack[-1].append(top)
            i += 1
        elif c in " \t\r\n":
            i += 1
        else:
            j = i
            while j < n and s[j] not in "() \t\r\n":
                j += 1
            stack[-1].append(s[i:j])
            i = j
    if len(stack) != 1 or len(stack[0]) != 1:
        raise ValueError("bad s-expression: %s" % s[:200])
    return stack[0][0]


def field(lst, name):
    for x in lst:
        if isinstance(x, list) and x and x[0] == name:
            return x[1:]
    return None


def unhex(h):
    return bytes.fromhex(h).decode()


# ---------------------------------------------------------------------------------------------
# DataValue order on canonical value text (null lowest, then variant rank, then payload)
# ---------------------------------------------------------------------------------------------

RANK = {"null": 0, "b": 1, "i16": 2, "i32": 3, "i64": 4, "s": 6}


def vkey(v):
    if v == "null":
        return (0, 0)
    tag, rest = v.split(":", 1)
    if tag == "b":
        return (1, 1 if rest == "true" else 0)
    if tag in ("i16", "i32", "i64"):
        return (RANK[tag], int(rest))
    if tag == "s":
        return (6, bytes.fromhex(rest))
    raise ValueError(v)


class Rev:
    """reverses the order of a key component (DESC)"""

    def __init__(self, k):
        self.k = k

    def __lt__(self, o):
        return o.k < self.k

    def __eq__(self, o):
        return self.k == o.k


def order_key(keyvals, desc):
    return tuple(Rev(vkey(v)) if d else vkey(v) for v, d in zip(keyvals, desc))


def attributed_sigs(ans, agree, off_ok=True):
    """Counterfactual attribution: the model's minimal set of present mechanisms whose repair (in
    the model) restores the specification; only trusted when the model predicted the
    implementation's rows (`agree`) and the optimizer-off run agrees with the oracle (`off_ok`)."""
    attr = field(ans, "attr") or ["none"]
    if not agree or not off_ok or attr == ["none"] or not attr:
        return None
    return list(attr)


def bag(rows):
    return collections.Counter(tuple(r) for r in rows)


def sub_bag(a, b):
    """a ⊆ b as bags"""
    return all(b.get(k, 0) >= n for k, n in a.items())


def slice_equiv(full, got, m, n):
    """`full`: list of (keytuple, valtuple) in sorted order (ties in any order); `got`: list of
    valtuples.  True iff `got` is rows m..m+n of SOME ordering of `full` that differs only inside
    tie groups."""
    hi = len(full) if n is None else min(len(full), m + n)
    lo = min(m, len(full))
    if len(got) != max(0, hi - lo):
        return False
    # tie runs over the full list
    i = 0
    while i < len(full):
        j = i
        while j < len(full) and full[j][0] == full[i][0]:
            j += 1
        a, b = max(i, lo), min(j, hi)
        if a < b:
            grp = bag(v for _, v in full[i:j])
            mine = bag(got[a - lo:b - lo])
            if i >= lo and j <= hi:
                if grp != mine:
                    return False
            elif not sub_bag(mine, grp):
                return False
        i = j
    return True


# ---------------------------------------------------------------------------------------------
# running the two sides
# ---------------------------------------------------------------------------------------------


def run_cases(ck, binname, drv, case_lines, tag):
    """Runs the case lines on the implementation and the model. Returns list of dicts."""
    path = os.path.join(ck.work, "cases_%s.txt" % tag)
    with open(path, "w") as f:
        f.write("\n".join(case_lines) + "\n")
    nproc = 6
    chunks = [case_lines[i::nproc] for i in range(nproc)]
    procs = []
    import subprocess
    for k, ch in enumerate(chunks):
        if not ch:
            continue
        p = os.path.join(ck.work, "cases_%s_%d.txt" % (tag, k))
        with open(p, "w") as f:
            f.write("\n".join(ch) + "\n")
        env = dict(vlib.ENV)
        procs.append(subprocess.Popen([vlib.harness_bin(binname), "run", p, ck.work], stdout=subprocess.PIPE,
                                      stderr=subprocess.PIPE, text=True, env=env, errors="replace"))
    reqs, obss = {}, {}
    for p in procs:
        out, err = p.communicate(timeout=3000)
        if p.returncode != 0:
            raise RuntimeError("harness failed rc=%s: %s" % (p.returncode, err[-2000:]))
        for line in out.split("\n"):
            if line.startswith("REQ "):
                s = line[4:]
                cid = int(parse_sexp(s)[1])
                reqs[cid] = s
            elif line.startswith("OBS "):
                o = parse_sexp(line[4:])
                obss[int(o[1])] = o
    ids = [int(parse_sexp(l)[1]) for l in case_lines]
    rc, out = vlib.sh([vlib.lean_exe(drv)], stdin="\n".join(reqs[i] for i in ids) + "\n", timeout=3000)
    if rc != 0:
        raise RuntimeError("driver failed: %s" % out[-2000:])
    answers = {}
    for line in out.split("\n"):
        if line.startswith("(case "):
            a = parse_sexp(line)
            answers[int(a[1])] = a
    res = []
    for line in case_lines:
        c = parse_sexp(line)
        cid = int(c[1])
        res.append({"line": line, "case": c, "id": cid, "req": reqs.get(cid), "obs": obss.get(cid), "ans": answers.get(cid)})
    return res


def case_queries(c):
    qs = []
    for q in field(c, "queries") or []:
        # (query qid kind sqlhex nkeys (desc ..) (keypos ..) limit offset)
        qs.append({"qid": int(q[1]), "kind": q[2], "sql": unhex(q[3]), "nkeys": int(q[4]),
                   "desc": [x == "true" for x in q[5][1:]], "keypos": [int(x) for x in q[6][1:]],
                   "limit": None if q[7] == "none" else int(q[7]), "offset": None if q[8] == "none" else int(q[8])})
    return qs


def out_rows(o):
    """(ok r r ..) -> list of rows ; (panic ..)/(err) -> None"""
    if o[0] == "ok":
        return o[1:]
    return None


def model_rows(o):
    """model output (ok ((k..) (v..)) ...) -> [(keytuple, valtuple)] or None for panic"""
    if o[0] != "ok":
        return None
    return [(tuple(r[0]), tuple(r[1])) for r in o[1:]]


def case_sql(ck, binname, line):
    p = os.path.join(ck.work, "one_case.txt")
    with open(p, "w") as f:
        f.write(line + "\n")
    rc, out = vlib.sh([vlib.harness_bin(binname), "sql", p])
    return out


class Tally:
    def __init__(self):
        self.mvi = {"compared": 0, "disagree": 0}
        self.ivo = {"compared": 0, "disagree": 0}
        self.mvo = {"compared": 0, "disagree": 0}
        self.dist = collections.Counter()
        self.samples = []
        self.nontrivial = set()
        self.findings = []      # (sig, what, replay)
        self.corr = []          # model≠impl: (stream, what, replay)
        self.explained = collections.Counter()


def judge_case(r, T, prop):
    """Compares one case. Appends to T."""
    c, obs, ans = r["case"], r["obs"], r["ans"]
    cid = r["id"]
    if obs is None or ans is None or len(ans) < 3 or ans[2] == "bad-request":
        T.corr.append(("protocol", "case %d: missing observation or model answer" % cid, {"case": r["line"]}))
        return
    qs = case_queries(c)
    notes = field(obs, "notes") or []
    for nt in notes:
        T.dist["note:" + nt] += 1
    if notes:
        # a write statement failed on the implementation: the history is not the modelled one
        T.corr.append(("history", "case %d: a write statement did not succeed: %s" % (cid, notes), {"case": r["line"]}))
        return
    # layout
    lay_i = [x for x in (field(obs, "lay") or []) if len(x) > 2]
    lay_m = [x for x in (field(ans, "lay") or []) if len(x) > 2]
    T.mvi["compared"] += 1
    nrs = len(lay_i)
    T.dist["rowsets=%d" % nrs] += 1
    ops_ = field(c, "ops") or []
    T.dist["history: inserts=%d" % sum(1 for o in ops_ if o[0] == "ins")] += 1
    T.dist["history: deletes=%d" % sum(1 for o in ops_ if o[0] == "del")] += 1
    T.dist["history: compactions=%d" % sum(1 for o in ops_ if o[0] == "compact")] += 1
    T.dist["mode=" + ((field(c, "mode") or ["bg"])[0])] += 1
    if lay_i != lay_m:
        T.mvi["disagree"] += 1
        T.corr.append(("layout", "case %d: stored layout differs (memtable order / delete vectors): impl=%s model=%s" % (cid, lay_i, lay_m),
                       {"case": r["line"], "impl": lay_i, "model": lay_m}))
        # keep judging: the model-free oracle may turn the broken tie into a concrete failing query
    answers = [x for x in ans[2:] if isinstance(x, list) and x[0] == "ans"]
    scans_m = [x for x in ans[2:] if isinstance(x, list) and x[0] == "sc"]
    results = field(obs, "results") or []
    if len(answers) != len(qs) or len(results) != len(qs):
        T.corr.append(("protocol", "case %d: %d queries, %d answers, %d results" % (cid, len(qs), len(answers), len(results)), {"case": r["line"]}))
        return
    byq = collections.defaultdict(dict)
    plans = (field(parse_sexp(r["req"])[2:], "queries") or []) if r.get("req") else []
    for k, (q, a, res) in enumerate(zip(qs, answers, results)):
        q["plans"] = plans[k] if k < len(plans) else None
        q["pk"] = int(field(c, "pk")[0]) if field(c, "pkdecl")[0] == "col" and field(c, "pk")[0] != "none" else None
        byq[q["qid"]][q["kind"]] = (q, a, res)
    for qid, group in sorted(byq.items()):
        judge_query(r, T, prop, qid, group, nrs)
    # storage-level scans
    scans_i = field(obs, "scans") or []
    scans_c = field(c, "scans") or []
    for sreq, sm, si in zip(scans_c, scans_m, scans_i):
        judge_scan(r, T, prop, sreq, sm, si, nrs)


def judge_query(r, T, prop, qid, group, nrs):
    """One generated query = variants U (unordered, unlimited, select list P ++ K), A (ORDER BY K,
    unlimited, P ++ K) and main (as generated, select list P; optimizer on and off)."""
    cid = r["id"]
    qU, aU, rU = group["U"]
    q, a, res = group["main"]
    replay = {"case": r["line"], "qid": qid}
    nkeys, desc = qU["nkeys"], qU["desc"]
    implU = out_rows(field(rU, "on")[0])
    # plans outside the modelled subset (joins, aggregation, windows): the model-free oracle still
    # judges them; only the model comparisons are skipped
    modelled = not (aU[1] != "ok" or a[1] != "ok" or ("A" in group and group["A"][1][1] != "ok"))
    if not modelled:
        T.dist["plan outside the modelled subset (oracle only)"] += 1
    if implU is None:
        T.findings.append(("unexplained:unordered-query-failed", "case %d: %s failed" % (cid, qU["sql"]), replay))
        return
    implU = [tuple(x) for x in implU]

    def keyof(row):
        return tuple(row[len(row) - nkeys:]) if nkeys else ()

    if not modelled:
        return judge_query_oracle_only(r, T, qid, group, nrs, implU, keyof)

    # ---- U: bags ------------------------------------------------------------------------------
    mU = model_rows(field(aU, "exec")[0])
    T.mvi["compared"] += 1
    if mU is None or bag(v for _, v in mU) != bag(implU):
        T.mvi["disagree"] += 1
        T.corr.append(("unordered", "case %d: %s: model bag != impl bag" % (cid, qU["sql"]),
                       dict(replay, sql=qU["sql"], impl=implU, model=field(aU, "exec")[0])))
        return
    sU = model_rows(field(aU, "spec")[0])
    T.mvo["compared"] += 1
    if bag(v for _, v in sU) != bag(implU):
        T.mvo["disagree"] += 1
        T.corr.append(("spec:U", "case %d: %s: model spec bag != impl bag" % (cid, qU["sql"]), dict(replay, sql=qU["sql"])))
    # ---- references ---------------------------------------------------------------------------
    # oracle: python (stable) sort of the implementation's unordered result
    F = [(keyof(row), row) for row in sorted(implU, key=lambda row: order_key(keyof(row), desc))] if nkeys else None
    # model: spec of A (a true sort of the model's bag)
    Fm = None
    if "A" in group:
        Fm = [(k, v) for k, v in model_rows(field(group["A"][1], "spec")[0])]

    def ref(Fx, withkeys):
        return [(k, v if withkeys else v[:len(v) - nkeys]) for k, v in Fx]

    variants = []
    if "A" in group:
        qA, aA, rA = group["A"]
        variants.append(("A", qA, aA, field(rA, "on")[0], "exec", None, 0, True))
    variants.append(("main", q, a, field(res, "on")[0], "exec", q["limit"], q["offset"] or 0, False))
    variants.append(("off", q, a, field(res, "off")[0], "execb", q["limit"], q["offset"] or 0, False))
    poolP = bag(row[:len(row) - nkeys] if nkeys else row for row in implU)
    pending = []
    oracle_ok = {}
    for which, qq, aa, implo, mfield, lim, off, withkeys in variants:
        impl = out_rows(implo)
        got = None if impl is None else [tuple(x) for x in impl]
        tags = field(aa, "tags") or []
        mo = field(aa, mfield)[0]
        mrows = model_rows(mo)
        sql = qq["sql"] + (" [optimizer off]" if which == "off" else "")
        if len(T.samples) < 8:
            T.samples.append(sql)
        rep = dict(replay, sql=sql, impl=implo, model=mo, tags=tags)
        plan_sorts = True if which == "off" else (field(aa, "sorted") or ["true"])[0] == "true"
        # --- model vs impl ---
        T.mvi["compared"] += 1
        if mrows is None:
            agree = got is None or got == []      # executor task panicked: Ok with no rows
        elif got is None:
            agree = False
        elif nkeys == 0:
            if lim is None and off == 0:
                agree = bag(got) == bag(v for _, v in mrows)
            else:
                agree = len(got) == len(mrows) and sub_bag(bag(got), poolP)
        elif not plan_sorts:
            agree = got == [v for _, v in mrows]   # no sort executed: scan order given the snapshot order
        else:
            agree = slice_equiv(ref(Fm, withkeys), got, off, lim)
        if not agree:
            T.mvi["disagree"] += 1
            T.corr.append(("query:" + which, "case %d: %s: model and implementation disagree" % (cid, sql), rep))
        # --- impl vs oracle ---
        T.ivo["compared"] += 1
        ok, why = True, ""
        if got is None:
            ok, why = False, "statement failed"
        elif nkeys == 0:
            want = max(0, len(implU) - off) if lim is None else min(lim, max(0, len(implU) - off))
            if len(got) != want:
                ok, why = False, "returns %d rows, expected %d" % (len(got), want)
            elif not sub_bag(bag(got), poolP):
                ok, why = False, "returns rows that are not in the full result"
        else:
            rf = ref(F, withkeys)
            if not slice_equiv(rf, got, off, lim):
                want = len(rf[off:]) if lim is None else len(rf[off:off + lim])
                ok = False
                why = ("returns %d rows, expected %d" % (len(got), want)) if len(got) != want else \
                    "does not return rows %d.. of the key order (got keys/rows %s)" % (off + 1, got[:6])
        T.dist["variant:" + which] += 1
        oracle_ok[which] = ok
        if ok and got and nrs >= 2:
            T.nontrivial.add((cid, sql))
        if not ok:
            T.ivo["disagree"] += 1
            pending.append((which, agree, "%s %s (case %d, %d row-sets)" % (sql, why, cid, nrs), rep, aa))
        # --- model (spec) vs oracle ---
        if which != "off":
            T.mvo["compared"] += 1
            srows = [v for _, v in model_rows(field(aa, "spec")[0])]
            if nkeys == 0:
                good = sub_bag(bag(srows), poolP) and (lim is not None or off != 0 or bag(srows) == poolP)
            else:
                good = slice_equiv(ref(F, withkeys), srows, off, lim)
            if not good:
                T.mvo["disagree"] += 1
                T.corr.append(("spec:" + which, "case %d: %s: the model's specification disagrees with the oracle" % (cid, sql), rep))
    for which, agree, what, rep, aa in pending:
        # optimizer-off counterfactual on the implementation: the unoptimized plan must be right
        sigs = attributed_sigs(aa, agree, off_ok=(which == "off" or oracle_ok.get("off", False)))
        if which == "off" or sigs is None:
            T.findings.append(("unexplained:" + which, what, rep))
            continue
        for sg in sigs:
            T.explained[sg] += 1
            T.findings.append((sg, what + ("" if len(sigs) == 1 else " [jointly: %s]" % " + ".join(sigs)), dict(rep, attributed=sigs)))
    T.dist["limit=%s" % ("absent" if q["limit"] is None else ("0" if q["limit"] == 0 else ("big" if q["limit"] > 1000 else "small")))] += 1
    T.dist["offset=%s" % ("absent" if q["offset"] is None else ("0" if q["offset"] == 0 else ("big" if q["offset"] > 100 else "small")))] += 1
    T.dist["keys=%d" % nkeys] += 1
    T.dist["plan:" + ("sort-kept" if (field(a, "sorted") or ["true"])[0] == "true" else ("sort-removed" if nkeys else "no-order-by"))] += 1
    for t in field(a, "tags") or []:
        T.dist["tag:" + t] += 1


def plan_ops(p, acc=None):
    """operator heads of a plan s-expression, outermost first"""
    acc = [] if acc is None else acc
    if isinstance(p, list) and p and isinstance(p[0], str):
        acc.append(p[0])
        for x in p[1:]:
            plan_ops(x, acc)
    return acc


def find_nodes(p, head, acc=None):
    acc = [] if acc is None else acc
    if isinstance(p, list) and p:
        if p[0] == head:
            acc.append(p)
        for x in p[1:]:
            find_nodes(x, head, acc)
    return acc


def order_mechanism(q):
    """Signature of a dropped ORDER BY from the reported plans (no model for joins): which operator
    of the optimized plan the planner's order analysis trusted."""
    pl = q.get("plans")
    if not pl or len(pl) < 3:
        return None
    bound, opt = pl[1], pl[2]
    top = []
    p = opt
    while isinstance(p, list) and p and p[0] in ("proj", "filter", "limit", "order", "topn", "window"):
        top.append(p[0])
        p = p[-1]
    if "order" in top or "topn" in top:
        return None             # a sort is executed: not an order-analysis matter
    if not (isinstance(p, list) and p):
        return None
    if p[0] in ("join", "hashjoin") and q.get("pk") is not None:
        # a merge join on the two primary keys is in the same e-class: ExprAnalysis::merge takes
        # the MAX of the members' order properties, useless-order fires for the class, and the
        # extractor then picks this (unordered) member
        refs = []

        def cols(x):
            if isinstance(x, str):
                if x.startswith("$"):
                    refs.append(x)
            else:
                for y in x[1:]:
                    cols(y)
        for part in ((p[2],) if p[0] == "join" else (p[3], p[4])):
            cols(part)
        if len(refs) >= 2 and all(x.split(".")[-1] == str(q["pk"]) for x in refs) and len({x.split(".")[0] for x in refs}) == 2:
            return "order:eclass-order-max"
    if p[0] == "mergejoin":
        # an input ordered by MORE than the join key (an `order` node with >= 2 keys below the join)
        for side in (p[5], p[6]):
            for o in find_nodes(side, "order"):
                if isinstance(o[1], list) and len(o[1]) > 2:
                    return "order:mergejoin-input-order-longer-than-join-key"
        return "order:mergejoin-%s" % p[1]
    return "order:%s" % p[0]


def judge_query_oracle_only(r, T, qid, group, nrs, implU, keyof):
    """Joins, aggregation, windows: no model; ORDER BY = sorted permutation of the unordered result,
    LIMIT = slice, judged on the implementation's own results."""
    cid = r["id"]
    qU, aU, rU = group["U"]
    q, a, res = group["main"]
    nkeys, desc = qU["nkeys"], qU["desc"]
    replay = {"case": r["line"], "qid": qid}
    if not nkeys:
        return
    F = [(keyof(row), row) for row in sorted(implU, key=lambda row: order_key(keyof(row), desc))]

    def ref(withkeys):
        return [(k, v if withkeys else v[:len(v) - nkeys]) for k, v in F]

    variants = []
    if "A" in group:
        qA, aA, rA = group["A"]
        variants.append(("A", qA, field(rA, "on")[0], None, 0, True))
    variants.append(("main", q, field(res, "on")[0], q["limit"], q["offset"] or 0, False))
    variants.append(("off", q, field(res, "off")[0], q["limit"], q["offset"] or 0, False))
    ops = plan_ops(q["plans"][2]) if q.get("plans") and len(q["plans"]) > 2 else []
    for o in ("mergejoin", "hashjoin", "join", "sortagg", "hashagg", "window"):
        if o in ops:
            T.dist["oracle-only plan with " + o] += 1
    fails = {}
    for which, qq, implo, lim, off, withkeys in variants:
        impl = out_rows(implo)
        sql = qq["sql"] + (" [optimizer off]" if which == "off" else "")
        T.ivo["compared"] += 1
        if impl is None:
            if which == "off":
                T.dist["optimizer-off run failed (oracle-only plan)"] += 1
                T.ivo["compared"] -= 1
                continue
            fails[which] = (qq, sql, "statement failed", implo)
            continue
        got = [tuple(x) for x in impl]
        rf = ref(withkeys)
        if not slice_equiv(rf, got, off, lim):
            want = len(rf[off:]) if lim is None else len(rf[off:off + lim])
            why = ("returns %d rows, expected %d" % (len(got), want)) if len(got) != want else \
                "does not return rows %d.. of the key order (got %s)" % (off + 1, got[:8])
            fails[which] = (qq, sql, why, implo)
        elif got and nrs >= 2:
            T.nontrivial.add((cid, sql))
    for which, (qq, sql, why, implo) in fails.items():
        T.ivo["disagree"] += 1
        sig = order_mechanism(qq) if which != "off" and "off" not in fails else None
        T.findings.append((sig or ("unexplained:" + which), "%s %s (case %d, %d row-sets)" % (sql, why, cid, nrs),
                           dict(replay, sql=sql, impl=implo, plans=qq.get("plans"))))


def judge_scan(r, T, prop, sreq, sm, si, nrs):
    cid = r["id"]
    if sm[1] == "bad-request":
        T.corr.append(("protocol", "case %d: bad scan request" % cid, {"case": r["line"]}))
        return
    mexec = model_rows(field(sm, "exec")[0])
    impl = out_rows(si)
    sorted_ = sreq[3] == "true"
    T.mvi["compared"] += 1
    rep = {"case": r["line"], "scan": sreq, "impl": si, "model": field(sm, "exec")[0]}
    if mexec is None:
        agree = impl is None
    elif impl is None:
        agree = False
    elif sorted_:
        agree = slice_equiv(mexec, [tuple(x) for x in impl], 0, None)
        # the model runs the real binary heap: record (without judging) whether even the order of
        # equal keys is reproduced
        T.dist["merge scan: tie order %s" % ("reproduced" if [v for _, v in mexec] == [tuple(x) for x in impl] else "differs")] += 1
    else:
        agree = [v for _, v in mexec] == [tuple(x) for x in impl]
    T.dist["scan:%s%s" % ("sorted" if sorted_ else "plain", "+range" if sreq[2] != "none" else "")] += 1
    if not agree:
        T.mvi["disagree"] += 1
        T.corr.append(("scan", "case %d: storage scan %s: model and implementation disagree" % (cid, sreq), rep))
    return agree, mexec, impl


# ---------------------------------------------------------------------------------------------
# implementation-level counterfactuals: the same data / query with ONE thing changed must satisfy
# the oracle, otherwise the attribution to that signature is wrong
# ---------------------------------------------------------------------------------------------


def sexp_str(x):
    if isinstance(x, list):
        return "(" + " ".join(sexp_str(y) for y in x) + ")"
    return x


def set_field(c, name, vals):
    for i, x in enumerate(c):
        if isinstance(x, list) and x and x[0] == name:
            c[i] = [name] + vals
            return
    c.append([name] + vals)


def cf_case(sig, line, qid):
    """Returns the modified case line for the counterfactual of `sig`, or None if not applicable."""
    import re
    c = parse_sexp(line)
    ops = field(c, "ops") or []
    if sig == "order:pk-order-multi-rowset":
        if any(o[0] != "ins" for o in ops):
            return None
        rows = [r for o in ops for r in o[1:]]
        set_field(c, "ops", [["ins"] + rows])           # a single INSERT = a single row-set
        set_field(c, "mode", ["bg"])
        return sexp_str(c)
    if sig == "topn:absent-limit":
        qs = field(c, "queries")
        for q in qs:
            if int(q[1]) == qid and q[2] == "main":
                sql = bytes.fromhex(q[3]).decode()
                if " offset " not in sql or " limit " in sql:
                    return None
                q[3] = sql.replace(" offset ", " limit 100000 offset ").encode().hex()
                q[7] = "100000"
        return sexp_str(c)
    if sig == "range:dup-keys-across-blocks":
        set_field(c, "block", ["16384"])                  # one block per column: no boundary
        return sexp_str(c)
    if sig in ("range:key-not-first-scanned", "range:key-not-col0"):
        pk = field(c, "pk")[0]
        if pk in ("none", "0"):
            return None
        k = int(pk)

        def m(i):
            i = int(i)
            return str(0 if i == k else (k if i == 0 else i))

        def swap(lst):
            lst = list(lst)
            lst[0], lst[k] = lst[k], lst[0]
            return lst

        set_field(c, "cols", swap(field(c, "cols")))
        set_field(c, "pk", ["0"])
        new_ops = []
        for o in ops:
            if o[0] == "ins":
                new_ops.append(["ins"] + [swap(r) for r in o[1:]])
            elif o[0] == "del":
                new_ops.append(["del", m(o[1])] + o[2:])
            else:
                new_ops.append(o)
        set_field(c, "ops", new_ops)
        for q in field(c, "queries"):
            sql = bytes.fromhex(q[3]).decode()
            sql = re.sub(r"\bc(\d+)\b", lambda mm: "c" + m(mm.group(1)), sql)
            q[3] = sql.encode().hex()
            for part in q[9:]:
                if isinstance(part, list) and part and part[0] == "where":
                    for a in part[1:]:
                        a[0] = m(a[0])
        for sc in field(c, "scans") or []:
            sc[1] = ["cols"] + [m(x) for x in sc[1][1:]]
        return sexp_str(c)
    return None


def run_counterfactuals(ck, T, binname, drv, judge):
    """For the first finding of each attributed signature, re-runs its case with the mechanism's
    precondition removed (single INSERT / explicit LIMIT / one block / key as column 0); the query
    must then satisfy the oracle. Returns {sig: outcome}."""
    out = {}
    todo = []
    for sig, what, rep in T.findings:
        if sig.startswith("unexplained") or sig in out or "case" not in rep or len(rep.get("attributed") or [sig]) != 1:
            continue
        line = cf_case(sig, rep["case"], rep.get("qid"))
        if line is None:
            continue        # try a later finding of the same signature
        out[sig] = "pending"
        todo.append((sig, line, rep))
    if not todo:
        return out
    lines = []
    for k, (sig, line, rep) in enumerate(todo):
        c = parse_sexp(line)
        lines.append(line.replace("(case %s " % c[1], "(case %d " % (2000000 + k), 1))
    res = run_cases(ck, binname, drv, lines, "cf")
    for (sig, line, rep), r in zip(todo, res):
        T2 = Tally()
        judge(r, T2)
        # the same query (or some storage scan) must now satisfy the oracle
        if rep.get("qid") is not None:
            still = [f for f in T2.findings if f[2].get("qid") == rep["qid"]]
        else:
            still = [f for f in T2.findings if "scan" in f[2]]
        if still:
            out[sig] = "counterfactual still fails"
            T.findings.append(("cf-failed:" + sig, "attribution to %s not confirmed: with the precondition removed the query still fails: %s" % (sig, still[0][1]),
                               {"case": r["line"], "original": rep.get("case"), "qid": rep.get("qid")}))
        else:
            out[sig] = "agrees with the oracle"
    return out


# ---------------------------------------------------------------------------------------------
# small-domain search (model first, then replay on the implementation)
# ---------------------------------------------------------------------------------------------


def _q(qid, kind, sql, nkeys, desc, keypos, lim, off, where=(), whpos=()):
    return "(query %d %s %s %d (desc %s) (keypos %s) %s %s (where %s) (whpos %s))" % (
        qid, kind, sql.encode().hex(), nkeys, " ".join(desc), " ".join(map(str, keypos)), lim, off,
        " ".join(where), " ".join(map(str, whpos)))


def hit_to_case(hit, cid):
    """(found c12|c13 (attr ..) (ncols n) (key k) ... (rowsets ((row) ...) ...)) -> case line"""
    kind = hit[1]
    ncols = int(field(hit, "ncols")[0])
    k = int(field(hit, "key")[0])
    rowsets = field(hit, "rowsets")
    ops = " ".join("(ins %s)" % " ".join("(%s)" % " ".join(r) for r in rs) for rs in rowsets)
    cols = " ".join("(i32 false)" for _ in range(ncols))
    if kind == "c13":
        scols = field(hit, "cols")
        rng = field(hit, "range")
        atoms, where = [], []
        lo, hi = rng
        for b, ops_ in ((lo, {"incl": ">=", "excl": ">"}), (hi, {"incl": "<=", "excl": "<"})):
            if b != "unb":
                v = b[1].split(":")[1]
                atoms.append("c%d %s %s" % (k, ops_[b[0]], v))
                where.append("(%d %s %s false)" % (k, ops_[b[0]], b[1]))
        sel = ", ".join("c%s" % c for c in scols)
        qs = []
        if atoms:
            qs.append(_q(0, "main", "select %s from t where %s" % (sel, " and ".join(atoms)), 0, [], [], "none", "none", where, []))
            qs.append(_q(0, "U", "select %s%s from t" % (sel, "".join(", c%d" % k for _ in atoms)), len(atoms), [], [], "none", "none", where,
                         [len(scols) + i for i in range(len(atoms))]))
        scans = "(s (cols %s) none false) (s (cols %s) (range %s %s) false)" % (" ".join(scols), " ".join(scols), sexp_str(lo), sexp_str(hi))
        return "(case %d (mode bg) (block 24) (cols %s) (pk %d) (pkdecl col) (ops %s) (queries %s) (scans %s))" % (cid, cols, k, ops, " ".join(qs), scans)
    keyed = field(hit, "keyed")[0] == "true"
    desc = field(hit, "desc")[0]
    lim = field(hit, "limit")[0]
    off = field(hit, "offset")[0]
    ob = " order by c%d%s" % (k, " desc" if desc == "true" else "")
    tail = ("" if lim == "none" else " limit %s" % lim) + ("" if off == "0" else " offset %s" % off)
    qs = [_q(0, "main", "select c%d from t%s%s" % (k, ob, tail), 0, [desc], [0], lim, "none" if off == "0" else off),
          _q(0, "A", "select c%d, c%d from t%s" % (k, k, ob), 1, [desc], [1], "none", "none"),
          _q(0, "U", "select c%d, c%d from t" % (k, k), 1, [desc], [1], "none", "none")]
    return "(case %d (mode bg) (block 24) (cols %s) (pk %s) (pkdecl %s) (ops %s) (queries %s) (scans (s (cols %s) none false)))" % (
        cid, cols, k if keyed else "none", "col" if keyed else "none", ops, " ".join(qs), " ".join(str(c) for c in range(ncols)))


def model_search(ck, T, which, binname, drv, judge):
    """Enumerates the small domain on the MODEL (<= 3 row-sets x <= 4 rows, keys 0..2, every key
    position / scan list / bound kind / direction / limit kind) looking for inputs on which the
    PROPERTY fails, grouped by the minimal set of known mechanisms that explains the failure;
    the smallest input of every group is replayed on the implementation. A group that no
    mechanism explains (`none`), confirmed by the model-free oracle on the implementation, is a
    concrete violation."""
    rc, out = vlib.sh([vlib.lean_exe(drv)], stdin="(search %s)\n" % which, timeout=600)
    line = [l for l in out.split("\n") if l.startswith("(search ")]
    if rc != 0 or not line:
        T.corr.append(("search", "model search did not run: %s" % out[-500:], {}))
        return {}
    res = parse_sexp(line[0])
    hits = [x for x in res[2:] if isinstance(x, list) and x[0] == "found"]
    info = {"enumerated": int(field(res[2:], "enumerated")[0]), "property_fails_in_model": int(field(res[2:], "failing")[0]),
            "groups": {" + ".join(field(h, "attr")): None for h in hits}}
    lines = [hit_to_case(h, 3000000 + i) for i, h in enumerate(hits)]
    runs = run_cases(ck, binname, drv, lines, "search")
    for h, r in zip(hits, runs):
        attr = field(h, "attr")
        T2 = Tally()
        judge(r, T2)
        failing = [f for f in T2.findings]
        info["groups"][" + ".join(attr)] = "replayed on the implementation: %s" % (
            "property fails there too (%s)" % ", ".join(sorted({f[0] for f in failing})) if failing else "property holds there")
        T.mvi["compared"] += T2.mvi["compared"]
        T.mvi["disagree"] += T2.mvi["disagree"]
        T.corr.extend(T2.corr)
        for sig, what, rep in failing:
            if attr == ["none"] and not sig.startswith("unexplained"):
                sig = "unexplained:search"
            T.findings.append((sig, "[small-domain search] " + what, rep))
    return info


def impl_search(ck, T, which, binname, drv, judge, n=150):
    """When the tie between model and code is broken the model cannot guide the search: replay a
    seeded sample of the small domain directly on the implementation and judge it with the
    model-free oracle."""
    import random
    rnd = random.Random(ck.seed)
    lines = []
    for i in range(n):
        ncols = rnd.choice([1, 2])
        k = rnd.randrange(ncols)
        nrs = rnd.choice([1, 2, 2, 3])
        rowsets = []
        for rsid in range(nrs):
            keys = sorted(rnd.choice([0, 1, 2]) for _ in range(rnd.randint(1, 4 if nrs < 3 else 2)))
            rowsets.append([[("i32:%d" % v) if c == k else ("i32:%d" % rnd.choice([0, 7 - j - 3 * rsid])) for c in range(ncols)] for j, v in enumerate(keys)])
        if which == "c13":
            scols = rnd.choice([[str(k)], [str(c) for c in range(ncols)], [str(c) for c in reversed(range(ncols))]])

            def b():
                kind = rnd.choice(["unb", "incl", "excl"])
                return "unb" if kind == "unb" else [kind, "i32:%d" % rnd.choice([0, 1, 2])]
            hit = ["found", "c13", ["attr", "sample"], ["ncols", str(ncols)], ["key", str(k)], ["cols"] + scols, ["range", b(), b()], ["rowsets"] + rowsets]
        else:
            lim, off = rnd.choice([("none", "0"), ("1", "0"), ("2", "1"), ("none", "0")])
            hit = ["found", "c12", ["attr", "sample"], ["ncols", str(ncols)], ["key", str(k)], ["keyed", rnd.choice(["true", "true", "false"])],
                   ["desc", rnd.choice(["false", "true"])], ["limit", lim], ["offset", off], ["rowsets"] + rowsets]
        lines.append(hit_to_case(hit, 4000000 + i))
    runs = run_cases(ck, binname, drv, lines, "implsearch")
    found = 0
    for r in runs:
        T2 = Tally()
        judge(r, T2)
        for sig, what, rep in T2.findings:
            found += 1
            T.findings.append((sig, "[small-domain sample on the implementation] " + what, rep))
    return {"sampled": n, "oracle_failures": found}


# ---------------------------------------------------------------------------------------------
# translator: the loop bounds of MergeIterator::replace_pending_data are DATA in the source; they
# are re-extracted on every run into lean/RlModel/Gen/MergeHeap.lean, the model's sift-down uses
# them, and theorem `merge_heap_bounds` must re-prove that they are the exact heap bounds
# ---------------------------------------------------------------------------------------------


def _rust_expr_to_lean(e, lets):
    """usize expression over processing_element / heap length / earlier lets -> Lean Nat term"""
    import re
    e = e.strip()
    for _ in range(8):      # substitute earlier `let` bindings
        for name, val in lets.items():
            e = re.sub(r"\b%s\b" % re.escape(name), "(" + val + ")", e)
    e = e.replace("self.pending_heap.len()", "len").replace("self.pending_data_len()", "len")
    e = re.sub(r"\bprocessing_element\b", "i", e)
    if not re.fullmatch(r"[\s0-9+\-*()a-z]*", e) or re.search(r"[a-z_]{2,}", e.replace("len", "")):
        raise ValueError("cannot translate expression: " + e)
    return e


def gen_merge_heap(repo):
    import re
    src = open(os.path.join(repo, "src/storage/secondary/merge_iterator.rs")).read()
    m = re.search(r"fn replace_pending_data\b.*?\n    }\n", src, re.S)
    if not m:
        raise ValueError("replace_pending_data not found")
    body = m.group(0)
    lets = {}
    for lm in re.finditer(r"let (?:mut )?(\w+) = ([^;{]+);", body):
        name, val = lm.group(1), lm.group(2).strip()
        if name in ("pop_data", "selected_child", "processing_element"):
            continue
        lets[name] = val
    stop = re.search(r"if left_child\s*(>=|>)\s*([^{]+)\{", body)
    rok = re.search(r"if right_child\s*(<=|<)\s*([^\n&{]+)", body)
    if not (stop and rok and "left_child" in lets and "right_child" in lets):
        raise ValueError("loop bounds of replace_pending_data not recognised")
    only = {k: v for k, v in lets.items() if k not in ("left_child", "right_child")}
    left_idx = _rust_expr_to_lean(lets["left_child"], only)
    right_idx = _rust_expr_to_lean(lets["right_child"], dict(only, left_child=lets["left_child"]))
    stop_rhs = _rust_expr_to_lean(stop.group(2), only)
    rok_rhs = _rust_expr_to_lean(rok.group(2), only)
    text = """/- GENERATED on every run of ./check C12 by checks/c12.py (gen_merge_heap) from
   src/storage/secondary/merge_iterator.rs, fn replace_pending_data. Do not edit. -/
namespace RlModel.Gen

/-- `let left_child = %s;` -/
def mergeLeftIdx (i : Nat) : Nat := %s

/-- `let right_child = %s;` -/
def mergeRightIdx (i : Nat) : Nat := %s

/-- `if left_child %s %s { break }` -/
def mergeLeftStop (left len : Nat) : Bool := decide (left %s %s)

/-- `if right_child %s %s && ...` -/
def mergeRightOk (right len : Nat) : Bool := decide (right %s %s)

end RlModel.Gen
""" % (lets["left_child"], left_idx, lets["right_child"], right_idx,
       stop.group(1), stop.group(2).strip(), {">=": "≥", ">": ">"}[stop.group(1)], stop_rhs,
       rok.group(1), rok.group(2).strip(), {"<": "<", "<=": "≤"}[rok.group(1)], rok_rhs)
    path = os.path.join(vlib.LEAN, "RlModel", "Gen", "MergeHeap.lean")
    old = open(path).read() if os.path.exists(path) else None
    if old != text:
        with open(path, "w") as f:
            f.write(text)
    return text


def gen_rowset_stop(repo, write=True):
    import re
    lean_dir = vlib.LEAN
    """Re-extracts from RowSetIterator::next_batch_inner the condition under which a range scan ends
    after the current batch (`if <cond> { self.end = true; }` inside the range-filter block) and
    writes lean/RlModel/Gen/RowSetStop.lean."""
    src = open(os.path.join(repo, "src/storage/secondary/rowset/rowset_iterator.rs")).read()
    m = re.search(r"if let Some\(range\) = &self\.filter(.*?)arrays\.push\(array\);", src, re.S)
    if not m:
        raise ValueError("range-filter block of next_batch_inner not found")
    block = m.group(1)
    conds = re.findall(r"if ([^{}]+?)\{\s*self\.end = true;\s*\}", block)
    if len(conds) != 1:
        raise ValueError("expected exactly one `if … { self.end = true; }` in the range-filter block, found %d" % len(conds))
    cond = " ".join(conds[0].split())
    e = cond
    for a, b in (("start_row_id", "lo"), ("end_row_id", "hi"), ("array.len()", "len")):
        e = e.replace(a, b)
    e = e.replace("==", "=").replace("!=", "≠").replace(">=", "≥").replace("<=", "≤").replace("&&", "∧").replace("||", "∨")
    if not re.fullmatch(r"[\s0-9()=≠≥≤<>∧∨+\-*]*(?:(?:lo|hi|len)[\s0-9()=≠≥≤<>∧∨+\-*]*)*", e):
        raise ValueError("cannot translate stop condition: " + cond)
    text = """/- GENERATED on every run of ./check C13 by checks/c13.py (gen_rowset_stop) from
   src/storage/secondary/rowset/rowset_iterator.rs, fn next_batch_inner. Do not edit. -/
namespace RlModel.Gen

/-- `if %s { self.end = true; }` — `lo`/`hi` = start_row_id/end_row_id of the batch's mask,
`len` = rows in the batch -/
def rangeStop (lo hi len : Nat) : Bool := decide (%s)

end RlModel.Gen
""" % (cond, e)
    path = os.path.join(lean_dir, "RlModel", "Gen", "RowSetStop.lean")
    if write:
        old = open(path).read() if os.path.exists(path) else None
        if old != text:
            open(path, "w").write(text)
    return text


# ---------------------------------------------------------------------------------------------
# translator: the match arms of `analyze_order` (what order the planner claims for each operator)
# ---------------------------------------------------------------------------------------------
import re

FIELDS = {
    "Order": ["keys", "child"], "TopN": ["limit", "offset", "keys", "child"], "Proj": ["exprs", "child"],
    "Filter": ["cond", "child"], "Window": ["fns", "child"], "Limit": ["limit", "offset", "child"],
    "SortAgg": ["keys", "aggs", "child"], "HashAgg": ["keys", "aggs", "child"], "Agg": ["aggs", "child"],
    "Empty": ["child"], "Distinct": ["keys", "child"],
    "MergeJoin": ["type", "cond", "lkeys", "rkeys", "left", "right"],
    "HashJoin": ["type", "cond", "lkeys", "rkeys", "left", "right"],
    "Join": ["type", "cond", "left", "right"], "Apply": ["type", "left", "right"],
}
JOINS = {"MergeJoin", "HashJoin", "Join", "Apply"}
JT = {"Inner": "inner", "LeftOuter": "leftOuter", "RightOuter": "rightOuter", "FullOuter": "fullOuter", "Semi": "semi", "Anti": "anti"}
ROLE = {"keys": "keys", "child": "xc", "left": "xl", "right": "xr", "lkeys": "lks", "rkeys": "rks"}
SCAN_BODY_SHA = None   # filled below from the text this translator understands
SCAN_BODY = """{ let primary_key = egraph[*cols].as_list().iter().find(|id| { let catalog = &egraph.analysis.catalog; match catalog.get_column(&egraph[**id].as_column()) { Some(col) => col.is_primary(), None => false, } }); match primary_key { Some(id) => Box::new([*id]), None => Box::new([]), } }"""


def _matching(s, i):
    """index just after the bracket matching s[i] ('{' or '[' or '(')"""
    open_, close = s[i], {"{": "}", "[": "]", "(": ")"}[s[i]]
    d = 0
    for j in range(i, len(s)):
        if s[j] == open_:
            d += 1
        elif s[j] == close:
            d -= 1
            if d == 0:
                return j + 1
    raise ValueError("unbalanced")


def _arms(body):
    """splits the inside of a `match … { … }` into (pattern, body) at depth 0"""
    arms, i, n = [], 0, len(body)
    while i < n:
        while i < n and body[i] in " \n\t,":
            i += 1
        if i >= n:
            break
        j = body.index("=>", i)
        pat = body[i:j].strip()
        k = j + 2
        while body[k] in " \n\t":
            k += 1
        if body[k] == "{":
            e = _matching(body, k)
        elif body.startswith("match", k):
            b = body.index("{", k)
            e = _matching(body, b)
        else:
            d, e = 0, k
            while e < n and not (body[e] == "," and d == 0):
                d += body[e] in "([{"
                d -= body[e] in ")]}"
                e += 1
        arms.append((pat, " ".join(body[k:e].split())))
        i = e
    return arms


def _claim_expr(body, binds, op):
    """x(v).clone() / Box::new([]) -> Lean term over keys/xc/xl/xr/lks/rks"""
    if re.fullmatch(r"Box::new\(\[\]\)", body):
        return "[]"
    m = re.fullmatch(r"x\((\w+)\)\.clone\(\)", body)
    if not m or m.group(1) not in binds:
        raise ValueError("arm %s: cannot read claim `%s`" % (op, body))
    role = FIELDS[op][binds[m.group(1)]]
    if role not in ROLE:
        raise ValueError("arm %s: x(%s) is the `%s` operand, which has no order" % (op, m.group(1), role))
    return ROLE[role]


def parse_order_arms(src):
    i = src.index("pub fn analyze_order")
    fb = src.index("{", i)
    fn = src[fb:_matching(src, fb)]
    fn = re.sub(r"//[^\n]*", "", fn)
    mi = fn.index("match enode")
    mb = fn.index("{", mi)
    inner = fn[mb + 1:_matching(fn, mb) - 1]
    claims, notes = {}, []
    default_seen = False
    for pat, body in _arms(inner):
        guard = None
        if " if " in pat:
            pat, guard = pat.split(" if ", 1)
        alts = [a.strip() for a in re.split(r"\|(?![^\[]*\])", pat)]
        for alt in alts:
            if alt == "_":
                if body != "Box::new([])":
                    raise ValueError("default arm is not `Box::new([])`: " + body)
                default_seen = True
                continue
            m = re.fullmatch(r"(\w+)\((.*)\)", alt, re.S)
            if not m:
                raise ValueError("cannot read pattern `%s`" % alt)
            op, args = m.group(1), m.group(2).strip()
            if op == "List":
                if body != "keys.clone()":
                    raise ValueError("List arm changed: " + body)
                notes.append("List(keys) => keys.clone()   (a key list denotes itself)")
                continue
            if op == "Scan":
                if guard is None or "table_is_sorted_by_primary_key" not in guard or " ".join(body.split()) != SCAN_BODY:
                    raise ValueError("Scan arm is not the one the translator understands: %s if %s" % (body[:200], guard))
                claims["Scan"] = ("scan", "scanClaim primary cols")
                continue
            if op not in FIELDS:
                raise ValueError("arm for operator `%s`: unknown operator" % op)
            if guard is not None:
                raise ValueError("arm %s has a guard the translator does not read: %s" % (op, guard))
            names = [a.strip() for a in args.strip("[]").split(",")]
            if len(names) != len(FIELDS[op]):
                raise ValueError("arm %s: %d operands, expected %d" % (op, len(names), len(FIELDS[op])))
            binds = {nm: k for k, nm in enumerate(names) if nm != "_"}
            if body.startswith("match"):
                mm = re.fullmatch(r"match egraph\[\*(\w+)\]\.nodes\[0\] \{(.*)\}", body, re.S)
                if not mm or op not in JOINS or FIELDS[op][binds.get(mm.group(1), -1)] != "type":
                    raise ValueError("arm %s: cannot read nested match `%s`" % (op, body[:120]))
                cases, dflt = [], None
                for p2, b2 in _arms(mm.group(2)):
                    for jt in [x.strip() for x in p2.split("|")]:
                        if jt == "_":
                            dflt = _claim_expr(b2, binds, op)
                        elif jt in JT:
                            cases.append((JT[jt], _claim_expr(b2, binds, op)))
                        else:
                            raise ValueError("arm %s: unknown join type `%s`" % (op, jt))
                if dflt is None:
                    raise ValueError("arm %s: nested match without default" % op)
                term = "match t with\n" + "".join("  | .%s => %s\n" % c for c in cases) + "  | _ => %s" % dflt
                claims[op] = ("join", term)
            else:
                claims[op] = ("join" if op in JOINS else "unary", _claim_expr(body, binds, op))
    if not default_seen:
        raise ValueError("no default arm")
    return claims, notes


def parse_order_merge(src):
    """How `ExprAnalysis::merge` (src/planner/rules/mod.rs) combines the order properties of the
    members of an e-class: returns ("prefix" | "max", source text)."""
    i = src.index("impl Analysis<Expr> for ExprAnalysis")
    mi = src.index("fn merge", i)
    fb = src.index("{", mi)
    body = re.sub(r"//[^\n]*", "", src[fb:_matching(src, fb)])
    flat = " ".join(body.split())
    if re.search(r"egg::merge_max\(&mut to\.orderby, from\.orderby\)", flat):
        return "max", "egg::merge_max(&mut to.orderby, from.orderby)"
    m = re.search(r"let common = \(to\.orderby\.iter\(\)\.zip\(from\.orderby\.iter\(\)\)\) \.take_while\(\|\(a, b\)\| a == b\) \.count\(\);"
                  r" let merge_order = DidMerge\(common < to\.orderby\.len\(\), common < from\.orderby\.len\(\)\);"
                  r" if common < to\.orderby\.len\(\) \{ to\.orderby = to\.orderby\[\.\.common\]\.into\(\); \}", flat)
    if m:
        return "prefix", "to.orderby = to.orderby[..common] with common = length of the common prefix of to.orderby and from.orderby"
    raise ValueError("the merge of `orderby` in ExprAnalysis::merge is not in a shape the translator reads")


def gen_order_arms(repo, write=True):
    lean_dir = vlib.LEAN
    src = open(os.path.join(repo, "src/planner/rules/order.rs")).read()
    claims, notes = parse_order_arms(src)
    merge_kind, merge_text = parse_order_merge(open(os.path.join(repo, "src/planner/rules/mod.rs")).read())
    out = ["/- GENERATED on every run of ./check C12 by checks/c12.py (gen_order_arms) from the match arms of",
           "   `analyze_order` in src/planner/rules/order.rs. Do not edit.",
           "   For every operator with an explicit arm: `claim_<Op>`, the order the planner claims for the node's",
           "   output in terms of its own key list (`keys`; joins: `lks`/`rks`) and of the orders claimed for its",
           "   children (`xc`; joins: `xl`/`xr`). Operators without an arm claim no order (`_ => []`).",
           "   Theorem `order_arm_<Op>` (Thm/C12.lean) is the obligation of the arm.", "-/",
           "import RlModel.Model.OrderSem", "namespace RlModel.Gen", ""]
    for n in notes:
        out.append("-- " + n)
    out.append("def orderArms : List String := [%s]" % ", ".join('"%s"' % k for k in claims))
    out.append("")
    for op, (kind, term) in claims.items():
        if kind == "scan":
            out.append("/-- the first primary-key column of the scan list, if the engine's scans are key-ordered -/")
            out.append("def claim_Scan (sortedByPk : Bool) (primary cols : List Nat) : List OrdKey :=")
            out.append("  if sortedByPk then match cols.find? (fun c => primary.contains c) with")
            out.append("    | some c => [⟨c, false⟩]\n    | none => []\n  else []")
        elif kind == "unary":
            out.append("def claim_%s (keys xc : List OrdKey) : List OrdKey := %s" % (op, term))
        else:
            out.append("def claim_%s (t : JT) (lks rks xl xr : List OrdKey) : List OrdKey :=\n  %s" % (op, term.replace("\n", "\n  ")))
        out.append("")
    out.append("/-- ExprAnalysis::merge on the order property of two members of an e-class: `%s` -/" % merge_text)
    if merge_kind == "prefix":
        out.append("def mergeOrder : List OrdKey → List OrdKey → List OrdKey")
        out.append("  | a :: as, b :: bs => if a = b then a :: mergeOrder as bs else []")
        out.append("  | _, _ => []")
    else:
        out.append("def mergeOrder (a b : List OrdKey) : List OrdKey :=")
        out.append("  if (a.map fun k => (k.col, k.desc)) < (b.map fun k => (k.col, k.desc)) then b else a")
    out.append("")
    out.append("end RlModel.Gen")
    text = "\n".join(out) + "\n"
    path = os.path.join(lean_dir, "RlModel", "Gen", "OrderArms.lean")
    if write:
        old = open(path).read() if os.path.exists(path) else None
        if old != text:
            open(path, "w").write(text)
    return text, list(claims)



# ---------------------------------------------------------------------------------------------
# translator: the planner's guard `is_primary_key_range` (condition of the filter-scan rules)
# ---------------------------------------------------------------------------------------------


def gen_range_guard(repo, write=True):
    """Reads fn is_primary_key_range (src/planner/rules/range.rs): which bound shapes count as INT
    (`is_int`), the boolean combination of the two bounds that rejects a range, and the condition on
    the key column; writes lean/RlModel/Gen/RangeGuard.lean (`rangeGuard`)."""
    src = open(os.path.join(repo, "src/planner/rules/range.rs")).read()
    i = src.index("fn is_primary_key_range")
    fb = src.index("{", i)
    body = re.sub(r"//[^\n]*", "", src[fb:_matching(src, fb)])
    flat = " ".join(body.split())
    # is_int
    m = re.search(r"let is_int = \|b: &Bound<DataValue>\| (.*?);\s*if ", flat)
    if not m:
        raise ValueError("closure `is_int` not found")
    isint = m.group(1).strip()
    a = re.fullmatch(r"match b \{ Bound::Included\(v\) \| Bound::Excluded\(v\) => matches!\(v, DataValue::Int32\(_\)\), Bound::Unbounded => (true|false), \}", isint)
    b = re.fullmatch(r"\{ matches!\( b, Bound::Included\(DataValue::Int32\(_\)\) \| Bound::Excluded\(DataValue::Int32\(_\)\) \) \}", isint)
    if a:
        unb = a.group(1)
    elif b:
        unb = "false"
    else:
        raise ValueError("closure `is_int` is not in a shape the translator reads: " + isint[:200])
    # rejection of the bounds
    m = re.search(r"if ([^{}]*?is_int[^{}]*?) \{ return false; \}", flat)
    if not m:
        raise ValueError("bounds check `if … is_int … { return false; }` not found")
    cond = m.group(1).strip()
    e = cond.replace("is_int(&range.start)", "guardIsInt lo").replace("is_int(&range.end)", "guardIsInt hi")
    e = e.replace("||", " || ").replace("&&", " && ")
    e = re.sub(r"!\s*guardIsInt (lo|hi)", r"(!guardIsInt \1)", e)
    if not re.fullmatch(r"[\s()|&!]*(?:guardIsInt (?:lo|hi)[\s()|&!]*)+", e):
        raise ValueError("cannot translate the bounds check: " + cond)
    # condition on the column
    m = re.search(r"if let Some\(col\) = egraph\.analysis\.catalog\.get_column\(column\) \{ (.*?) \} else \{ false \}", flat)
    if not m:
        raise ValueError("column condition not found")
    atoms = [x.strip() for x in m.group(1).split("&&")]
    lean_atoms = []
    for at in atoms:
        mm = re.fullmatch(r"column\.column_id == (\d+)", at)
        if at == "col.is_primary()":
            lean_atoms.append("primary.contains k")
        elif mm:
            lean_atoms.append("k == %s" % mm.group(1))
        elif at == "col.data_type() == DataType::Int32":
            lean_atoms.append("intCols.contains k")
        else:
            raise ValueError("unknown condition on the key column: " + at)
    text = """/- GENERATED on every run of ./check C12 / C13 by checks/c12.py (gen_range_guard) from
   src/planner/rules/range.rs, fn is_primary_key_range. Do not edit. -/
import RlModel.Model.Scan
namespace RlModel

/-- `let is_int = |b| %s` -/
def guardIsInt : Bnd → Bool
  | .unb => %s
  | .incl v => isI32Val v
  | .excl v => isI32Val v

/-- `if %s { return false; }` -/
def guardBoundsReject (lo hi : Bnd) : Bool := %s

/-- `%s` (k = the range's column) -/
def guardColumn (primary intCols : List Nat) (k : Nat) : Bool := %s

/-- `is_primary_key_range`: the condition under which the filter-scan rules move a condition into
the scan node -/
def rangeGuard (t : TableMeta) (e : Expr) : Bool :=
  match analyzeRange e with
  | some (k, r) => !guardBoundsReject r.lo r.hi && guardColumn t.primary t.intCols k
  | none => false

end RlModel
""" % (isint.replace("/-", "").replace("-/", ""), unb, cond, e, " && ".join(atoms), " && ".join(lean_atoms))
    path = os.path.join(vlib.LEAN, "RlModel", "Gen", "RangeGuard.lean")
    if write:
        old = open(path).read() if os.path.exists(path) else None
        if old != text:
            open(path, "w").write(text)
    return text


ORDER_ARMS = []


def run_translators(ck):
    """Step 1 of both checks: the parts of the model that are DATA in the source are regenerated
    from the repository under test (never from a previous run's copy)."""
    for name, f in (("merge-heap-bounds", gen_merge_heap), ("rowset-stop-condition", gen_rowset_stop), ("order-arms", gen_order_arms),
                    ("range-guard", gen_range_guard)):
        try:
            res = f(vlib.REPO)
            if name == "order-arms":
                ORDER_ARMS[:] = res[1]
        except Exception as ex:     # strict translator: anything unparsed fails the check
            ck.report("translator:" + name, "the source is no longer in the shape the translator reads: %s" % ex,
                      replay={"translator": name, "error": str(ex)}, found_input=False)


# ---------------------------------------------------------------------------------------------
# the check
# ---------------------------------------------------------------------------------------------


def corpus_lines(prop):
    d = os.path.join(vlib.VERIF, "corpus", prop)
    lines = []
    if os.path.isdir(d):
        for fn in sorted(os.listdir(d)):
            if fn.endswith(".case"):
                for l in open(os.path.join(d, fn)):
                    l = l.strip()
                    if l and not l.startswith("#"):
                        lines.append(l)
    return lines


def finish_reports(ck, T, binname):
    """Turns the tally into reports following the decision rule."""
    seen = set()
    for sig, what, rep in T.findings:
        if sig in seen:
            continue
        seen.add(sig)
        rep = dict(rep)
        rep["sql_script"] = case_sql(ck, binname, rep["case"]) if "case" in rep else None
        ck.report(sig, what, replay=rep, found_input=True)
    unexplained = [f for f in T.findings if f[0].startswith("unexplained")]
    seen = set()
    for stream, what, rep in T.corr:
        sig = "corr:" + stream
        if sig in seen:
            continue
        seen.add(sig)
        rep = dict(rep)
        rep["sql_script"] = case_sql(ck, binname, rep["case"]) if "case" in rep else None
        # the tie is broken: a concrete failing input was found iff the model-free oracle also failed
        # on something the model does not explain
        ck.report(sig, what, replay=rep, found_input=False)


def run(ck):
    n = 420 if ck.quick() else 2000
    run_translators(ck)
    # one obligation per explicit arm of analyze_order, named after the operator: an arm the source
    # gains (or whose lemma is gone) is an undischarged obligation
    theorems = THEOREMS + ["order_arm_" + op for op in ORDER_ARMS if "order_arm_" + op not in THEOREMS]
    bad = vlib.step_lean(ck, "RlModel.Thm.C12", theorems, extra_targets=["drv_c12"])
    ok, log = vlib.step_cargo(ck, ["c12"])
    if not ok:
        ck.report("build:harness", "harness does not build against the repository", replay={"log": log[-2000:]}, found_input=False)
        return ck.finish(level="proof")
    T = Tally()
    corpus = corpus_lines("C12")
    gen = os.path.join(ck.work, "gen.txt")
    vlib.sh([vlib.harness_bin("c12"), "gen", str(n), gen])
    lines = [l for l in open(gen).read().split("\n") if l.strip()]
    # corpus ids are shifted out of the way of generated ids
    allc = []
    for k, l in enumerate(corpus):
        c = parse_sexp(l)
        allc.append(l.replace("(case %s " % c[1], "(case %d " % (1000000 + k), 1))
    allc += lines
    ck.log("running %d cases (%d corpus) on the implementation and the model" % (len(allc), len(corpus)))
    res = run_cases(ck, "c12", "drv_c12", allc, "all")
    for r in res:
        judge_case(r, T, "C12")
    jd = lambda r, T2: judge_case(r, T2, "C12")
    search = model_search(ck, T, "c12", "c12", "drv_c12", jd)
    if bad or T.corr:
        # a theorem or the correspondence is broken: look for a concrete failing input directly on the implementation
        search["implementation_sample"] = impl_search(ck, T, "c12", "c12", "drv_c12", jd)
    cfs = run_counterfactuals(ck, T, "c12", "drv_c12", jd)
    # theorem failures: the obligations no longer check -> look whether the oracle found an unexplained failure
    unexplained = [f for f in T.findings if ("C12", f[0]) not in ck.known]
    for name, st in bad.items():
        if unexplained:
            sig, what, rep = unexplained[0]
            ck.report("thm:" + name, "theorem %s no longer checks (%s); failing input: %s" % (name, st.get("status"), what), replay=rep, found_input=True)
        else:
            ck.report("thm:" + name, "theorem %s no longer checks: %s" % (name, st), replay={"theorem": name, "status": st}, found_input=False)
    finish_reports(ck, T, "c12")
    ck.coverage.update({
        "counterfactuals": cfs, "small_domain_search": search,
        "evaluations": T.mvi["compared"], "distinct_nontrivial": len(T.nontrivial),
        "rule": "distinct (case, SQL text, optimizer setting) whose table has >= 2 row-sets, whose result is non-empty and passes the oracle",
        "samples": T.samples[:8], "model_vs_impl": T.mvi, "impl_vs_oracle": T.ivo, "model_vs_oracle": T.mvo,
        "distribution": dict(T.dist), "explained_by_model": dict(T.explained), "cases": len(allc), "corpus_cases": len(corpus),
    })
    return ck.finish(level="proof", trusted_base=[
        "Lean 4 kernel", "rlverif c12 harness + generator", "checks/c12.py comparison code (python sort as oracle)",
        "binder and egg optimizer are not modelled: the model interprets the optimized plan the implementation reports",
        "snapshot (hash-set) order of row-sets and block row counts are observed on the implementation and given to the model",
    ])


def replay_case(path, binname, drv):
    """Re-executes the stored case on the implementation and on the model and prints both."""
    import tempfile
    d = json.load(open(path))
    rep = d.get("replay") or {}
    print("# %s: %s" % (d.get("sig"), d.get("what")))
    if rep.get("sql_script"):
        print(rep["sql_script"])
    line = rep.get("case")
    if not line:
        print(json.dumps(rep, indent=1, default=str)[:4000])
        return 0

    class W:
        pass
    w = W()
    os.makedirs(vlib.WORK, exist_ok=True)
    w.work = tempfile.mkdtemp(prefix="replay-", dir=vlib.WORK)
    try:
        res = run_cases(w, binname, drv, [line], "replay")[0]
        qs = case_queries(res["case"])
        results = field(res["obs"], "results") or []
        answers = [x for x in res["ans"][2:] if isinstance(x, list) and x[0] == "ans"]
        print("layout impl : %s" % field(res["obs"], "lay"))
        print("layout model: %s" % field(res["ans"], "lay"))
        for q, r_, a in zip(qs, results, answers):
            if rep.get("qid") is not None and q["qid"] != rep.get("qid"):
                continue
            print("-- q%d %s: %s" % (q["qid"], q["kind"], q["sql"]))
            print("   impl  optimizer on : %s" % field(r_, "on")[0])
            print("   impl  optimizer off: %s" % field(r_, "off")[0])
            if a[1] == "ok":
                print("   model exec (optimized plan): %s" % field(a, "exec")[0])
                print("   model spec                 : %s" % field(a, "spec")[0])
                print("   model tags                 : %s" % (field(a, "tags") or []))
        scans = field(res["obs"], "scans") or []
        scans_m = [x for x in res["ans"][2:] if isinstance(x, list) and x[0] == "sc"]
        for sreq, si, sm in zip(field(res["case"], "scans") or [], scans, scans_m):
            if rep.get("scan") is not None and sreq != rep.get("scan"):
                continue
            print("-- storage scan %s\n   impl : %s\n   model: %s" % (sreq, si, sm))
    finally:
        import shutil
        shutil.rmtree(w.work, ignore_errors=True)
    return 0


def replay(path):
    return replay_case(path, "c12", "drv_c12")
