"""C13 — a key-range scan returns exactly the rows in the range.

1. Lean: theorems of RlModel.Thm.C13 (range analysis denotes the condition; the row-set
   iterator's start-row walk + positional mask + early stop return exactly the rows in range under
   the hypotheses the code forces; each hypothesis refuted when dropped) + driver drv_c13.
2. Harness c13: disk tables, key at any position, key types int / bigint / varchar, both PRIMARY
   KEY syntaxes and none, tiny blocks, several row-sets, deletes, duplicates; SQL WHERE on the key
   (every bound kind, constants present/absent/extreme, constant on either side, AND of two
   atoms, residual predicates, projections) with the optimizer on and off, and storage-level
   `Transaction::scan` with and without a KeyRange.
3. Decision: model_vs_impl; impl_vs_oracle (optimizer on vs off, vs python filter of the unfiltered
   query; storage scan with range vs unfiltered scan + python filter); model_vs_oracle.
"""
import fractions
import collections
import json
import os
import re

import vlib
from checks.c12 import (PRECEDENCE, Tally, run_translators, attributed_sigs, run_counterfactuals, model_search, impl_search, bag, case_queries, case_sql, corpus_lines, field, finish_reports,
                        judge_scan, model_rows, out_rows, parse_sexp, run_cases, vkey)

THEOREMS = [
    "range_analysis_sound", "range_analysis_type_unsound", "range_stop_sound", "batches_range_scan_exact", "early_stop_sound",
    "dv_and_range_commute", "start_row_sound", "rowset_range_scan_exact", "guard_implies_precondition",
    "guarded_range_scan_exact", "reachable_range_scan_exact", "range_scan_precondition_key_first", "range_scan_precondition_key_col0",
    "range_scan_precondition_key_type", "range_guard_regression", "range_scan_dup_boundary_regression",
    "scan_filter_residual", "scan_filter_false_regression", "range_scan_exact_with_handler",
]


def sql_cmp(a, b):
    """SQL comparison of two canonical values: None for NULL/incomparable, else -1/0/1."""
    if a == "null" or b == "null":
        return None
    ka, kb = vkey(a), vkey(b)
    ints = (2, 3, 4)
    if ka[0] in ints and kb[0] in ints:
        x, y = ka[1], kb[1]
    elif ka[0] == kb[0]:
        x, y = ka[1], kb[1]
    else:
        return None
    return -1 if x < y else (1 if x > y else 0)


def holds(op, c):
    if c is None:
        return False
    return {"=": c == 0, ">": c > 0, ">=": c >= 0, "<": c < 0, "<=": c <= 0}[op]


def where_atoms(q):
    """(where (c op v flipped) ...)"""
    return [(int(a[0]), a[1], a[2], a[3] == "true") for a in (q.get("where") or [])]


def eval_where(atoms, vals):
    """vals[i] = value of the column of atom i"""
    for (c, op, v, flipped), x in zip(atoms, vals):
        r = sql_cmp(v, x) if flipped else sql_cmp(x, v)
        if not holds(op, r):
            return False
    return True


def c13_queries(c):
    qs = []
    for q in field(c, "queries") or []:
        d = {"qid": int(q[1]), "kind": q[2], "sql": bytes.fromhex(q[3]).decode(), "nkeys": int(q[4]),
             "keypos": [int(x) for x in q[6][1:]]}
        w = field(q[9:], "where") if len(q) > 9 else None
        d["where"] = w or []
        qs.append(d)
    return qs


def in_range_py(rng, v):
    lo, hi = rng[1], rng[2]
    ok = True
    if lo != "unb":
        c = sql_cmp(v, lo[1])
        ok = ok and holds(">=" if lo[0] == "incl" else ">", c)
    if hi != "unb":
        c = sql_cmp(v, hi[1])
        ok = ok and holds("<=" if hi[0] == "incl" else "<", c)
    return ok


def judge_case13(r, T):
    c, obs, ans = r["case"], r["obs"], r["ans"]
    cid = r["id"]
    if obs is None or ans is None or len(ans) < 3 or ans[2] == "bad-request":
        T.corr.append(("protocol", "case %d: missing observation or model answer" % cid, {"case": r["line"]}))
        return
    notes = field(obs, "notes") or []
    if notes:
        T.corr.append(("history", "case %d: a write statement did not succeed: %s" % (cid, notes), {"case": r["line"]}))
        return
    judge_deletes13(r, T)
    lay_i = [x for x in (field(obs, "lay") or []) if len(x) > 2]
    lay_m = [x for x in (field(ans, "lay") or []) if len(x) > 2]
    T.mvi["compared"] += 1
    nrs = len(lay_i)
    T.dist["rowsets=%d" % nrs] += 1
    ops_ = field(c, "ops") or []
    T.dist["history: inserts=%d" % sum(1 for o in ops_ if o[0] == "ins")] += 1
    T.dist["history: deletes=%d" % sum(1 for o in ops_ if o[0] == "del")] += 1
    T.dist["history: compactions=%d" % sum(1 for o in ops_ if o[0] == "compact")] += 1
    T.dist["mode=" + ((field(c, "mode") or ["bg"])[0])] += 1
    pk = field(c, "pk")[0]
    pkdecl = field(c, "pkdecl")[0]
    cols = field(c, "cols")
    T.dist["pkdecl=" + pkdecl] += 1
    if pk != "none":
        T.dist["keypos=%s/%d" % (pk, len(cols))] += 1
        T.dist["keytype=" + cols[int(pk)][0]] += 1
    T.dist["block=" + field(c, "block")[0]] += 1
    if lay_i != lay_m:
        T.mvi["disagree"] += 1
        T.corr.append(("layout", "case %d: stored layout differs: impl=%s model=%s" % (cid, lay_i, lay_m), {"case": r["line"], "impl": lay_i, "model": lay_m}))
        # keep judging: the model-free oracle may turn the broken tie into a concrete failing query
    qs = c13_queries(c)
    answers = [x for x in ans[2:] if isinstance(x, list) and x[0] == "ans"]
    scans_m = [x for x in ans[2:] if isinstance(x, list) and x[0] == "sc"]
    results = field(obs, "results") or []
    if len(answers) != len(qs) or len(results) != len(qs):
        T.corr.append(("protocol", "case %d: %d queries, %d answers, %d results" % (cid, len(qs), len(answers), len(results)), {"case": r["line"]}))
        return
    byq = collections.defaultdict(dict)
    mixed = []
    for q, a, res in zip(qs, answers, results):
        if q["kind"] in ("X", "XU"):
            mixed.append((q, a, res))
        else:
            byq[q["qid"]][q["kind"]] = (q, a, res)
    for qid, g in sorted(byq.items()):
        judge_query13(r, T, qid, g, nrs)
    judge_mixed13(r, T, mixed, nrs)
    # storage level
    scans_i = field(obs, "scans") or []
    scans_c = field(c, "scans") or []
    base = None
    for sreq, sm, si in zip(scans_c, scans_m, scans_i):
        res = judge_scan(r, T, "C13", sreq, sm, si, nrs)
        if res is None:
            continue
        agree, mexec, impl = res
        scols = [int(x) for x in sreq[1][1:]]
        hflag = sreq[4] if len(sreq) > 4 else "0"
        if hflag != "0":
            T.dist["scan with the row-handler column"] += 1
        if sreq[2] == "none":
            base = (scols + [hflag], impl)
            continue
        # oracle: unfiltered scan of the same columns + python filter on the sort key - for calls
        # within the storage API's documented precondition (range filter = first column of the
        # row-sets = first scanned column = INT sort key, Int32 bounds), which is also what the
        # planner's guard admits; other calls are compared with the model only
        if pkdecl != "col" or base is None or base[0] != scols + [hflag] or base[1] is None:
            continue
        bounds = [b[1] for b in (sreq[2][1], sreq[2][2]) if b != "unb"]
        if not (pk == "0" and scols[0] == 0 and cols[0][0] == "i32" and all(v.startswith("i32:") for v in bounds)):
            T.dist["scan: outside the storage precondition (model comparison only)"] += 1
            continue
        rng = sreq[2]
        consts = [b[1] for b in (rng[1], rng[2]) if b != "unb"]
        if any(v == "null" for v in consts):
            T.dist["scan:null-bound(skipped by oracle)"] += 1
            continue
        kp = scols.index(int(pk))
        want = [tuple(row) for row in base[1] if in_range_py(rng, row[kp])]
        T.ivo["compared"] += 1
        got = None if impl is None else [tuple(x) for x in impl]
        tags = field(sm, "tags") or []
        sspec = model_rows(field(sm, "spec")[0])
        T.mvo["compared"] += 1
        if [v for _, v in sspec] != want:
            T.mvo["disagree"] += 1
            T.corr.append(("spec:scan", "case %d: storage scan %s: model spec differs from the oracle" % (cid, sreq), {"case": r["line"], "scan": sreq}))
        if got != want:
            T.ivo["disagree"] += 1
            sigs = attributed_sigs(sm, agree) or ["unexplained:scan"]
            what = "Transaction::scan(cols=%s, filter=%s) returns %s, unfiltered scan + filter gives %s (case %d, %d row-sets)" % (
                scols, rng, "a panic" if got is None else "%d rows" % len(got), "%d rows" % len(want), cid, nrs)
            for sg in sigs:
                if not sg.startswith("unexplained"):
                    T.explained[sg] += 1
                T.findings.append((sg, what + ("" if len(sigs) == 1 else " [jointly: %s]" % " + ".join(sigs)),
                                   {"case": r["line"], "scan": sreq, "impl": si, "want": want, "tags": tags, "attributed": sigs}))
        elif got:
            T.nontrivial.add((cid, str(sreq)))

# --- key ranges whose bounds mix constant types -------------------------------------------------

_LIT = r"(null|'-?\d+'|cast\(-?\d+ as (?:bigint|smallint)\)|-?\d+\.\d+|-?\d+)"
_OPS = r"(>=|<=|=|>|<)"


def mixed_lit(tok):
    """(type, value): value a Fraction, None for NULL, 'str' for a string literal"""
    if tok == "null":
        return ("null", None)
    if tok.startswith("'"):
        return ("string", "str")
    m = re.fullmatch(r"cast\((-?\d+) as (bigint|smallint)\)", tok)
    if m:
        return (m.group(2), fractions.Fraction(int(m.group(1))))
    if "." in tok:
        return ("decimal", fractions.Fraction(tok))
    n = int(tok)
    return ("int" if -2 ** 31 <= n < 2 ** 31 else "bigint", fractions.Fraction(n))


def mixed_where(sql):
    """WHERE clause of a kind-X statement -> list of (op, constant token) meaning `key op constant`"""
    w = sql.split(" where ", 1)[1].split(" order by ")[0]
    atoms = []
    flip = {">=": "<=", "<=": ">=", ">": "<", "<": ">", "=": "="}
    pos = 0
    pat = re.compile(r"\s*(?:and\s+)?(?:(c\d+) between %s and %s|(c\d+) %s %s|%s %s (c\d+))" % (_LIT, _LIT, _OPS, _LIT, _LIT, _OPS))
    while pos < len(w):
        m = pat.match(w, pos)
        if not m:
            raise ValueError("cannot read the WHERE clause: " + w)
        g = m.groups()
        if g[0]:
            atoms += [(">=", g[1]), ("<=", g[2])]
        elif g[3]:
            atoms.append((g[4], g[5]))
        else:
            atoms.append((flip[g[7]], g[6]))
        pos = m.end()
    return atoms


def mixed_truth(atoms, key):
    """True / False; None when a string literal takes part (no python semantics claimed)"""
    res = True
    for op, tok in atoms:
        ty, c = mixed_lit(tok)
        if c == "str":
            return None
        if key == "null" or c is None:
            res = False
            continue
        v = fractions.Fraction(int(key.split(":")[1]))
        if not holds(op, (v > c) - (v < c)):
            res = False
    return res


def judge_mixed13(r, T, mixed, nrs):
    cid = r["id"]
    xu = [m for m in mixed if m[0]["kind"] == "XU"]
    if not xu:
        return
    qU, _, rU = xu[0]
    full = out_rows(field(rU, "on")[0])
    if full is None:
        T.findings.append(("unexplained:unfiltered-query-failed", "case %d: %s failed" % (cid, qU["sql"]), {"case": r["line"], "sql": qU["sql"]}))
        return
    kp = qU["keypos"][0]
    for q, a, res in mixed:
        if q["kind"] != "X":
            continue
        sql = q["sql"]
        atoms = mixed_where(sql)
        types = sorted(set(mixed_lit(t)[0] for _, t in atoms))
        T.dist["mixed bounds: " + "/".join(types)] += 1
        on = out_rows(field(res, "on")[0])
        off = out_rows(field(res, "off")[0])
        truths = [mixed_truth(atoms, row[kp]) for row in full]
        if any(t is None for t in truths):
            # string literal against an integer key: the unoptimized plan (filter above the full
            # scan) is the reference
            T.dist["mixed bounds: reference = unoptimized plan"] += 1
            if off is None:
                # (a statement that fails either way, or fails unoptimized and returns nothing
                # optimized because the pushed INT part is empty, is not judged)
                if on:
                    T.ivo["compared"] += 1
                    T.ivo["disagree"] += 1
                    T.findings.append(("unexplained:mixed-bounds-on",
                                       "%s returns %d rows, the unoptimized plan (filter above the full scan) fails: the comparison with the string literal was not evaluated (case %d, %d row-sets; bounds of type %s)" % (
                                           sql, len(on), cid, nrs, "/".join(types)),
                                       {"case": r["line"], "qid": q["qid"], "sql": sql, "impl": on, "want": "error"}))
                continue
            want = bag(tuple(x) for x in off)
        else:
            want = bag(tuple(row) for row, t in zip(full, truths) if t)
        for which, impl in (("on", on), ("off", off)):
            text = sql + (" [optimizer off]" if which == "off" else "")
            T.ivo["compared"] += 1
            got = None if impl is None else bag(tuple(x) for x in impl)
            if got != want:
                T.ivo["disagree"] += 1
                T.findings.append(("unexplained:mixed-bounds-" + which,
                                   "%s returns %s rows, the filter of the full scan gives %d (case %d, %d row-sets; bounds of type %s)" % (
                                       text, "no (statement failed)" if got is None else sum(got.values()), sum(want.values()), cid, nrs, "/".join(types)),
                                   {"case": r["line"], "qid": q["qid"], "sql": text, "impl": impl, "want": sorted(want.elements())}))
            elif impl and which == "on":
                T.nontrivial.add((cid, sql))
            if impl is not None and " order by " in sql:
                keys_i = [row[kp] for row in impl]
                T.ivo["compared"] += 1
                if keys_i != sorted(keys_i, key=vkey):
                    T.ivo["disagree"] += 1
                    T.findings.append(("unexplained:order-" + which, "%s is not in key order: %s (case %d, %d row-sets)" % (text, keys_i[:12], cid, nrs),
                                       {"case": r["line"], "qid": q["qid"], "sql": text, "impl": impl}))


def judge_deletes13(r, T):
    """Key-range DELETEs of the history (their scan = columns + row handler + pushed KeyRange):
    rows removed = python filter of the rows before, reported count, remaining rows."""
    c, obs = r["case"], r["obs"]
    cid = r["id"]
    dels = [o for o in (field(c, "ops") or []) if o[0] == "delr"]
    seen = field(obs, "deletes") or []
    for op, ob in zip(dels, seen):
        col = int(op[1])
        rng = ["range", op[2], op[3]]
        before = out_rows(field(ob, "before")[0])
        after = out_rows(field(ob, "after")[0])
        cnt = out_rows(field(ob, "count")[0])
        T.dist["key-range DELETE"] += 1
        if before is None or after is None:
            continue
        consts = [b[1] for b in (op[2], op[3]) if b != "unb"]
        if any(v == "null" for v in consts):
            continue
        hit = [tuple(row) for row in before if in_range_py(rng, row[col])]
        want_after = bag(tuple(row) for row in before) - bag(hit)
        T.ivo["compared"] += 1
        n_rep = int(cnt[0][0].split(":")[1]) if cnt and cnt[0] and ":" in cnt[0][0] else None
        problems = []
        if cnt is None:
            problems.append("the statement failed")
        if bag(tuple(row) for row in after) != want_after:
            problems.append("removed %d rows, the range holds %d" % (len(before) - len(after), len(hit)))
        if n_rep is not None and n_rep != len(hit):
            problems.append("reported %d affected rows, the range holds %d" % (n_rep, len(hit)))
        if problems:
            T.ivo["disagree"] += 1
            T.findings.append(("unexplained:delete-range", "DELETE FROM t WHERE <c%d in %s>: %s (case %d)" % (col, rng[1:], "; ".join(problems), cid),
                               {"case": r["line"], "delete": op, "before": len(before), "after": len(after)}))
        elif hit:
            T.nontrivial.add((cid, "delete " + str(op)))


def judge_query13(r, T, qid, g, nrs):
    cid = r["id"]
    q, a, res = g["main"]
    qU, aU, rU = g["U"]
    replay = {"case": r["line"], "qid": qid, "sql": q["sql"]}
    if a[1] != "ok" or aU[1] != "ok":
        T.dist["unsupported-plan"] += 1
        return
    implU = out_rows(field(rU, "on")[0])
    if implU is None:
        T.findings.append(("unexplained:unfiltered-query-failed", "case %d: %s failed" % (cid, qU["sql"]), replay))
        return
    implU = [tuple(x) for x in implU]
    mU = model_rows(field(aU, "exec")[0])
    T.mvi["compared"] += 1
    if mU is None or bag(v for _, v in mU) != bag(implU):
        T.mvi["disagree"] += 1
        T.corr.append(("unfiltered", "case %d: %s: model bag != impl bag" % (cid, qU["sql"]), dict(replay, impl=implU)))
        return
    atoms = where_atoms(q)
    nW = len(atoms)
    truth = bag(row[:len(row) - nW] for row in implU if eval_where(atoms, row[len(row) - nW:]))
    tags = field(a, "tags") or []
    for t in tags:
        T.dist["tag:" + t] += 1
    pushed = (field(a, "pushed") or ["?"])[0]
    T.dist["pushed=" + pushed] += 1
    for atom in atoms:
        T.dist["op " + atom[1] + (" flipped" if atom[3] else "")] += 1
    if len(T.samples) < 8:
        T.samples.append(q["sql"])
    on = out_rows(field(res, "on")[0])
    off = out_rows(field(res, "off")[0])
    m_on = model_rows(field(a, "exec")[0])
    m_off = model_rows(field(a, "execb")[0])
    spec = model_rows(field(a, "spec")[0])
    # model vs oracle
    T.mvo["compared"] += 1
    if bag(v for _, v in spec) != truth:
        T.mvo["disagree"] += 1
        T.corr.append(("spec:query", "case %d: %s: the model's specification differs from the python filter of the unfiltered result" % (cid, q["sql"]), replay))
    for which, impl, mrows in (("on", on, m_on), ("off", off, m_off)):
        sql = q["sql"] + (" [optimizer off]" if which == "off" else "")
        rep = dict(replay, sql=sql, impl=impl, model=field(a, "exec" if which == "on" else "execb")[0], tags=tags, want=sorted(truth.elements()))
        T.mvi["compared"] += 1
        if mrows is None:
            agree = impl is None or impl == []
        elif impl is None:
            agree = False
        else:
            agree = bag(tuple(x) for x in impl) == bag(v for _, v in mrows)
        if not agree:
            T.mvi["disagree"] += 1
            T.corr.append(("query:" + which, "case %d: %s: model and implementation disagree" % (cid, sql), rep))
        T.ivo["compared"] += 1
        got = None if impl is None else bag(tuple(x) for x in impl)
        if got != truth:
            T.ivo["disagree"] += 1
            n_got = -1 if got is None else sum(got.values())
            what = "%s returns %s rows, full scan + predicate gives %d (case %d, %d row-sets)" % (
                sql, "no (statement failed)" if got is None else n_got, sum(truth.values()), cid, nrs)
            off_ok = off is not None and bag(tuple(x) for x in off) == truth
            sigs = (attributed_sigs(a, agree, off_ok) if which == "on" else None) or ["unexplained:" + which]
            for sg in sigs:
                if not sg.startswith("unexplained"):
                    T.explained[sg] += 1
                T.findings.append((sg, what + ("" if len(sigs) == 1 else " [jointly: %s]" % " + ".join(sigs)), dict(rep, attributed=sigs)))
        elif impl and which == "on" and pushed == "true":
            T.nontrivial.add((cid, sql))
    # ORDER BY <key> on top of the range scan: compared as SEQUENCES on the key column (the planner
    # drops the sort when it believes the scan is key-ordered - it must be, also under a KeyRange)
    if q["keypos"]:
        kp = q["keypos"][0]
        T.dist["ordered by key"] += 1
        for which, impl, mrows in (("on", on, m_on), ("off", off, m_off)):
            if impl is None or mrows is None:
                continue
            sql = q["sql"] + (" [optimizer off]" if which == "off" else "")
            keys_i = [row[kp] for row in impl]
            T.ivo["compared"] += 1
            if keys_i != sorted(keys_i, key=vkey):
                T.ivo["disagree"] += 1
                T.findings.append(("unexplained:order-" + which, "%s is not in key order: %s (case %d, %d row-sets)" % (sql, keys_i[:12], cid, nrs),
                                   dict(replay, sql=sql, impl=impl, tags=tags)))
            T.mvi["compared"] += 1
            if [k[0] for k, _ in mrows] != keys_i:
                T.mvi["disagree"] += 1
                T.corr.append(("order:" + which, "case %d: %s: key sequence differs between model and implementation" % (cid, sql),
                               dict(replay, sql=sql, impl=impl, model=[k[0] for k, _ in mrows])))
    # optimizer on vs off directly
    T.ivo["compared"] += 1
    if on is not None and off is not None and bag(tuple(x) for x in on) != bag(tuple(x) for x in off):
        T.ivo["disagree"] += 1


def run(ck):
    n = 320 if ck.quick() else 2800
    run_translators(ck)
    bad = vlib.step_lean(ck, "RlModel.Thm.C13", THEOREMS, extra_targets=["drv_c13"])
    ok, log = vlib.step_cargo(ck, ["c13"])
    if not ok:
        ck.report("build:harness", "harness does not build against the repository", replay={"log": log[-2000:]}, found_input=False)
        return ck.finish(level="proof")
    T = Tally()
    corpus = corpus_lines("C13")
    gen = os.path.join(ck.work, "gen.txt")
    vlib.sh([vlib.harness_bin("c13"), "gen", str(n), gen])
    lines = [l for l in open(gen).read().split("\n") if l.strip()]
    allc = []
    for k, l in enumerate(corpus):
        c = parse_sexp(l)
        allc.append(l.replace("(case %s " % c[1], "(case %d " % (1000000 + k), 1))
    allc += lines
    ck.log("running %d cases (%d corpus) on the implementation and the model" % (len(allc), len(corpus)))
    res = run_cases(ck, "c13", "drv_c13", allc, "all")
    for r in res:
        judge_case13(r, T)
    search = model_search(ck, T, "c13", "c13", "drv_c13", judge_case13)
    if bad or T.corr:
        search["implementation_sample"] = impl_search(ck, T, "c13", "c13", "drv_c13", judge_case13)
    cfs = run_counterfactuals(ck, T, "c13", "drv_c13", judge_case13)
    unexplained = [f for f in T.findings if f[0].startswith("unexplained")]
    for name, st in bad.items():
        if unexplained:
            sig, what, rep = unexplained[0]
            ck.report("thm:" + name, "theorem %s no longer checks (%s); failing input: %s" % (name, st.get("status"), what), replay=rep, found_input=True)
        else:
            ck.report("thm:" + name, "theorem %s no longer checks: %s" % (name, st), replay={"theorem": name, "status": st}, found_input=False)
    finish_reports(ck, T, "c13")
    ck.coverage.update({
        "counterfactuals": cfs, "small_domain_search": search,
        "evaluations": T.mvi["compared"], "distinct_nontrivial": len(T.nontrivial),
        "rule": "distinct (case, SQL text) whose key range was pushed into the scan and whose result is non-empty and equals the oracle, plus distinct non-empty correct storage-level range scans",
        "samples": T.samples[:8], "model_vs_impl": T.mvi, "impl_vs_oracle": T.ivo, "model_vs_oracle": T.mvo,
        "distribution": dict(T.dist), "explained_by_model": dict(T.explained), "cases": len(allc), "corpus_cases": len(corpus),
    })
    return ck.finish(level="proof", trusted_base=[
        "Lean 4 kernel", "rlverif c13 harness + generator", "checks/c13.py comparison code (python predicate evaluation as oracle)",
        "binder and egg optimizer are not modelled: the model interprets the optimized plan the implementation reports",
        "snapshot (hash-set) order of row-sets and block row counts are observed on the implementation and given to the model",
    ])


def replay(path):
    from checks.c12 import replay_case
    return replay_case(path, "c13", "drv_c13")
