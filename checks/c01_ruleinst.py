"""Concrete instances of plan rewrite rules (C01, section B4).

For every plan rule the executor can run both sides of, the left-hand side pattern is instantiated
with concrete sub-plans (scans of three small tables with NULLs and duplicates), predicates, key
lists, join types … that satisfy the rule's side conditions.  The harness saturates an e-graph
holding that plan with exactly this rule and runs one plan per e-node of the root class: every one
of them must return the rows of the left-hand side (as a bag).  This is the rule-level oracle for
plan rules: an unsound rule gives a concrete plan pair with different rows.

Instantiation is by the sort the translator infers for each pattern variable and by the rule's
conditions; a rule it cannot instantiate is listed in the evidence, not skipped silently.
"""
import itertools
import os
import sys

HERE = os.path.dirname(os.path.abspath(__file__))
sys.path.insert(0, os.path.join(os.path.dirname(HERE), "translator"))
import gen_rules as T  # noqa: E402

SETUP = [
    "create table t(a int, b int)",
    "insert into t values (1, 10), (2, 20), (NULL, 30), (7, 70), (2, 20), (3, NULL)",
    "create table u(x int, y int)",
    "insert into u values (2, 200), (NULL, 300), (1, 100), (9, 900), (2, 15), (3, NULL)",
    "create table w(p int, q int)",
    "insert into w values (1, 1), (2, NULL), (NULL, 3), (7, 70), (2, 2)",
    "create table k(id int primary key, v int)",
    "insert into k values (5, 50), (1, 10), (9, NULL)",
    "insert into k values (3, 30), (7, 70), (2, 20)",
    "insert into k values (8, 80), (4, NULL), (6, 60)",
]
TABS = {0: ["$0.0", "$0.1"], 1: ["$1.0", "$1.1"], 2: ["$2.0", "$2.1"], 3: ["$3.0", "$3.1"]}
JOIN_TYPES = ["inner", "left_outer", "right_outer", "full_outer", "semi", "anti"]
JT_OF_VARIANT = {"Inner": "inner", "LeftOuter": "left_outer", "RightOuter": "right_outer", "FullOuter": "full_outer", "Semi": "semi", "Anti": "anti"}
# heads no executor runs (their meaning is tied by reference witnesses / C02), or that need a layout this
# instantiator does not build (sorted inputs, primary keys)
SKIP_HEADS = {"apply", "exists", "in", "index_scan", "window"}


class NoInst(Exception):
    pass


def scan(t):
    return "(scan $%d (list %s) true)" % (t, " ".join(TABS[t]))


def heads(ast, acc):
    if isinstance(ast, list):
        acc.add(ast[0])
        for a in ast[1:]:
            heads(a, acc)
    return acc


def preds(cols, k):
    """a few predicates over the given columns (NULL-sensitive ones included)"""
    c0 = cols[0]
    c1 = cols[1 % len(cols)]
    other = [c for c in cols if c.split(".")[0] != c0.split(".")[0]]
    out = ["(> %s 1)" % c0, "(isnull %s)" % c1, "(or (> %s 15) (isnull %s))" % (c1, c0), "(<> %s 2)" % c0, "(not (> %s 2))" % c0]
    if other:
        out = ["(= %s %s)" % (c0, other[0]), "(< %s %s)" % (c0, other[0]), "(and (= %s %s) (> %s 1))" % (c0, other[0], other[-1])] + out
    return out[k % len(out)]


def render(ast, env):
    if isinstance(ast, str):
        return env[ast] if ast.startswith("?") else ast
    if ast[0] == "list" and len(ast) == 1:
        return "list"
    return "(%s)" % " ".join([ast[0]] + [render(a, env) for a in ast[1:]])


def instances(rule, max_n=8):
    """list of (lhs_text, description) for the rule; raises NoInst"""
    lhs = rule["lhs_ast"]
    hs = heads(lhs, set()) | heads(rule["rhs_ast"], set())
    if hs & SKIP_HEADS:
        raise NoInst("uses %s" % sorted(hs & SKIP_HEADS))
    for c in rule["conds"]:
        if c["fn"] in ("has_vector_index",):
            raise NoInst("condition %s needs a vector index" % c["fn"])
    ordered = {c["args"][1]: c["args"][0] for c in rule["conds"] if c["fn"] == "is_orderby"}     # plan var -> key var
    pk_range = [c["args"][0] for c in rule["conds"] if c["fn"] == "is_primary_key_range"]
    T.LIFTED.clear(); T.SUBST.clear(); T.CUR_SORTS.clear()
    sorts = {}
    try:
        T.plan_infer(lhs, "P", sorts)
    except T.NotX as e:
        raise NoInst("sorts: %s" % e)
    pvars = [v for v, s in sorts.items() if s == "P"]
    keyed_scan = bool(pk_range)       # the scan pattern of the filter-scan rules reads the keyed table
    order = {"?child": 0, "?left": 0, "?mid": 1, "?right": 2 if "?mid" in pvars else 1}
    tab = {}
    for v in pvars:
        if v not in order:
            raise NoInst("plan variable %s" % v)
        tab[v] = order[v]
    if len(set(tab.values())) != len(tab):
        raise NoInst("plan variables share a table")
    allcols = [c for v in pvars for c in TABS[tab[v]]]
    if not pvars and any(so == "TBL" for so in sorts.values()):
        allcols = list(TABS[3 if keyed_scan else 0])

    def pool(v):
        cols = list(allcols)
        for c in rule["conds"]:
            if c["fn"] == "not_depend_on" and c["args"][0] == v and c["args"][1] in tab:
                cols = [x for x in cols if x not in TABS[tab[c["args"][1]]]]
            if c["fn"] == "all_depend_on" and c["args"][0] == v and c["args"][1] in tab:
                cols = [x for x in cols if x in TABS[tab[c["args"][1]]]]
        if not cols:
            raise NoInst("no column left for %s" % v)
        return cols

    jt_choices = JOIN_TYPES
    for c in rule["conds"]:
        if c["fn"] == "join_type_is":
            jt_choices = [JT_OF_VARIANT[x] for x in c["args"][1][6:].split(",")]
    under_hashjoin = "hashjoin" in heads(lhs, set())
    out = []
    for k in range(max_n):
        env = {}
        for v, so in sorts.items():
            if so == "P":
                # an input the rule needs sorted by some keys is an explicit ORDER BY over the scan
                env[v] = "(order (list %s) %s)" % (TABS[tab[v]][0], scan(tab[v])) if v in ordered else scan(tab[v])
            elif so == "B" and v in pk_range:
                env[v] = ["(> $3.0 2)", "(and (>= $3.0 2) (< $3.0 7))", "(= $3.0 4)", "(<= $3.0 5)", "(and (> $3.0 8) (< $3.0 3))", "(>= $3.0 9)"][k % 6]
            elif so == "B":
                if under_hashjoin and v == "?cond":
                    env[v] = "true"          # the hash-join executor asserts a `true` residual for non-semi types
                else:
                    env[v] = preds(pool(v), k + (sum(map(ord, v)) % 5))
            elif so == "E":
                idx = int(v[-1]) - 1 if v[-1].isdigit() else 0
                constrained = any(c["args"] and c["args"][0] == v for c in rule["conds"])
                if constrained:
                    # whatever the rule's conditions allow: a column, or (every other instance) an
                    # expression over columns of two inputs when the conditions do not forbid it
                    cols = pool(v)
                    tabs_in = sorted({c.split(".")[0] for c in cols})
                    if len(tabs_in) > 1 and k % 2 == 1:
                        a = [c for c in cols if c.split(".")[0] == tabs_in[0]]
                        b = [c for c in cols if c.split(".")[0] == tabs_in[1]]
                        env[v] = "(+ %s %s)" % (b[(idx + k) % len(b)], a[(idx + k) % len(a)])
                    else:
                        own = [c for c in cols if c in TABS[tab.get("?left" if v[1] == "l" else "?right", tab[pvars[0]])]] or cols
                        env[v] = own[(idx + k) % len(own)]
                else:
                    side = "?left" if v[1] == "l" else "?right" if v[1] == "r" else pvars[0]
                    cols = TABS[tab.get(side, tab[pvars[0]])]
                    env[v] = cols[(idx + k) % len(cols)]
            elif so in ("EL", "CL", "KL") and v in ordered.values():
                pv = next(p for p, kv in ordered.items() if kv == v)
                env[v] = "(list %s)" % TABS[tab[pv]][0]
            elif so in ("EL", "CL"):
                if any(c["fn"] == "schema_is_eq" and c["args"][0] == v for c in rule["conds"]):
                    env[v] = "(list %s)" % " ".join(TABS[tab[next(c["args"][1] for c in rule["conds"] if c["fn"] == "schema_is_eq")]])
                elif v in ("?lkeys",):
                    env[v] = "(list %s)" % TABS[tab["?left"]][k % 2]
                elif v in ("?rkeys",):
                    env[v] = "(list %s)" % TABS[tab["?right"]][k % 2]
                elif v == "?keys" and so == "EL":
                    cols = pool(v)
                    env[v] = "(list %s)" % cols[k % len(cols)]
                elif v == "?columns":
                    env[v] = "(list %s)" % " ".join(TABS[3 if keyed_scan else 0])
                else:
                    cols = pool(v)
                    n = 1 + (k % len(cols))
                    rot = cols[k % len(cols):] + cols[:k % len(cols)]
                    # a projection below another operator keeps every column (the parent may read any);
                    # the projection at the root of the pattern takes a subset
                    at_root = isinstance(lhs, list) and lhs[0] == "proj" and lhs[1] == v
                    env[v] = "(list %s)" % " ".join(rot[:n] if at_root else rot)
            elif so == "KL":
                cols = pool(v)
                env[v] = ["(list %s)" % cols[0], "(list (desc %s))" % cols[-1], "(list %s (desc %s))" % (cols[0], cols[-1])][k % 3]
            elif so == "AL":
                cols = TABS[tab[pvars[0]]]
                env[v] = ["(list (sum %s) (count %s))" % (cols[1], cols[0]), "(list (max %s) rowcount)" % cols[0], "(list (min %s))" % cols[1]][k % 3]
            elif so == "JT":
                env[v] = jt_choices[k % len(jt_choices)]
            elif so == "LIM":
                env[v] = ["2", "null", "0", "3"][k % 4]
            elif so == "OFF":
                env[v] = ["1", "0", "2"][k % 3]
            elif so == "TBL":
                env[v] = "$3" if keyed_scan else "$0"
            else:
                raise NoInst("sort %s of %s" % (so, v))
        # parents of a projection may only read what it outputs: a filter above (proj ?proj ..) etc.
        text = render(lhs, env)
        out.append((text, dict({v: env[v] for v in env}, **({"engine": "disk"} if keyed_scan or ordered else {}))))
    # distinct
    seen, uniq = set(), []
    for t, e in out:
        if t not in seen:
            seen.add(t)
            uniq.append((t, e))
    return uniq
