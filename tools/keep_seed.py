#!/usr/bin/env python3
"""tools/keep_seed.py <seed-id> <slug> <runlog>... : keeps a confirmed seeded change under /verif/seeded/<slug>/
(patch.diff, demonstration, run_demo.sh, meta.json with the lead's confirmation and which checks caught it)."""
import json, os, re, shutil, sys
sid, slug, logs = sys.argv[1], sys.argv[2], sys.argv[3:]
out = "/tmp/seed-%s-out" % sid
dst = "/verif/seeded/%s" % slug
os.makedirs(dst, exist_ok=True)
for fn in os.listdir(out):
    if fn in ("patch.diff", "run_demo.sh", "meta.json") or fn.endswith(".rs") or fn.endswith(".slt") or fn.endswith(".sql") or fn.endswith(".py"):
        shutil.copy(os.path.join(out, fn), os.path.join(dst, fn))
meta = json.load(open(os.path.join(out, "meta.json")))
conf = open(os.path.join(out, "confirm.log")).read() if os.path.exists(os.path.join(out, "confirm.log")) else ""
results = re.findall(r"test result: .*?(\d+) passed; (\d+) failed", conf)
meta["confirmed_by_lead"] = {
    "worktree_diff_equals_patch": "WORKTREE DIFF" not in conf,
    "existing_tests_with_change": {"passed": sum(int(a) for a, b in results), "failed": sum(int(b) for a, b in results)},
    "demo_rc_with_change": (re.search(r"rc_with=(\d+)", conf) or [None, None])[1],
    "demo_rc_without_change": (re.search(r"rc_without=(\d+)", conf) or [None, None])[1],
    "commands": ["tools/confirm_seed.sh %s" % sid],
}
runs = []
for lg in logs:
    t = open(lg).read()
    m = re.search(r"seedrun-[a-z0-9]+-(C\d+)\.log", lg)
    viol = re.findall(r"VIOLATION property=(C\d+) replay=\S*/([^/\s]+)\.json( no-failing-input-found)?", t)
    ex = re.search(r"exit=(\d+)", t)
    runs.append({"check": m.group(1) if m else lg, "command": "VERIF_REPO=/tmp/seed-%s ./check %s --tier quick" % (sid, m.group(1) if m else "?"),
                 "exit": int(ex.group(1)) if ex else None, "caught": bool(viol),
                 "violations": [{"sig_file": v[1], "concrete_input": not v[2]} for v in viol][:12],
                 "contaminated": "CONTAMINATED" in t})
meta["checks_run_against_it"] = runs
json.dump(meta, open(os.path.join(dst, "meta.json"), "w"), indent=1)
print(slug, [(r["check"], r["caught"]) for r in runs])
