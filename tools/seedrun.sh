#!/bin/bash
# tools/seedrun.sh <seed-id> <check> [<check>...]
# Puts /tmp/seed-<id> at /repo's HEAD with exactly /tmp/seed-<id>-out/patch.diff applied, runs the
# checks against it (VERIF_REPO), logs to .work/seedrun-<id>-<check>.log.  Never uses git stash.
id=$1; shift
wt=/tmp/seed-$id; out=/tmp/seed-$id-out
cd /verif
head=$(git -C /repo rev-parse HEAD)
if [ ! -d $wt ]; then git -C /repo worktree add --detach $wt $head >/dev/null 2>&1; fi
git -C $wt checkout -q -- . && git -C $wt checkout -q --detach $head && git -C $wt apply $out/patch.diff || { echo "cannot apply $id"; exit 3; }
for P in "$@"; do
  [ "$(git -C $wt diff | git patch-id --stable | cut -d' ' -f1)" = "$(git patch-id --stable < $out/patch.diff | cut -d' ' -f1)" ] || { echo "CONTAMINATED before" > .work/seedrun-$id-$P.log; continue; }
  VERIF_REPO=$wt flock .work/lock-$P ./check $P --tier quick > .work/seedrun-$id-$P.log 2>&1; echo "exit=$?" >> .work/seedrun-$id-$P.log
  echo "base=$head" >> .work/seedrun-$id-$P.log
  [ "$(git -C $wt diff | git patch-id --stable | cut -d' ' -f1)" = "$(git patch-id --stable < $out/patch.diff | cut -d' ' -f1)" ] || echo "CONTAMINATED after" >> .work/seedrun-$id-$P.log
done
# restore generated Lean files to what /repo says (scratch runs regenerate them from the worktree)
python3 translator/gen_rules.py /repo > /dev/null 2>&1; python3 translator/gen_schema.py /repo > /dev/null 2>&1; python3 translator/gen_builder.py /repo > /dev/null 2>&1; python3 translator/gen_rows.py /repo > /dev/null 2>&1; python3 translator/gen_cost.py /repo > /dev/null 2>&1; VERIF_REPO=/repo python3 translator/gen_consts.py > /dev/null 2>&1; VERIF_REPO=/repo python3 translator/gen_valueorder.py > /dev/null 2>&1
