#!/bin/bash
# tools/seedfinal_par.sh : runs tools/seedfinal.sh for every kept seeded change, in six workers whose
# properties do not share generated Lean files (so that scratch runs do not race on lean/RlModel/Gen).
cd /verif
declare -A W
W[1]="C01 C17 C19 C20"; W[2]="C02 C11 C14 C16"; W[3]="C12 C13 C06 C18"; W[4]="C03 C07 C05"; W[5]="C08 C09 C10"; W[6]="C04 C15"
for w in 1 2 3 4 5 6; do
  slugs=""
  for d in seeded/*/; do
    s=$(basename $d); [ -f $d/meta.json ] || continue
    P=$(python3 -c "import json;print(json.load(open('$d/meta.json'))['property'])")
    for q in ${W[$w]}; do [ "$P" = "$q" ] && slugs="$slugs $s"; done
  done
  ( SEEDFINAL_NO_RESTORE=1 tools/seedfinal.sh $slugs > .work/seedfinal-worker$w.log 2>&1; echo done > .work/seedfinal-worker$w.done ) &
done
wait
# restore the generated Lean files to what /repo says
python3 translator/gen_rules.py /repo > /dev/null 2>&1; python3 translator/gen_schema.py /repo > /dev/null 2>&1; python3 translator/gen_builder.py /repo > /dev/null 2>&1; python3 translator/gen_rows.py /repo > /dev/null 2>&1; python3 translator/gen_cost.py /repo > /dev/null 2>&1; VERIF_REPO=/repo python3 translator/gen_consts.py > /dev/null 2>&1; VERIF_REPO=/repo python3 translator/gen_valueorder.py > /dev/null 2>&1
for P in C04 C12 C13; do ./check $P --tier quick > /dev/null 2>&1; done   # (their generators run inside the checks)
echo ALLDONE > .work/seedfinal.done
