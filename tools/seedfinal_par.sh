#!/bin/bash
# tools/seedfinal_par.sh : runs tools/seedfinal.sh for every kept seeded change, in four workers whose
# properties do not share generated Lean files (so that scratch runs do not race on lean/RlModel/Gen).
cd /verif
declare -A W
W[1]="C01 C17 C02 C11"; W[2]="C12 C13 C03 C07 C05"; W[3]="C06 C18 C08 C09 C10"; W[4]="C04 C15 C14 C16 C19 C20"
for w in 1 2 3 4; do
  slugs=""
  for d in seeded/*/; do
    s=$(basename $d); [ -f $d/meta.json ] || continue
    P=$(python3 -c "import json;print(json.load(open('$d/meta.json'))['property'])")
    for q in ${W[$w]}; do [ "$P" = "$q" ] && slugs="$slugs $s"; done
  done
  ( tools/seedfinal.sh $slugs > .work/seedfinal-worker$w.log 2>&1; echo done > .work/seedfinal-worker$w.done ) &
done
wait
echo ALLDONE > .work/seedfinal.done
