#!/usr/bin/env python3
"""tools/mkprompts.py <round> [<ID>...] : writes seeded/prompt<round>_<ID>.txt — the text given to a fresh
sub-agent that plants one seeded change for property <ID> (only the property's text, its own scratch worktree
and a one-line summary of what others already planted for the same property; nothing from /verif)."""
import glob, json, os, sys
rnd = sys.argv[1]
ids = sys.argv[2:]
props = {json.loads(l)["id"]: json.loads(l) for l in open("/verif/properties.jsonl")}
prev = {}
for mp in sorted(glob.glob("/verif/seeded/*/meta.json")) + sorted(glob.glob("/tmp/seed[0-9]-*-out/meta.json")):
    m = json.load(open(mp))
    txt = " ".join(m["summary"].split())[:330]
    if not any(t[:150] == txt[:150] for t in prev.get(m["property"], [])):
        prev.setdefault(m["property"], []).append(txt)
for pid in ids or sorted(props):
    p = props[pid]
    wt = "/tmp/seed%s-%s" % (rnd, pid.lower())
    anchors = p.get("anchors")
    files = []
    if isinstance(anchors, str):
        try:
            files = eval(anchors).get("files", [])
        except Exception:
            files = []
    elif isinstance(anchors, dict):
        files = anchors.get("files", [])
    others = "; ".join("(%d) %s" % (i + 1, s) for i, s in enumerate(prev.get(pid, [])))
    text = f"""You are helping to evaluate a verification framework, by planting ONE subtle defect in a Rust code base. Work ONLY inside your own git worktree `{wt}` (create it first: `git -C /repo worktree add --detach {wt} HEAD`); never edit /repo itself, never look at or use anything under /verif (you must work independently of it), never use the network (there is none; build with `cargo build --offline` / `cargo test --offline`; set `CARGO_TARGET_DIR={wt}/target`).

The code base is RisingLight, an educational OLAP SQL database (parser → binder → egg optimizer → vectorized executors → memory / columnar on-disk storage). This behavioural property is supposed to hold for it:

**{p['title']}**
{p['statement']}
Quantifier: {p['quantifier']['text']}
Relevant source files (starting points): {', '.join(files)}

Other people have already planted defects of this kind: {others}. Choose a DIFFERENT mechanism in a different function (and preferably a different file) from all of them; do NOT use any of the mechanisms that others have planted more than once for other properties: the merge heap of `src/storage/secondary/merge_iterator.rs`, the DeleteDV loop of `Compactor::compact_table` running over all row-sets, the early return of `drop_table_inner` for a table without row-sets, `SortAggExecutor` comparing keys within one chunk only, `TopN` skipping rows that tie on the first key, the sift-down / child choice of any heap; prefer a place none of them is near (a different layer of the system: parser/binder, planner analysis, cost model, executor, array kernels, storage format, manifest, catalog, options handling, background tasks), and a defect that needs TWO things to coincide (a particular data layout AND a particular query shape, two cooperating sites, an option AND an input, an interleaving AND a state).

Your task: design a small, realistic code change (the kind of slip a maintainer could make in a refactoring or optimisation: an off-by-one at a boundary, a dropped NULL check, a swapped branch, a wrong bound, a missing lock/flush step, a stale cached value, two sites that each look fine alone …) that BREAKS this property while
 1. the crate still compiles (`cargo build --offline` in the worktree),
 2. the repository's existing test suite still passes (`cd {wt} && CARGO_TARGET_DIR={wt}/target cargo test --offline --workspace --no-fail-fast 2>&1 | grep -E "^test result|FAILED|failed" `; it takes a few minutes),
 3. ordinary use does not expose it at once: it must need something specific to manifest — a particular interleaving, a crash or fault at a particular point, a multi-step sequence of operations, an unusual input or data layout, a particular configuration, or two cooperating sites.
Then write a demonstration — a Rust integration test file (tests/<name>.rs; use a current-thread tokio runtime like the repository's own tests: `#[tokio::test]`) or a small SQL/sqllogictest script with a driver — that FAILS with your change and PASSES without it, and confirm both yourself (run it on the patched worktree; then take the change out with `git diff > {wt}-out/my.diff && git apply -R {wt}-out/my.diff`, run again, re-apply with `git apply {wt}-out/my.diff`; NEVER use `git stash`: its stack is shared by all worktrees of the repository and other people are working in sibling worktrees; never use `pkill`/`killall`). The demonstration must not depend on environment variables such as RUST_BACKTRACE or RUST_LOG, on wall-clock timing margins below a second, or on text of error messages beyond a stable keyword.

Deliver in `{wt}-out/` (create it):
 - `patch.diff` — `git -C {wt} diff` of the defect only (no demo files in it),
 - the demonstration file(s) and `run_demo.sh` (a script that runs the demonstration inside a given worktree path `$1` with `CARGO_TARGET_DIR=$1/target`, removes the demo file from the worktree afterwards, exits 0 when the behaviour is correct and non-zero when the defect shows),
 - `meta.json`: {{"property": "{pid}", "summary": "...", "what_it_needs_to_manifest": "...", "files_changed": [...], "commands_run": [...], "tests_passed_with_change": true/false, "demo_fails_with_change": true/false, "demo_passes_without_change": true/false}}.
Leave the worktree in place with the change applied and its target dir built (it will be reused for confirmation). Keep the change small (ideally < 15 lines). Do not weaken or edit existing tests. If your first idea turns out to be caught by the existing tests, pick another. Final answer: 5 lines — what you changed, where, what triggers it, and the three confirmations."""
    open("/verif/seeded/prompt%s_%s.txt" % (rnd, pid), "w").write(text)
    print(pid, len(prev.get(pid, [])), "previous")
