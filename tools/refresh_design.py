#!/usr/bin/env python3
"""replaces the generated blocks of DESIGN.md (FIXTABLE, SEEDTABLE, OPENFINDINGS)"""
import re, subprocess
p = "/verif/DESIGN.md"
s = open(p).read()
for name, tool in (("FIXTABLE", "mkfixtable.py"), ("SEEDTABLE", "mkseedtable.py"), ("OPENFINDINGS", "mkopenfindings.py")):
    out = subprocess.run(["python3", "/verif/tools/" + tool], capture_output=True, text=True).stdout.rstrip("\n")
    pat = re.compile(r"(<!-- BEGIN:%s[^>]*-->\n).*?(<!-- END:%s -->)" % (name, name), re.S)
    assert pat.search(s), name
    s = pat.sub(lambda m: m.group(1) + out + "\n" + m.group(2), s)
open(p, "w").write(s)
print("DESIGN.md refreshed")
