#!/usr/bin/env python3
"""Assembles /verif/MANIFEST.json from checks/manifest/<ID>.json fragments and validates it."""
import json, os, subprocess, sys
V = os.path.dirname(os.path.dirname(os.path.abspath(__file__)))
props = [json.loads(l)["id"] for l in open(os.path.join(V, "properties.jsonl"))]
base = json.load(open(os.path.join(V, "checks/manifest/_base.json")))
checks, na = [], []
for pid in props:
    f = os.path.join(V, "checks/manifest/%s.json" % pid)
    if os.path.exists(f):
        c = json.load(open(f))
        if "not_applicable" in c:
            na.append({"property_id": pid, "reason": c["not_applicable"]})
            continue
        c.setdefault("property_id", pid)
        c.setdefault("quick_cmd", "./check %s --tier quick" % pid)
        c.setdefault("thorough_cmd", "./check %s --tier thorough" % pid)
        c.setdefault("evidence_file", "/verif/evidence/%s.json" % pid)
        c.setdefault("replay_cmd_template", "./check %s --replay {path}" % pid)
        c.setdefault("engine", "lean4+rlverif")
        checks.append(c)
    else:
        na.append({"property_id": pid, "reason": "check not built yet (work in progress; planned per DESIGN.md section 5)"})
m = dict(base)
# hook commits in /repo: everything after the pinned snapshot that is not a `fix:` repair
try:
    log = subprocess.run(["git", "-C", "/repo", "log", "--reverse", "--format=%H %s"], capture_output=True, text=True).stdout.strip().split("\n")
    hooks = [l.split(" ", 1)[0] for l in log[1:] if not l.split(" ", 1)[1].startswith("fix:")]
    m["hooks"] = dict(m["hooks"], source_commits=hooks)
except Exception:
    pass
m["checks"] = checks
m["not_applicable"] = na
out = os.path.join(V, "MANIFEST.json")
json.dump(m, open(out, "w"), indent=1)
r = subprocess.run(["python3-vt", "-c", "import json,jsonschema,sys; jsonschema.validate(json.load(open(sys.argv[1])), json.load(open('/root/.vp/MANIFEST.schema.json'))); print('MANIFEST valid:', sys.argv[1])", out])
sys.exit(r.returncode)
