#!/usr/bin/env python3
"""prints the markdown table of DESIGN.md section 13 from /repo's `fix:` commits and the `fixed`
entries of known_findings/*.json"""
import json, glob, subprocess, collections
log = subprocess.run(["git", "-C", "/repo", "log", "--reverse", "--format=%h\t%s"], capture_output=True, text=True).stdout.splitlines()
props = collections.defaultdict(set)
sigs = collections.defaultdict(set)
for f in sorted(glob.glob("/verif/known_findings/C*.json")):
    k = json.load(open(f))
    for x in k.get("fixed", []):
        for c in str(x.get("commit", "")).replace(",", " ").split():
            c = c[:7]
            props[c].add(x.get("property", f[-8:-5]))
            sigs[c].add(x.get("sig", x.get("signature", "")))
print("| commit | defect (first line of the commit message) | properties | findings closed |")
print("|---|---|---|---|")
for l in log:
    h, s = l.split("\t", 1)
    if not s.startswith("fix:"):
        continue
    s = s[4:].strip()
    if len(s) > 150:
        s = s[:147] + "…"
    print("| %s | %s | %s | %d |" % (h, s.replace("|", "\\|"), ", ".join(sorted(props.get(h[:7], []))) or "—", len(sigs.get(h[:7], []))))
