#!/usr/bin/env python3
"""prints the markdown table of DESIGN.md section 12 from seeded/*/meta.json and final_run.json"""
import json, glob, os
print("| seeded change | property | where | needs, to manifest (summary) | first run: caught by | missed first by | final tree: owning check |")
print("|---|---|---|---|---|---|---|")
for d in sorted(glob.glob("/verif/seeded/*/meta.json")):
    slug = os.path.basename(os.path.dirname(d))
    m = json.load(open(d))
    runs = m.get("checks_run_against_it", [])
    caught = sorted({r["check"] for r in runs if r.get("caught")})
    missed = sorted({r["check"] for r in runs if not r.get("caught") and r["check"] == m["property"]} | set(m.get("first_run_missed_by", [])))
    # a check that missed first and caught after strengthening appears in both
    fr = os.path.join(os.path.dirname(d), "final_run.json")
    fin = "—"
    if os.path.exists(fr):
        f = json.load(open(fr))
        if not f.get("applies"):
            fin = "patch no longer applies (the code was changed by a repair)"
        else:
            fin = ("caught (%d violation(s)%s)" % (len(f["violations"]), ", concrete input" if any(v["concrete_input"] for v in f["violations"]) else "")) if f.get("caught") else "MISSED"
    needs = (m.get("what_it_needs_to_manifest") or "").replace("|", "/").replace("\n", " ")
    if len(needs) > 170:
        needs = needs[:167] + "…"
    files = ", ".join(os.path.basename(x) for x in m.get("files_changed", []))[:60]
    print("| %s | %s | %s | %s | %s | %s | %s |" % (slug, m["property"], files, needs, ", ".join(caught) or "—", ", ".join(missed) or "—", fin))
