#!/usr/bin/env python3
"""prints the open findings (known_findings/*.json `findings`) per property as markdown"""
import json, glob
tot = 0
for f in sorted(glob.glob("/verif/known_findings/C*.json")):
    k = json.load(open(f)); P = f[-8:-5]
    fs = k.get("findings", [])
    if not fs:
        print("* **%s** — none open (%d repaired)." % (P, len(k.get("fixed", []))))
        continue
    tot += len(fs)
    print("* **%s** — %d open (%d repaired):" % (P, len(fs), len(k.get("fixed", []))))
    for x in fs:
        s = x.get("sig", x.get("signature", ""))
        w = (x.get("what", "") or "").replace("\n", " ")
        if len(w) > 230:
            w = w[:227] + "…"
        print("  * `%s` — %s" % (s if len(s) < 90 else s[:87] + "…", w))
print("\nTotal open signatures: %d." % tot)
