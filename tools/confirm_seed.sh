#!/bin/bash
# tools/confirm_seed.sh <id> : confirms a seeded change delivered in /tmp/seed-<id>{,-out}:
#  builds, existing test suite with the change, demo fails with / passes without the change.
id=$1; wt=/tmp/seed-$id; out=/tmp/seed-$id-out; log=$out/confirm.log
export CARGO_TARGET_DIR=$wt/target CARGO_NET_OFFLINE=true RUST_LOG=off
cd $wt || exit 2
git diff > $out/current.diff; if ! diff -q $out/current.diff $out/patch.diff > /dev/null; then echo "WORKTREE DIFF != patch.diff" > $log; cat $log; exit 3; fi
echo "== diff stat" > $log; git diff --stat >> $log
echo "== build+tests with change" >> $log
( cargo test --offline --workspace --no-fail-fast 2>&1 | grep -E "^test result|FAILED|failed|panicked|error(\[|:)" | head -40 ) >> $log
echo "== demo with change (expect non-zero)" >> $log
bash $out/run_demo.sh $wt > $out/demo_with.log 2>&1; echo "rc_with=$?" >> $log
git apply -R $out/patch.diff   # (never `git stash`: the stash stack is shared by all worktrees of /repo)
echo "== demo without change (expect 0)" >> $log
bash $out/run_demo.sh $wt > $out/demo_without.log 2>&1; echo "rc_without=$?" >> $log
git apply $out/patch.diff
echo "== done" >> $log
cat $log
