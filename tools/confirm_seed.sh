#!/bin/bash
# tools/confirm_seed.sh <id> : confirms a seeded change delivered in /tmp/seed-<id>{,-out}:
#  builds, existing test suite with the change, demo fails with / passes without the change.
id=$1; wt=/tmp/seed-$id; out=/tmp/seed-$id-out; log=$out/confirm.log
export CARGO_TARGET_DIR=$wt/target CARGO_NET_OFFLINE=true RUST_LOG=off
cd $wt || exit 2
echo "== diff stat" > $log; git diff --stat >> $log
echo "== build+tests with change" >> $log
( cargo test --offline --workspace --no-fail-fast 2>&1 | grep -E "^test result|FAILED|failed|panicked|error(\[|:)" | head -40 ) >> $log
echo "== demo with change (expect non-zero)" >> $log
bash $out/run_demo.sh $wt > $out/demo_with.log 2>&1; echo "rc_with=$?" >> $log
git stash -q
echo "== demo without change (expect 0)" >> $log
bash $out/run_demo.sh $wt > $out/demo_without.log 2>&1; echo "rc_without=$?" >> $log
git stash pop -q
echo "== done" >> $log
cat $log
