#!/bin/bash
# tools/seedfinal.sh <slug>... : runs the owning check (quick) of each kept seeded change against a
# scratch worktree at /repo's HEAD with exactly seeded/<slug>/patch.diff applied; writes
# seeded/<slug>/final_run.json.  Worktree and build output are removed afterwards.
cd /verif
head=$(git -C /repo rev-parse HEAD)
for slug in "$@"; do
  d=/verif/seeded/$slug; wt=/tmp/seedf-$slug
  P=$(python3 -c "import json;print(json.load(open('$d/meta.json'))['property'])")
  git -C /repo worktree add --detach $wt $head >/dev/null 2>&1
  if ! git -C $wt apply $d/patch.diff 2>/tmp/seedf-$slug.err; then
    python3 - <<PY
import json
json.dump({"repo_head":"$head","check":"$P","applies":False,"note":open('/tmp/seedf-$slug.err').read()[:400]},open('$d/final_run.json','w'),indent=1)
PY
    git -C /repo worktree remove --force $wt; rm -rf $wt; continue
  fi
  VERIF_REPO=$wt ./check $P --tier quick > .work/seedfinal-$slug.log 2>&1; rc=$?
  python3 - <<PY
import json,re
t=open('/verif/.work/seedfinal-$slug.log').read()
viol=re.findall(r"VIOLATION property=(C\d+) replay=\S*/([^/\s]+)\.json( no-failing-input-found)?", t)
json.dump({"repo_head":"$head","check":"$P","applies":True,"exit":$rc,"caught":bool(viol),
  "violations":[{"sig_file":v[1],"concrete_input":not v[2]} for v in viol][:12]},open('$d/final_run.json','w'),indent=1)
PY
  git -C /repo worktree remove --force $wt; rm -rf $wt
done
if [ -z "$SEEDFINAL_NO_RESTORE" ]; then python3 translator/gen_rules.py /repo > /dev/null 2>&1; python3 translator/gen_schema.py /repo > /dev/null 2>&1; python3 translator/gen_builder.py /repo > /dev/null 2>&1; python3 translator/gen_rows.py /repo > /dev/null 2>&1; python3 translator/gen_cost.py /repo > /dev/null 2>&1; VERIF_REPO=/repo python3 translator/gen_consts.py > /dev/null 2>&1; VERIF_REPO=/repo python3 translator/gen_valueorder.py > /dev/null 2>&1; fi
ls translator/
