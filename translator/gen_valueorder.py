#!/usr/bin/env python3
"""Translator tie for C19: re-extracts, from /repo's *source text*, the variant order of
`enum DataValue` (src/types/value.rs) -- which IS the derive(Ord) order NULL < bool < ints < ... --
the `#[display(..)]` strings of its variants, and the variant order of `enum DataType`
(src/types/mod.rs, "NOTE: order matters"), and writes lean/RlModel/Gen/ValueOrder.lean.

`Thm/C19.lean` contains theorems (`rank_matches_source`, `type_order_matches_source`) that stop
compiling when the regenerated lists differ from the hand model's `rank`.

Strict: anything unexpected (enum not found, a variant with an explicit discriminant, cfg
attributes on variants, the derive list lacking Ord/Hash/PartialEq) is an error (exit 2).
usage: gen_valueorder.py [REPO] [OUT]"""
import os
import re
import sys



def _write_if_changed(path, text):
    """atomic, and only when the content differs: concurrent checks regenerate the same files"""
    try:
        if open(path).read() == text:
            return
    except OSError:
        pass
    tmp = "%s.tmp%d" % (path, os.getpid())
    with open(tmp, "w") as f:
        f.write(text)
    os.replace(tmp, path)


def die(msg):
    print("gen_valueorder: ERROR: " + msg, file=sys.stderr)
    sys.exit(2)


def strip_comments(src):
    src = re.sub(r"/\*.*?\*/", "", src, flags=re.S)
    return "\n".join(re.sub(r"//.*$", "", l) for l in src.split("\n"))


def find_enum(src, name):
    """Returns (attrs_text, body_text) of `pub enum <name> { ... }`."""
    m = re.search(r"((?:\s*#\[[^\]]*\]\s*)*)pub\s+enum\s+%s\s*\{" % re.escape(name), src)
    if not m:
        die("enum %s not found" % name)
    i = m.end()
    depth = 1
    while i < len(src) and depth:
        depth += {"{": 1, "}": -1}.get(src[i], 0)
        i += 1
    if depth:
        die("unbalanced braces in enum %s" % name)
    return m.group(1), src[m.end():i - 1]


def split_variants(body):
    """Top-level comma split of an enum body -> [(attrs, name, payload)]."""
    items, cur, depth = [], "", 0
    for c in body:
        if c in "([{<":
            depth += 1
        elif c in ")]}>":
            depth -= 1
        if c == "," and depth == 0:
            items.append(cur)
            cur = ""
        else:
            cur += c
    if cur.strip():
        items.append(cur)
    out = []
    for it in items:
        it = it.strip()
        if not it:
            continue
        attrs = re.findall(r"#\[([^\]]*)\]", it)
        rest = re.sub(r"#\[[^\]]*\]", "", it).strip()
        m = re.match(r"^([A-Za-z_][A-Za-z0-9_]*)\s*(\(.*\)|\{.*\})?\s*(=.*)?$", rest, re.S)
        if not m:
            die("cannot parse variant %r" % it)
        if m.group(3):
            die("explicit discriminant on variant %s: derive(Ord) order no longer the declaration order" % m.group(1))
        for a in attrs:
            if a.strip().startswith("cfg"):
                die("cfg attribute on variant %s" % m.group(1))
        out.append((attrs, m.group(1), (m.group(2) or "").strip()))
    return out


def lean_str(s):
    return '"' + s.replace("\\", "\\\\").replace('"', '\\"') + '"'


def main():
    repo = sys.argv[1] if len(sys.argv) > 1 else os.environ.get("VERIF_REPO", "/repo")
    here = os.path.dirname(os.path.dirname(os.path.abspath(__file__)))
    out = sys.argv[2] if len(sys.argv) > 2 else os.path.join(here, "lean/RlModel/Gen/ValueOrder.lean")
    vsrc = strip_comments(open(os.path.join(repo, "src/types/value.rs")).read())
    tsrc = strip_comments(open(os.path.join(repo, "src/types/mod.rs")).read())
    vattrs, vbody = find_enum(vsrc, "DataValue")
    tattrs, tbody = find_enum(tsrc, "DataType")
    derives = {}
    for nm, attrs in (("DataValue", vattrs), ("DataType", tattrs)):
        m = re.search(r"derive\(([^)]*)\)", attrs)
        if not m:
            die("no derive(...) on enum %s" % nm)
        derives[nm] = [d.strip() for d in m.group(1).split(",") if d.strip()]
    for need in ("PartialEq", "Eq", "PartialOrd", "Ord", "Hash"):
        if need not in derives["DataValue"]:
            die("DataValue no longer derives %s: the relation is hand-written, the model must be redone" % need)
    # a hand-written impl would silently replace the derived relation
    for tr in ("PartialEq", "Eq", "PartialOrd", "Ord", "Hash"):
        if re.search(r"impl\s+(?:std::\w+::|core::\w+::)?%s\s+for\s+DataValue\b" % tr, vsrc):
            die("hand-written impl %s for DataValue found" % tr)
    # payload structs whose derived, field-lexicographic Ord/Eq/Hash the model mirrors
    isrc = strip_comments(open(os.path.join(repo, "src/types/interval.rs")).read())
    m = re.search(r"((?:\s*#\[[^\]]*\]\s*)*)pub\s+struct\s+Interval\s*\{([^}]*)\}", isrc)
    if not m:
        die("struct Interval { .. } not found")
    iv_derive = re.search(r"derive\(([^)]*)\)", m.group(1))
    if not iv_derive:
        die("no derive(...) on struct Interval")
    iv_derives = [d.strip() for d in iv_derive.group(1).split(",") if d.strip()]
    iv_fields = [re.sub(r"\s+", "", f) for f in m.group(2).split(",") if f.strip()]
    for tr in ("PartialEq", "Eq", "PartialOrd", "Ord", "Hash"):
        if tr not in iv_derives:
            die("Interval no longer derives %s" % tr)
        if re.search(r"impl\s+(?:std::\w+::|core::\w+::)?%s\s+for\s+Interval\b" % tr, isrc):
            die("hand-written impl %s for Interval found" % tr)
    vvars = split_variants(vbody)
    tvars = split_variants(tbody)
    disp = []
    for attrs, name, payload in vvars:
        d = [re.match(r'display\(\s*"(.*)"\s*\)', a.strip()) for a in attrs]
        d = [x.group(1) for x in d if x]
        if len(d) != 1:
            die("variant %s: expected exactly one #[display(\"..\")]" % name)
        disp.append(d[0])
    with open(out + ".tmp", "w") as f:
        f.write("/- GENERATED by translator/gen_valueorder.py from %s/src/types/{value,mod}.rs -- do not edit. -/\n" % "<repo>")
        f.write("namespace RlModel\nnamespace Gen\nnamespace ValueOrder\n\n")
        f.write("/-- variants of `enum DataValue` in declaration order (= derive(Ord) order) -/\n")
        f.write("def dataValueVariants : List String :=\n  [%s]\n\n" % ", ".join(lean_str(n) for _, n, _ in vvars))
        f.write("/-- payload type text of each variant -/\n")
        f.write("def dataValuePayloads : List String :=\n  [%s]\n\n" % ", ".join(lean_str(re.sub(r"\s+", "", p)) for _, _, p in vvars))
        f.write("/-- `#[display(..)]` format string of each variant -/\n")
        f.write("def dataValueDisplay : List String :=\n  [%s]\n\n" % ", ".join(lean_str(d) for d in disp))
        f.write("def dataValueDerives : List String :=\n  [%s]\n\n" % ", ".join(lean_str(d) for d in derives["DataValue"]))
        f.write("/-- variants of `enum DataType` in declaration order -/\n")
        f.write("def dataTypeVariants : List String :=\n  [%s]\n\n" % ", ".join(lean_str(n) for _, n, _ in tvars))
        f.write("/-- fields of `struct Interval` in declaration order (= derived Ord / Hash order), `name:type` -/\n")
        f.write("def intervalFields : List String :=\n  [%s]\n\n" % ", ".join(lean_str(x) for x in iv_fields))
        f.write("end ValueOrder\nend Gen\nend RlModel\n")
    # only touch the file when the content changed (keeps lake builds incremental)
    new = open(out + ".tmp").read()
    old = open(out).read() if os.path.exists(out) else None
    if new != old:
        os.replace(out + ".tmp", out)
    else:
        os.unlink(out + ".tmp")
    print("gen_valueorder: %d DataValue variants, %d DataType variants -> %s" % (len(vvars), len(tvars), out))


if __name__ == "__main__":
    main()
