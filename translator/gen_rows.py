#!/usr/bin/env python3
"""translator/gen_rows.py [repo] [outdir]

Regenerates lean/RlModel/Gen/RowsArms.lean from `src/planner/rules/rows.rs analyze_rows`: one Lean
definition over `Rat` per arm (per case of an arm that branches on the join type / on whether a key
list holds a primary key) and one statement `stmt_rows_<Arm>_<i>` per case:

* for a plan node: the estimate is `>= 0`, given that the estimates of its input plans are `>= 0` and
  the selectivities of its conditions are within `[0, 1]`;
* for anything else (boolean expressions: selectivities; the default arm): the value is within `[0, 1]`,
  given the same of its operands (`In`'s second operand is a plan: `>= 0`).

Together: **no row estimate is negative** (or NaN: `inf * 0` needs an infinite estimate, and the final
clamp `rows.min(f32::MAX)` — `stmt_rows_clamp` — keeps every estimate finite), which is what keeps plan
costs comparable and extraction terminating (fix f74847a, 37a2a68).  The model computes in exact
rationals; f32 rounding is monotone and exact at 0 and 1, division by zero is `inf` in f32 (then
clamped by `.min(1.0)`) and `0` in `Rat` — both within the stated bounds.

Strict: an arm or an expression it cannot read is a TRANSLATE-ERROR (exit 2)."""
import os, re, sys

VERIF = os.path.dirname(os.path.dirname(os.path.abspath(__file__)))
sys.path.insert(0, os.path.dirname(os.path.abspath(__file__)))
from gen_schema import TranslateError, strip_comments, _write_if_changed  # noqa: E402
from gen_builder import fn_body  # noqa: E402

PLAN_ARMS = {"Values", "Scan", "Proj", "Order", "Window", "Agg", "HashAgg", "SortAgg", "Filter", "Limit", "TopN", "Join", "HashJoin",
             "MergeJoin", "Apply", "Empty", "Max1Row", "IndexScan", "Insert", "Delete", "CopyTo", "CopyFrom"}
ROWS_VARS = {"c", "l", "r", "child", "left", "right"}          # input plans
SEL_VARS = {"cond", "on", "a", "b"}                              # conditions / boolean operands


class P:
    """recursive-descent parser of the arithmetic sub-language of analyze_rows"""

    def __init__(self, text):
        self.toks = re.findall(r"f32::MAX|[A-Za-z_][A-Za-z_0-9]*|\d+(?:\.\d+)?(?:_?f32)?|\S", text)
        self.i = 0
        self.params = {}       # lean name -> kind ("rows" | "sel" | "nat" | "lim" | "stat")

    def peek(self, k=0):
        return self.toks[self.i + k] if self.i + k < len(self.toks) else None

    def eat(self, t):
        if self.peek() != t:
            raise TranslateError("expected `%s`, found `%s` in `%s`" % (t, self.peek(), " ".join(self.toks)))
        self.i += 1

    def expr(self):
        e = self.term()
        while self.peek() in ("+", "-"):
            op = self.peek(); self.i += 1
            e = "(%s %s %s)" % (e, op, self.term())
        return e

    def term(self):
        e = self.factor()
        while self.peek() in ("*", "/"):
            op = self.peek(); self.i += 1
            e = "(%s %s %s)" % (e, op, self.factor())
        return e

    def factor(self):
        e = self.atom()
        while self.peek() == ".":
            m = self.peek(1)
            if m in ("min", "max"):
                self.i += 2; self.eat("(")
                a = self.expr(); self.eat(")")
                e = "(%s %s %s)" % (m, e, a)
            elif m == "powi":
                self.i += 2; self.eat("("); self.eat("list_len"); self.eat("(")
                v = self.peek(); self.i += 1
                self.eat(")"); self.eat("as"); self.eat("i32"); self.eat(")")
                self.params["n_" + v] = "nat"
                e = "(%s ^ n_%s)" % (e, v)
            else:
                raise TranslateError("method `.%s` is outside the translated sub-language" % m)
        return e

    def atom(self):
        t = self.peek()
        if t is None:
            raise TranslateError("unexpected end of expression")
        if t == "(":
            self.i += 1
            e = self.expr(); self.eat(")")
            return e
        if t == "f32::MAX":
            self.i += 1
            self.params["fmax"] = "fmax"
            return "fmax"
        m = re.fullmatch(r"(\d+)(?:\.(\d+))?(?:_?f32)?", t)
        if m:
            self.i += 1
            if m.group(2) and int(m.group(2)) != 0:
                num = int(m.group(1) + m.group(2)); den = 10 ** len(m.group(2))
                return "((%d : Rat) / %d)" % (num, den)
            return "(%s : Rat)" % m.group(1)
        if t == "x":
            self.i += 1; self.eat("(")
            v = self.peek(); self.i += 1
            self.eat(")")
            return "v_" + v          # kind decided per arm
        if t == "get_limit_num":
            self.i += 1; self.eat("(")
            v = self.peek(); self.i += 1
            self.eat(")")
            self.params["lim_" + v] = "lim"
            return "lim_" + v
        if t == "v" and self.toks[self.i:self.i + 7] == ["v", ".", "len", "(", ")", "as", "f32"]:
            self.i += 7
            self.params["n_v"] = "nat"
            return "(n_v : Rat)"
        raise TranslateError("`%s` is outside the translated sub-language (in `%s`)" % (t, " ".join(self.toks)))


def parse_expr(text):
    p = P(text)
    e = p.expr()
    if p.peek() is not None:
        raise TranslateError("trailing `%s` in `%s`" % (p.peek(), text.strip()))
    return e, p.params


def match_brace(s, i):
    depth = 0
    for k in range(i, len(s)):
        if s[k] in "{([":
            depth += 1
        elif s[k] in "})]":
            depth -= 1
            if depth == 0:
                return k
    raise TranslateError("unbalanced braces")


def split_arms(body):
    """[(pattern, arm text)] of a match body (the text between its braces)"""
    arms, i, n = [], 0, len(body)
    while i < n:
        while i < n and body[i] in " \n\t,":
            i += 1
        if i >= n:
            break
        j = body.index("=>", i)
        pat = body[i:j].strip()
        k = j + 2
        while body[k] in " \n\t":
            k += 1
        if body[k] == "{":
            e = match_brace(body, k)
            arms.append((pat, body[k:e + 1]))
            i = e + 1
        else:
            depth, e = 0, k
            while e < n and not (body[e] == "," and depth == 0):
                if body[e] in "{([":
                    depth += 1
                elif body[e] in "})]":
                    depth -= 1
                e += 1
            arms.append((pat, body[k:e]))
            i = e + 1
    return arms


def drop_closures(text):
    """remove `let name = |..| { .. };` statements (helpers whose value is a bool, not an estimate)"""
    out = text
    while True:
        m = re.search(r"let\s+[a-z_]+\s*=\s*\|[^|]*\|\s*\{", out)
        if not m:
            return out
        e = match_brace(out, m.end() - 1)
        semi = out.index(";", e)
        out = out[:m.start()] + out[semi + 1:]


SCAN_BLOCK = re.compile(r"\{\s*let table_id = egraph\[\*tid\]\.nodes\[0\]\.as_table\(\);\s*egraph\s*\.analysis\s*\.stat\s*\.get_row_count\(table_id\)\s*\.unwrap_or\(DEFAULT_ROW_COUNT\) as f32\s*\}")


def cases_of(arm_text):
    """result expressions of an arm: [(case label, lean expr, params)]"""
    t = arm_text.strip()
    if SCAN_BLOCK.fullmatch(t):
        return [("stat", "(n_stat : Rat)", {"n_stat": "nat"})]
    try:
        e, ps = parse_expr(t)
        return [("", e, ps)]
    except TranslateError:
        pass
    if t.startswith("{") and match_brace(t, 0) == len(t) - 1:
        try:
            e, ps = parse_expr(t[1:-1])
            return [("", e, ps)]
        except TranslateError:
            pass
    t = drop_closures(t)
    cands = []
    # nested match on the join type
    m = re.fullmatch(r"match egraph\[\*t\]\.nodes\[0\] \{(.*)\}", t, re.S)
    if m:
        for pat, sub in split_arms(m.group(1)):
            for lab, e, ps in cases_of(sub):
                cands.append((("other" if pat.strip() == "_" else re.sub(r"\W+", "", pat)) + lab, e, ps))
        return cands
    if t.startswith("{"):
        inner = t[1:match_brace(t, 0)].strip()
        # `if let Semi | Anti = .. { return X; }` followed by an if / else-if / else chain
        m = re.match(r"if let ([A-Za-z| ]+) = egraph\[\*t\]\.nodes\[0\] \{\s*return (.*?);\s*\}", inner, re.S)
        rest = inner
        if m:
            e, ps = parse_expr(m.group(2))
            cands.append((re.sub(r"\W+", "", m.group(1)), e, ps))
            rest = inner[m.end():].strip()
        k = 0
        while rest:
            m2 = re.match(r"(?:else\s+)?if ([a-z_]+\([a-z_]+\)) \{", rest)
            m3 = re.match(r"else \{", rest)
            if m2 or m3:
                mm = m2 or m3
                e_end = match_brace(rest, mm.end() - 1)
                e, ps = parse_expr(rest[mm.end():e_end])
                cands.append(("if%d" % k, e, ps))
                k += 1
                rest = rest[e_end + 1:].strip()
            else:
                e, ps = parse_expr(rest)
                cands.append(("tail", e, ps))
                rest = ""
        if cands:
            return cands
    raise TranslateError("arm `%s…` is not of a shape the translator reads" % t[:80])



def tree_file(tree):
    """Gen/RowsTree.lean: the estimates as a pair of mutually inductive term types (plans / selectivities, so that
    the roles of the operands are types), the estimate of a term, and the induction that lifts the arm statements to
    EVERY term: `est_inv_of_arms`, which takes the arm statements as hypotheses (proved in Thm/C17Rows.lean)."""
    def is_p(t, v):
        return v in ROWS_VARS or (t["in_arm"] and v == "b")
    cons = {True: [], False: []}
    ests = {True: [], False: []}
    invs = {True: [], False: []}
    for t in tree:
        ctor = t["name"][len("rows_"):]
        fields, args, hyps = [], [], []
        for v in t["vars"]:
            ty = "PNode" if is_p(t, v) else "SNode"
            fields.append("(%s : %s)" % (v, ty)); args.append("%s.est" % v)
            if is_p(t, v):
                hyps.append("(PNode.inv %s)" % v)
            else:
                hyps.append("(SNode.inv %s).1" % v); hyps.append("(SNode.inv %s).2" % v)
        for pn, kind in t["params"]:
            if kind == "nat":
                fields.append("(%s : Nat)" % pn); args.append(pn)
            else:
                fields.append("(%s : Rat) (h_%s : 0 ≤ %s)" % (pn, pn, pn)); args.append(pn); hyps.append("h_%s" % pn)
        pats = " ".join(f for fl in fields for f in re.findall(r"\((\w+) :", fl))
        cons[t["plan"]].append("  | %s %s" % (ctor, " ".join(fields)))
        ests[t["plan"]].append("  | .%s %s => %s %s" % (ctor, pats, t["name"], " ".join(args)))
        call = "a_%s %s %s" % (t["name"], " ".join(args) if args else "()", " ".join(hyps))
        invs[t["plan"]].append("  | .%s %s => %s" % (ctor, pats, call.strip()))
    hy = " ".join("(a_%s : stmt_%s)" % (t["name"], t["name"]) for t in tree)
    out = ["import RlModel.Gen.RowsArms",
           "/-! GENERATED by translator/gen_rows.py from src/planner/rules/rows.rs — do not edit.",
           "Every value `analyze_rows` can compute, as a term: `PNode` = plans, `SNode` = everything else. -/",
           "namespace RlModel.Rows", "", "mutual", "inductive PNode where"] + cons[True] + ["inductive SNode where"] + cons[False] + ["end", "",
           "mutual", "def PNode.est : PNode → Rat"] + ests[True] + ["def SNode.est : SNode → Rat"] + ests[False] + ["end", "",
           "section", "variable " + hy, "include " + " ".join("a_" + t["name"] for t in tree), "", "mutual",
           "/-- a plan's estimate is never negative (given the arm statements) -/",
           "theorem PNode.inv : (p : PNode) → 0 ≤ p.est"] + invs[True] + [
           "/-- a selectivity is within [0, 1] (given the arm statements) -/",
           "theorem SNode.inv : (s : SNode) → 0 ≤ s.est ∧ s.est ≤ 1"] + invs[False] + ["end", "end", "",
           "/-- **The arm statements lift to every term**: no estimate of a plan is negative, every selectivity is within [0, 1]. -/",
           "theorem est_inv_of_arms " + hy + " :",
           "    (∀ p : PNode, 0 ≤ p.est) ∧ (∀ s : SNode, 0 ≤ s.est ∧ s.est ≤ 1) :=",
           "  ⟨PNode.inv " + " ".join("a_" + t["name"] for t in tree) + ", SNode.inv " + " ".join("a_" + t["name"] for t in tree) + "⟩",
           "", "end RlModel.Rows", ""]
    return "\n".join(out)


def main():
    repo = sys.argv[1] if len(sys.argv) > 1 else os.environ.get("VERIF_REPO", "/repo")
    outdir = sys.argv[2] if len(sys.argv) > 2 else os.path.join(VERIF, "lean/RlModel/Gen")
    try:
        src = strip_comments(open(os.path.join(repo, "src/planner/rules/rows.rs")).read())
        body = fn_body(src, "analyze_rows")
        m = re.search(r"(let rows = )?match enode \{", body)
        if not m:
            raise TranslateError("no `match enode` in analyze_rows")
        e = match_brace(body, m.end() - 1)
        arms = split_arms(body[m.end():e])
        tail = body[e + 1:].strip().lstrip(";").strip()
        clamp = None
        if m.group(1):
            clamp, cps = parse_expr(tail.replace("rows", "x(rows)"))
        elif tail:
            raise TranslateError("unexpected text after the match: `%s`" % tail[:60])
        defs, stmts, names, tree = [], [], [], []
        for pat, text in arms:
            heads = re.findall(r"\b([A-Z][A-Za-z0-9_]*)\b", re.sub(r"\(DataValue::Bool\((true|false)\)\)", r"_\1", pat))
            label = "_".join(heads) if heads else ("default" if pat.strip() == "_" else None)
            if label is None:
                raise TranslateError("pattern `%s` not understood" % pat)
            heads_base = [h.split("_")[0] for h in heads]
            is_plan = bool(heads) and all(h in PLAN_ARMS for h in heads_base)
            if heads and any(h in PLAN_ARMS for h in heads_base) and not is_plan:
                raise TranslateError("pattern `%s` mixes plan and expression nodes" % pat)
            in_arm = heads == ["In"]
            for lab, expr, ps in cases_of(text):
                name = "rows_%s%s" % (label, ("_" + lab) if lab else "")
                vars_ = sorted(set(re.findall(r"\bv_([a-z_]+)\b", expr)))
                binders, hyps = [], []
                for v in vars_:
                    binders.append("(v_%s : Rat)" % v)
                    if v in ROWS_VARS or (in_arm and v == "b") or v == "rows":
                        hyps.append("0 ≤ v_%s" % v)
                    elif v in SEL_VARS:
                        hyps.append("0 ≤ v_%s" % v); hyps.append("v_%s ≤ 1" % v)
                    else:
                        raise TranslateError("operand `%s` of arm %s has no known role" % (v, label))
                for pn, kind in sorted(ps.items()):
                    if kind == "nat":
                        binders.append("(%s : Nat)" % pn)
                    elif kind == "lim":
                        binders.append("(%s : Rat)" % pn); hyps.append("0 ≤ %s" % pn)
                    elif kind == "fmax":
                        binders.append("(fmax : Rat)"); hyps.append("1 ≤ fmax")
                args = " ".join(b.split()[0][1:] for b in binders)
                tree.append({"name": name, "plan": is_plan, "vars": vars_, "in_arm": in_arm,
                             "params": sorted((pn, kind) for pn, kind in ps.items() if kind in ("nat", "lim"))})
                defs.append("def %s %s : Rat :=\n  %s" % (name, " ".join(binders), expr))
                goal = ("0 ≤ %s %s" % (name, args)) if is_plan else ("0 ≤ %s %s ∧ %s %s ≤ 1" % (name, args, name, args))
                stmts.append("/-- arm `%s`%s of analyze_rows -/\ndef stmt_%s : Prop :=\n  ∀ %s, %s%s" % (
                    " ".join(pat.split())[:90], (" (" + lab + ")") if lab else "", name, " ".join(binders) if binders else "(_ : Unit)",
                    "".join(h + " → " for h in hyps), goal.strip()))
                names.append(name)
        if clamp:
            defs.append("def rows_clamp (v_rows : Rat) (fmax : Rat) : Rat :=\n  %s" % clamp)
            stmts.append("/-- the final clamp keeps both bounds (and makes every estimate finite) -/\ndef stmt_rows_clamp : Prop :=\n"
                         "  ∀ (v_rows fmax : Rat), 1 ≤ fmax → (0 ≤ v_rows → 0 ≤ rows_clamp v_rows fmax) ∧ (0 ≤ v_rows → v_rows ≤ 1 → rows_clamp v_rows fmax ≤ 1) ∧ rows_clamp v_rows fmax ≤ fmax")
            names.append("rows_clamp")
        if len(names) < 20:
            raise TranslateError("only %d cases read from analyze_rows" % len(names))
    except (TranslateError, ValueError) as ex:
        print("TRANSLATE-ERROR rows: %s" % ex)
        sys.exit(2)
    out = ["/-! GENERATED by translator/gen_rows.py from src/planner/rules/rows.rs (`analyze_rows`) — do not edit. -/",
           "namespace RlModel.Rows", ""] + [d + "\n" for d in defs] + [s + "\n" for s in stmts]
    out += ["/-- the generated statements, by name (the check requires a theorem `<name>_inv : stmt_<name>` for each) -/",
            "def armNames : List String := [%s]" % ", ".join('"%s"' % n for n in names), "", "end RlModel.Rows", ""]
    os.makedirs(outdir, exist_ok=True)
    _write_if_changed(os.path.join(outdir, "RowsArms.lean"), "\n".join(out))
    _write_if_changed(os.path.join(outdir, "RowsTree.lean"), tree_file(tree))
    import json
    json.dump({"arms": names, "clamped": bool(clamp)}, open(os.path.join(outdir, "rows_arms.json"), "w"))
    print("gen_rows: %d cases of %d arms%s -> %s" % (len(names), len(arms), ", clamped" if clamp else "", os.path.join(outdir, "RowsArms.lean")))


if __name__ == "__main__":
    main()
