#!/usr/bin/env python3
"""translator/gen_cost.py [repo] [outdir]

Regenerates lean/RlModel/Gen/CostArms.lean from `src/planner/cost.rs CostFn::cost`: one Lean definition
over `Rat` per arm (per case of the hash-join arm) and one statement `stmt_cost_<Arm>`:
**the cost of a node is `>= 0`**, given that the row estimates (`rows(..)`), column counts (`cols(..)`)
and the costs of the children (`costs(..)`) are `>= 0` — together with C17's row-estimate statements
(Gen/RowsArms.lean) no plan cost is negative or NaN, which is what egg's extractor needs to compare
plans and to reach its fixpoint.

`(E + 1.0).log2()` is not rational: each occurrence becomes a fresh variable `lg_k >= 0`, and a side
statement `stmt_cost_<Arm>_lgarg_k : 0 <= E` (the argument of the logarithm is `>= 1`) is generated for it.
The closures `build`, `hash`, `nlogn` are read from the source and inlined.

Strict: an arm or an expression it cannot read is a TRANSLATE-ERROR (exit 2)."""
import json, os, re, sys

VERIF = os.path.dirname(os.path.dirname(os.path.abspath(__file__)))
sys.path.insert(0, os.path.dirname(os.path.abspath(__file__)))
from gen_schema import TranslateError, strip_comments, _write_if_changed  # noqa: E402
from gen_builder import fn_body  # noqa: E402
from gen_rows import match_brace, split_arms  # noqa: E402


class P:
    def __init__(self, text, closures, env=None):
        self.toks = re.findall(r"f32::MAX|[A-Za-z_][A-Za-z_0-9]*|\d+(?:\.\d+)?(?:_?f32)?|\S", text)
        self.i = 0
        self.closures = closures      # name -> (param or None, body text)
        self.env = env or {}          # local variable -> lean expr
        self.vars = {}                # lean var -> kind
        self.lgargs = []              # lean exprs E of (E + 1).log2()

    def peek(self, k=0):
        return self.toks[self.i + k] if self.i + k < len(self.toks) else None

    def eat(self, t):
        if self.peek() != t:
            raise TranslateError("expected `%s`, found `%s` in `%s`" % (t, self.peek(), " ".join(self.toks)[:120]))
        self.i += 1

    def expr(self):
        e = self.term()
        while self.peek() in ("+", "-"):
            op = self.peek(); self.i += 1
            if op == "-":
                raise TranslateError("subtraction in a cost expression: not in the translated sub-language (a cost could go negative)")
            e = "(%s + %s)" % (e, self.term())
        return e

    def term(self):
        e = self.factor()
        while self.peek() in ("*", "/"):
            op = self.peek(); self.i += 1
            if op == "/":
                raise TranslateError("division in a cost expression: not in the translated sub-language")
            e = "(%s * %s)" % (e, self.factor())
        return e

    def factor(self):
        e = self.atom()
        while self.peek() == ".":
            m = self.peek(1)
            if m == "log2":
                self.i += 2; self.eat("("); self.eat(")")
                mm = re.fullmatch(r"\((.*) \+ \(1 : Rat\)\)", e)
                if not mm:
                    raise TranslateError("log2 of something that is not `E + 1.0`: %s" % e)
                self.lgargs.append(mm.group(1))
                e = "lg_%d" % (len(self.lgargs) - 1)
            elif m in ("min", "max"):
                self.i += 2; self.eat("(")
                a = self.expr(); self.eat(")")
                e = "(%s %s %s)" % (m, e, a)
            else:
                raise TranslateError("method `.%s` is outside the translated sub-language" % m)
        return e

    def call_arg_ident(self):
        self.eat("(")
        if self.peek() == "&":
            self.i += 1
        v = self.peek(); self.i += 1
        self.eat(")")
        return v

    def atom(self):
        t = self.peek()
        if t is None:
            raise TranslateError("unexpected end of expression")
        if t == "(":
            self.i += 1
            e = self.expr(); self.eat(")")
            return e
        if t == "f32::MAX":
            self.i += 1
            self.vars["fmax"] = "fmax"
            return "fmax"
        m = re.fullmatch(r"(\d+)(?:\.(\d+))?(?:_?f32)?", t)
        if m:
            self.i += 1
            if m.group(2) and int(m.group(2)) != 0:
                return "((%d : Rat) / %d)" % (int(m.group(1) + m.group(2)), 10 ** len(m.group(2)))
            return "(%s : Rat)" % m.group(1)
        if t in ("rows", "cols", "costs"):
            self.i += 1
            v = self.call_arg_ident()
            name = "%s_%s" % (t, v)
            self.vars[name] = "nonneg"
            return name
        if t in self.env:
            self.i += 1
            return self.env[t]
        if t in self.closures:
            self.i += 1
            param, body = self.closures[t]
            self.eat("(")
            env = {}
            if param is not None:
                env[param] = self.expr()
            self.eat(")")
            sub = P(body, self.closures, env)
            sub.lgargs = self.lgargs
            e = sub.expr()
            if sub.peek() is not None:
                raise TranslateError("closure `%s`: trailing `%s`" % (t, sub.peek()))
            self.vars.update(sub.vars)
            return e
        if t in self.env:
            self.i += 1
            return self.env[t]
        raise TranslateError("`%s` is outside the translated sub-language (in `%s`)" % (t, " ".join(self.toks)[:120]))


def parse(text, closures, env=None):
    p = P(text, closures, env)
    e = p.expr()
    if p.peek() is not None:
        raise TranslateError("trailing `%s` in `%s`" % (p.peek(), text.strip()[:100]))
    return e, p.vars, p.lgargs


def main():
    repo = sys.argv[1] if len(sys.argv) > 1 else os.environ.get("VERIF_REPO", "/repo")
    outdir = sys.argv[2] if len(sys.argv) > 2 else os.path.join(VERIF, "lean/RlModel/Gen")
    try:
        src = strip_comments(open(os.path.join(repo, "src/planner/cost.rs")).read())
        body = fn_body(src, "cost")
        closures = {}
        for m in re.finditer(r"let (build|hash|nlogn) = \|([^|]*)\|\s*(.*?);", body):
            pm = re.match(r"\s*([a-z_]+)\s*:", m.group(2))
            closures[m.group(1)] = (pm.group(1) if pm else None, m.group(3))
        if set(closures) != {"build", "hash", "nlogn"}:
            raise TranslateError("closures build / hash / nlogn not found (found %s)" % sorted(closures))
        m = re.search(r"let c = match enode \{", body)
        if not m:
            raise TranslateError("no `let c = match enode` in cost")
        e = match_brace(body, m.end() - 1)
        arms = split_arms(body[m.end():e])
        tail = body[e + 1:]
        clamped = bool(re.search(r"let c = c\.min\(f32::MAX\);", tail))
        defs, stmts, names = [], [], []
        for pat, text in arms:
            heads = re.findall(r"\b([A-Z][A-Za-z0-9]*)\b", pat)
            label = "_".join(heads) if heads else ("default" if pat.strip() == "_" else None)
            if label is None:
                raise TranslateError("pattern `%s` not understood" % pat)
            t = text.strip()
            cases = []
            mf = re.fullmatch(r"enode\.fold\((\d+\.\d+), \|sum, id\| sum \+ costs\(&id\)\)", t)
            mh = re.fullmatch(r"\{\s*let hash = match self\.egraph\[\*t\]\.nodes\[0\] \{(.*?)\};(.*)\}", t, re.S)
            if mf:
                ex, vs, lg = parse(mf.group(1) + " + costs(children)", closures)
                cases.append(("", ex, vs, lg))
            elif mh:
                for spat, sub in split_arms(mh.group(1)):
                    he, hv, hl = parse(sub, closures)
                    p2 = P(mh.group(2), closures, {"hash": he})
                    p2.lgargs = list(hl)
                    ex = p2.expr()
                    if p2.peek() is not None:
                        raise TranslateError("hash-join arm: trailing `%s`" % p2.peek())
                    vs = dict(hv); vs.update(p2.vars)
                    cases.append(("other" if spat.strip() == "_" else re.sub(r"\W+", "", spat), ex, vs, p2.lgargs))
            else:
                if t.startswith("{") and match_brace(t, 0) == len(t) - 1:
                    t = t[1:-1]
                ex, vs, lg = parse(t, closures)
                cases.append(("", ex, vs, lg))
            for lab, ex, vs, lg in cases:
                name = "cost_%s%s" % (label, ("_" + lab) if lab else "")
                allvars = sorted(set(vs) | {v for a in lg for v in re.findall(r"\b(?:rows|cols|costs)_[a-z_]+\b", a)})
                binders = ["(%s : Rat)" % v for v in allvars] + ["(lg_%d : Rat)" % k for k in range(len(lg))]
                hyps = ["0 ≤ %s" % v for v in allvars] + ["0 ≤ lg_%d" % k for k in range(len(lg))]
                args = " ".join(allvars + ["lg_%d" % k for k in range(len(lg))])
                defs.append("def %s %s : Rat :=\n  %s" % (name, " ".join(binders), ex))
                stmts.append("/-- arm `%s`%s of CostFn::cost -/\ndef stmt_%s : Prop :=\n  ∀ %s, %s0 ≤ %s %s" % (
                    " ".join(pat.split())[:90], (" (" + lab + ")") if lab else "", name, " ".join(binders) if binders else "(_ : Unit)",
                    "".join(h + " → " for h in hyps), name, args))
                names.append(name)
                for k, a in enumerate(lg):
                    avars = sorted(set(re.findall(r"\b(?:rows|cols|costs)_[a-z_]+\b", a)))
                    sname = "%s_lgarg_%d" % (name, k)
                    stmts.append("/-- the argument of the %d-th logarithm of `%s` is at least 1 -/\ndef stmt_%s : Prop :=\n  ∀ %s, %s0 ≤ %s" % (
                        k, name, sname, " ".join("(%s : Rat)" % v for v in avars) or "(_ : Unit)", "".join("0 ≤ %s → " % v for v in avars), a))
                    names.append(sname)
        if len(names) < 15:
            raise TranslateError("only %d statements read from CostFn::cost" % len(names))
    except (TranslateError, ValueError) as ex:
        print("TRANSLATE-ERROR cost: %s" % ex)
        sys.exit(2)
    out = ["/-! GENERATED by translator/gen_cost.py from src/planner/cost.rs (`CostFn::cost`) — do not edit. -/",
           "namespace RlModel.Cost", ""] + [d + "\n" for d in defs] + [s + "\n" for s in stmts]
    out += ["def armNames : List String := [%s]" % ", ".join('"%s"' % n for n in names), "", "end RlModel.Cost", ""]
    os.makedirs(outdir, exist_ok=True)
    _write_if_changed(os.path.join(outdir, "CostArms.lean"), "\n".join(out))
    json.dump({"arms": names, "clamped": clamped}, open(os.path.join(outdir, "cost_arms.json"), "w"))
    print("gen_cost: %d statements of %d arms%s -> %s" % (len(names), len(arms), ", clamped" if clamped else "", os.path.join(outdir, "CostArms.lean")))


if __name__ == "__main__":
    main()
