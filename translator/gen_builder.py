#!/usr/bin/env python3
"""translator/gen_builder.py [repo] [outdir]

Regenerates lean/RlModel/Gen/BuilderArms.lean from `src/executor/mod.rs`:

* `resolveObligations : Tm → List (List Tm × Tm)` — for every arm of `Builder::build_id_subscriber`
  (and the helpers `build_hashjoin`, `build_hashsemijoin`, `build_mergejoin`) which expression of
  the node is resolved against which input schema(s): every `self.resolve_column_index(e, c)` /
  `self.resolve_column_index2(e, l, r)` of the arm;
* `nlJoinTypes`, `hashJoinTypes`, `mergeJoinTypes` — the join types each join arm has an executor
  for (the alternatives before the `t => panic!("invalid join type…")` arm);
* `residualMustBeTrue` — which join builders assert a `true` residual condition.

Strict: an arm it cannot read, a resolve call on something that is not a pattern variable of the
arm, or a node kind outside the term language is a TRANSLATE-ERROR (exit 2).
"""
import os, re, sys

VERIF = os.path.dirname(os.path.dirname(os.path.abspath(__file__)))
sys.path.insert(0, os.path.dirname(os.path.abspath(__file__)))
from gen_schema import VARIANTS, TranslateError, strip_comments, _write_if_changed  # noqa: E402

JT = {"Inner": ".inner", "LeftOuter": ".leftOuter", "RightOuter": ".rightOuter", "FullOuter": ".fullOuter", "Semi": ".semi", "Anti": ".anti"}
# arms that have an executor but no expression resolved against a child (or are handled by hand in
# Model/PlanWf.lean `check`): listed so that a NEW arm is noticed
NO_OBLIGATION = {"Scan", "Values", "Limit", "Apply", "CreateTable", "CreateIndex", "CreateView", "CreateFunction", "Drop", "Insert", "Delete",
                 "CopyFrom", "CopyTo", "Explain", "Analyze", "Empty"}


def fn_body(src, name):
    m = re.search(r"\bfn\s+%s\s*[(<]" % re.escape(name), src)
    if not m:
        raise TranslateError("function %s not found" % name)
    j = src.index("{", m.start())
    depth, k = 0, j
    while True:
        if src[k] == "{":
            depth += 1
        elif src[k] == "}":
            depth -= 1
            if depth == 0:
                break
        k += 1
    return src[j + 1:k]


def resolves(body, vars_):
    out = []
    for m in re.finditer(r"self\.resolve_column_index(2?)\(\s*([a-z_0-9]+)\s*,\s*([a-z_0-9]+)\s*(?:,\s*([a-z_0-9]+)\s*)?\)", body):
        two, e, a, b = m.groups()
        for v in [e, a] + ([b] if two else []):
            if v not in vars_:
                raise TranslateError("resolve_column_index on `%s`, which is not a pattern variable of the arm (%s)" % (v, sorted(vars_)))
        out.append((e, [a, b] if two else [a]))
    return out


def accepted_types(body):
    """join types matched before the panicking default arm of `match self.node(op) { … }`"""
    m = re.search(r"match self\.node\(op\) \{(.*)\}", body, re.S)
    if not m:
        raise TranslateError("no `match self.node(op)` in a join arm")
    inner = m.group(1)
    if not re.search(r"\bt => panic!\(\"invalid join type", inner):
        raise TranslateError("join arm has no `t => panic!(\"invalid join type…\")` default")
    before = inner[:inner.index("t => panic!")]
    types = []
    for t in re.findall(r"\b(Inner|LeftOuter|RightOuter|FullOuter|Semi|Anti)\b\s*(?:\||=>)", before):
        if t not in types:
            types.append(t)
    return types, before


def main():
    repo = sys.argv[1] if len(sys.argv) > 1 else os.environ.get("VERIF_REPO", "/repo")
    outdir = sys.argv[2] if len(sys.argv) > 2 else os.path.join(VERIF, "lean/RlModel/Gen")
    try:
        src = strip_comments(open(os.path.join(repo, "src/executor/mod.rs")).read())
        body = fn_body(src, "build_id_subscriber")
        i = body.index("match self.node(id).clone() {")
        mbody = body[i:]
        # arms of the outer match: lines at the indentation of the first arm
        arm_re = re.compile(r"^( {12})([A-Z][A-Za-z]*)\((.*?)\) => ", re.M)
        starts = [(m.start(), m.group(2), m.group(3)) for m in arm_re.finditer(mbody)]
        if len(starts) < 20:
            raise TranslateError("only %d arms recognised in build_id_subscriber" % len(starts))
        lines, seen = [], []
        nl_types = hash_types = merge_types = None
        for k, (st, var, pat) in enumerate(starts):
            end = starts[k + 1][0] if k + 1 < len(starts) else len(mbody)
            arm = mbody[st:end]
            seen.append(var)
            if var in ("HashJoin", "MergeJoin"):
                types, before = accepted_types(arm)
                helpers = set(re.findall(r"self\.(build_[a-z]+)", before))
                if var == "HashJoin":
                    hash_types = types
                    if helpers != {"build_hashjoin", "build_hashsemijoin"}:
                        raise TranslateError("HashJoin arm calls %s" % sorted(helpers))
                else:
                    merge_types = types
                    if helpers != {"build_mergejoin"}:
                        raise TranslateError("MergeJoin arm calls %s" % sorted(helpers))
                continue
            if var == "Join":
                nl_types, _ = accepted_types(arm)
            m2 = re.fullmatch(r"\[(.*)\]", pat.strip())
            vars_ = [v.strip() for v in m2.group(1).split(",")] if m2 else []
            if var == "Scan":
                continue        # (the scan resolves its pushed filter against its own columns: by hand in Model/PlanWf.lean)
            rs0 = resolves(arm, set(vars_))
            rs = []
            for x in rs0:           # (an arm may build one of several executors, each resolving the same thing)
                if x not in rs:
                    rs.append(x)
            if not rs:
                if var not in NO_OBLIGATION:
                    raise TranslateError("arm %s resolves nothing and is not listed as such" % var)
                continue
            if var not in VARIANTS:
                raise TranslateError("arm %s resolves expressions but is not in the term language" % var)
            used = {e for e, _ in rs} | {x for _, ss in rs for x in ss}
            lp = "[%s]" % ", ".join("v_" + v if v in used else "_" for v in vars_)
            obl = ", ".join("(%s, v_%s)" % (" ++ ".join("schema v_%s" % s for s in ss), e) for e, ss in rs)
            lines.append("  | .node .%s %s => [%s]" % (VARIANTS[var][1], lp, obl))
        # helpers
        helper_obl, must_true = {}, []
        for fn in ("build_hashjoin", "build_hashsemijoin", "build_mergejoin"):
            b = fn_body(src, fn)
            md = re.search(r"let \[(.*?)\] = args;", b)
            if not md:
                raise TranslateError("%s: no destructuring of args" % fn)
            vs = [v.strip() for v in md.group(1).split(",")]
            rs = resolves(b, set(vs))
            uniq = []
            for e, ss in rs:
                if (e, ss) not in uniq:
                    uniq.append((e, ss))
            helper_obl[fn] = (vs, uniq)
            if re.search(r"assert_eq!\(self\.node\(cond\), &Expr::true_\(\)\)", b):
                must_true.append(fn)
        for need in ("Proj", "Filter", "Order", "TopN", "Join", "Agg", "HashAgg", "SortAgg", "Window"):
            if need not in seen:
                raise TranslateError("arm %s disappeared" % need)
        if None in (nl_types, hash_types, merge_types):
            raise TranslateError("a join arm was not found")
    except TranslateError as e:
        print("TRANSLATE-ERROR builder: %s" % e)
        sys.exit(2)

    def hdef(name, fn):
        vs, obl = helper_obl[fn]
        used = {e for e, _ in obl} | {x for _, ss in obl for x in ss}
        lp = "[%s]" % ", ".join("v_" + v if v in used else "_" for v in vs)
        o = ", ".join("(%s, v_%s)" % (" ++ ".join("schema v_%s" % s for s in ss), e) for e, ss in obl)
        return ["def %s : List Tm → List (List Tm × Tm)" % name, "  | %s => [%s]" % (lp, o), "  | _ => []", ""]

    out = ["import RlModel.Gen.Schema",
           "/-! GENERATED by translator/gen_builder.py from src/executor/mod.rs (`build_id_subscriber` and the join build helpers) — do not edit. -/",
           "namespace RlModel.Wf", "",
           "/-- Which expression of a node the builder resolves against which input schema(s)",
           "(`self.resolve_column_index(e, child)` / `resolve_column_index2(e, left, right)` per arm). -/",
           "def resolveObligations : Tm → List (List Tm × Tm)"] + lines + ["  | _ => []", ""]
    out += ["/-- … inside `build_hashjoin` (inner / outer hash joins). -/"] + hdef("hashJoinObligations", "build_hashjoin")
    out += ["/-- … inside `build_hashsemijoin` with a residual condition (`HashSemiJoinExecutor2`). -/"] + hdef("hashSemiJoinObligations", "build_hashsemijoin")
    out += ["/-- … inside `build_mergejoin`. -/"] + hdef("mergeJoinObligations", "build_mergejoin")
    out += ["/-- Join types the nested-loop / hash / merge join arms have an executor for. -/",
            "def nlJoinTypes : List JT := [%s]" % ", ".join(JT[t] for t in nl_types),
            "def hashJoinTypes : List JT := [%s]" % ", ".join(JT[t] for t in hash_types),
            "def mergeJoinTypes : List JT := [%s]" % ", ".join(JT[t] for t in merge_types), "",
            "/-- Builders that assert a `true` residual condition. -/",
            "def hashJoinResidualMustBeTrue : Bool := %s" % ("true" if "build_hashjoin" in must_true else "false"),
            "def mergeJoinResidualMustBeTrue : Bool := %s" % ("true" if "build_mergejoin" in must_true else "false"),
            "def hashSemiJoinResidualMustBeTrue : Bool := %s" % ("true" if "build_hashsemijoin" in must_true else "false"),
            "", "end RlModel.Wf", ""]
    os.makedirs(outdir, exist_ok=True)
    _write_if_changed(os.path.join(outdir, "BuilderArms.lean"), "\n".join(out))
    print("gen_builder: %d resolving arms, nl %s, hash %s, merge %s -> %s" % (len(lines), nl_types, hash_types, merge_types, os.path.join(outdir, "BuilderArms.lean")))


if __name__ == "__main__":
    main()
