#!/usr/bin/env python3
"""Translator T1 (DESIGN §2.3): re-extracts the egg rewrite rules from /repo's source text and
emits Lean definitions + a JSON side-car on every run.

Input : <repo>/src/planner/rules/{expr,plan,order,range}.rs, <repo>/src/planner/optimizer.rs
Output: lean/RlModel/Gen/Rules.lean   (deep syntax of every rule; XRule for expression rules)
        lean/RlModel/Gen/rules.json   (same information for the python side)

Strict: anything that looks like a rule and cannot be parsed is an error (exit 2 with the source
span), never a skipped item.
"""
import json
import os
import re
import sys

RULE_FILES = ["expr", "plan", "order", "range"]


class TranslateError(Exception):
    pass



def _write_if_changed(path, text):
    """atomic, and only when the content differs: concurrent checks regenerate the same files"""
    try:
        if open(path).read() == text:
            return
    except OSError:
        pass
    tmp = "%s.tmp%d" % (path, os.getpid())
    with open(tmp, "w") as f:
        f.write(text)
    os.replace(tmp, path)


def strip_comments(src):
    """Remove // comments (outside string literals), keep newlines so line numbers survive."""
    out, i, n, in_str = [], 0, len(src), False
    while i < n:
        c = src[i]
        if in_str:
            out.append(c)
            if c == "\\" and i + 1 < n:
                out.append(src[i + 1]); i += 2; continue
            if c == '"':
                in_str = False
            i += 1
        elif c == '"':
            in_str = True; out.append(c); i += 1
        elif src.startswith("//", i):
            while i < n and src[i] != "\n":
                i += 1
        else:
            out.append(c); i += 1
    return "".join(out)


def find_call(src, start):
    """src[start] is '(' ; returns index just after the matching ')', string aware."""
    depth, i, n, in_str = 0, start, len(src), False
    while i < n:
        c = src[i]
        if in_str:
            if c == "\\":
                i += 2; continue
            if c == '"':
                in_str = False
        elif c == '"':
            in_str = True
        elif c in "([{":
            depth += 1
        elif c in ")]}":
            depth -= 1
            if depth == 0:
                return i + 1
        i += 1
    raise TranslateError("unbalanced call starting at offset %d" % start)


def parse_sexp(text, where):
    """S-expression -> nested python lists / str atoms.  Tolerates the unbalanced extra ')' the
    source has in one rule exactly like egg's parser does NOT -- egg requires balance, but the
    `symbolic_expressions` parser egg uses stops after the first complete expression, so
    trailing input is ignored; we do the same and record it."""
    toks = re.findall(r"\(|\)|[^\s()]+", text)
    pos = 0

    def rd():
        nonlocal pos
        if pos >= len(toks):
            raise TranslateError("%s: unexpected end of pattern %r" % (where, text))
        t = toks[pos]; pos += 1
        if t == "(":
            lst = []
            while True:
                if pos >= len(toks):
                    raise TranslateError("%s: unclosed ( in %r" % (where, text))
                if toks[pos] == ")":
                    pos += 1
                    return lst
                lst.append(rd())
        if t == ")":
            raise TranslateError("%s: unexpected ) in %r" % (where, text))
        return t
    r = rd()
    trailing = toks[pos:]
    if any(t != ")" for t in trailing):
        raise TranslateError("%s: trailing tokens %r in %r" % (where, trailing, text))
    return r, len(trailing)


STR = r'"((?:[^"\\]|\\.)*)"'


def unescape(s):
    return s.replace("\\n", "\n").replace('\\"', '"').replace("\\\\", "\\")


def parse_rw(body, where):
    """body = text inside rw!( ... )"""
    m = re.match(r"\s*" + STR + r"\s*;\s*", body, re.S)
    if not m:
        raise TranslateError("%s: cannot parse rule name in %r" % (where, body[:80]))
    name = m.group(1)
    rest = body[m.end():]
    m = re.match(STR + r"\s*=>\s*", rest, re.S)
    if not m:
        raise TranslateError("%s: cannot parse lhs of %s" % (where, name))
    lhs = " ".join(unescape(m.group(1)).split())
    rest = rest[m.end():]
    applier = None
    m = re.match(STR, rest, re.S)
    if m:
        rhs = " ".join(unescape(m.group(1)).split())
        rest = rest[m.end():]
    else:
        m = re.match(r"\{\s*([A-Za-z_0-9]+)\s*\(\s*" + STR + r"\s*\)\s*\}", rest, re.S)
        if not m:
            raise TranslateError("%s: cannot parse rhs of %s: %r" % (where, name, rest[:80]))
        applier = m.group(1)
        rhs = " ".join(unescape(m.group(2)).split())
        rest = rest[m.end():]
    conds = []
    while True:
        rest = rest.lstrip()
        if not rest or rest == ",":
            break
        m = re.match(r"if\s+([A-Za-z_0-9]+)\s*\(([^)]*)\)\s*", rest, re.S)
        if not m:
            raise TranslateError("%s: cannot parse condition of %s: %r" % (where, name, rest[:80]))
        args = []
        for a in [x.strip() for x in m.group(2).split(",") if x.strip()]:
            ms = re.fullmatch(STR, a, re.S)
            if ms:
                args.append(unescape(ms.group(1)))
            elif re.fullmatch(r"[A-Z][A-Z_0-9]*", a):
                args.append("const:" + a)     # a named constant of the rule file (resolved below)
            else:
                raise TranslateError("%s: cannot parse condition argument %r of %s" % (where, a, name))
        conds.append({"fn": m.group(1), "args": args})
        rest = rest[m.end():]
    return {"name": name, "lhs": lhs, "rhs": rhs, "applier": applier, "conds": conds}


def extract_rules(repo):
    rules, lists = [], {}
    for base in RULE_FILES:
        path = os.path.join(repo, "src/planner/rules/%s.rs" % base)
        raw = open(path).read()
        # cut the test module off: rules defined there are not optimizer rules
        cut = raw.find("#[cfg(test)]")
        src = strip_comments(raw if cut < 0 else raw[:cut])
        # function spans
        fns = [(m.start(), m.group(1)) for m in re.finditer(r"\bfn\s+([A-Za-z_0-9]+)\s*\(\s*\)\s*->\s*Vec<Rewrite>", src)]
        def fn_at(off):
            cur = None
            for s, nm in fns:
                if s <= off:
                    cur = nm
            return cur
        # composite lists: rules.extend(cancel_rules()) etc.
        for s, nm in fns:
            end = min([x for x, _ in fns if x > s] + [len(src)])
            bodytxt = src[s:end]
            subs = re.findall(r"rules\.(?:extend|append)\(\s*(?:&mut\s+)?([A-Za-z_0-9:]+)\(\)\s*\)", bodytxt)
            if subs:
                lists.setdefault("%s::%s" % (base, nm), {"rules": [], "includes": []})["includes"] += [
                    (x if "::" in x else "%s::%s" % (base, x)) for x in subs]
        for m in re.finditer(r"\brw!\s*\(", src):
            st = m.end() - 1
            en = find_call(src, st)
            line = src.count("\n", 0, m.start()) + 1
            where = "%s.rs:%d" % (base, line)
            r = parse_rw(src[st + 1:en - 1], where)
            for c in r["conds"]:
                for i, a in enumerate(c["args"]):
                    if a.startswith("const:"):
                        mc = re.search(r"\bconst\s+%s\s*:\s*&\[Expr\]\s*=\s*&\[([^\]]*)\]\s*;" % re.escape(a[6:]), src)
                        if not mc:
                            raise TranslateError("%s: constant %s is not a `&[Expr]` literal" % (where, a[6:]))
                        vs = [v.strip() for v in mc.group(1).split(",") if v.strip()]
                        for v in vs:
                            if not re.fullmatch(r"Expr::[A-Za-z]+", v):
                                raise TranslateError("%s: constant %s: element %r" % (where, a[6:], v))
                        c["args"][i] = "exprs:" + ",".join(v[6:] for v in vs)
            r.update({"file": base, "line": line, "list": "%s::%s" % (base, fn_at(m.start()))})
            rules.append(r)
        for m in re.finditer(r"(?<![A-Za-z_0-9])pushdown\s*\(", src):
            st = m.end() - 1
            pre = src[max(0, m.start() - 3):m.start()]
            if pre.strip().endswith("fn"):
                continue
            en = find_call(src, st)
            args = [unescape(a) for a in re.findall(STR, src[st:en])]
            line = src.count("\n", 0, m.start()) + 1
            if len(args) != 4:
                raise TranslateError("%s.rs:%d: pushdown(..) with %d string args" % (base, line, len(args)))
            a, aa, b, ba = args
            r = {"name": "pushdown-%s-%s" % (a, b), "lhs": "(%s %s (%s %s ?child))" % (a, aa, b, ba),
                 "rhs": "(%s %s (%s %s ?child))" % (b, ba, a, aa), "applier": None, "conds": [],
                 "file": base, "line": line, "list": "%s::%s" % (base, fn_at(m.start()))}
            rules.append(r)
        # sanity: the number of `rw!(` + pushdown calls we saw equals what we parsed (strictness)
    for r in rules:
        lists.setdefault(r["list"], {"rules": [], "includes": []})["rules"].append(r["name"])
        where = "%s.rs:%d" % (r["file"], r["line"])
        r["lhs_ast"], r["lhs_extra_parens"] = parse_sexp(r["lhs"], where)
        rhs_txt = r["rhs"].replace("[", "").replace("]", "") if r["applier"] == "apply_proj" else r["rhs"]
        r["rhs_ast"], r["rhs_extra_parens"] = parse_sexp(rhs_txt, where)
    # the atom <-> Rust variant pairing of the join types, as planner/mod.rs defines it
    modsrc = strip_comments(open(os.path.join(repo, "src/planner/mod.rs")).read())
    for var, atom in JT_VARIANTS.items():
        if not re.search(r'"%s"\s*=\s*%s\s*,' % (re.escape(atom), var), modsrc):
            raise TranslateError("planner/mod.rs: join type atom %s is no longer the node %s" % (atom, var))
    # `ApplyType` (Model/PlanSem.lean): an apply node is only ever built with the join types
    # inner / left_outer / semi / anti — by the binder ...
    import glob
    for path in sorted(glob.glob(os.path.join(repo, "src/binder/*.rs"))):
        bsrc = strip_comments(open(path).read())
        for m in re.finditer(r"Node::Apply\(\[\s*([A-Za-z_0-9]+)\s*,", bsrc):
            nm = m.group(1)
            d = re.search(r"let\s+%s\s*=\s*self\.egraph\.add\(Node::([A-Za-z]+)\)" % re.escape(nm), bsrc)
            if not d or JT_VARIANTS.get(d.group(1)) not in ("inner", "left_outer", "semi", "anti"):
                raise TranslateError("%s: an apply node is built with join type `%s` (%s): outside ApplyType" % (
                    os.path.basename(path), nm, d.group(1) if d else "unknown"))
    # ... and by the rules themselves: on a right-hand side the type of an apply is one of those
    # atoms, or the variable type of an apply of the left-hand side
    def apply_types(ast, acc):
        if isinstance(ast, list):
            if ast and ast[0] == "apply" and len(ast) == 4:
                acc.append(ast[1])
            for a in ast[1:]:
                apply_types(a, acc)
        return acc
    for r in rules:
        lt = apply_types(r["lhs_ast"], [])
        for t in apply_types(r["rhs_ast"], []):
            if not ((isinstance(t, str) and t in ("inner", "left_outer", "semi", "anti")) or t in lt):
                raise TranslateError("%s.rs:%d: rule %s builds an apply of type %s: outside ApplyType" % (r["file"], r["line"], r["name"], t))
    # stages
    opt = strip_comments(open(os.path.join(repo, "src/planner/optimizer.rs")).read())
    stages = {}
    for m in re.finditer(r"static\s+(STAGE\d+_RULES)\b", opt):
        end = opt.find("});", m.end())
        body = opt[m.end():end]
        stages[m.group(1)] = [x.replace("rules::", "") for x in re.findall(r"rules\.append\(&mut\s+([A-Za-z_0-9:]+)\(\)\)", body)]
    if sorted(stages) != ["STAGE1_RULES", "STAGE2_RULES", "STAGE3_RULES"]:
        raise TranslateError("optimizer.rs: expected STAGE1..3_RULES, found %s" % sorted(stages))
    extra = re.findall(r"extra_rules\.append\(&mut\s+rules::([A-Za-z_0-9:]+)\(\)\)", opt)
    stage_calls = re.findall(r"optimize_stage\(&mut expr, &mut cost,\s*([^,]+),\s*(\d+),\s*(\d+)\)", opt)
    return rules, lists, stages, extra, stage_calls


# ----- expression rules -> typed Lean terms -------------------------------------------------
#
# Sort inference (DESIGN Appendix A): every pattern node gets a type variable; operators
# constrain them; variables left free are instantiated at every sort N (integer), B (boolean),
# S (string).  One statement per rule and instantiation.

XCONDS = {"is_not_zero": "notZero", "is_greater_than_or_equal": "condGe", "is_greater_than": "condGt",
          "is_less_than_or_equal": "condLe", "is_less_than": "condLt"}
ARITH = {"+": "nAdd", "-": "nSub", "*": "nMul", "/": "nDiv", "%": "nMod"}
CMP = {"=": "eqO", "<>": "neO", ">": "gtO", "<": "ltO", ">=": "geO", "<=": "leO"}
LEAN_TY = {"N": "Option Int", "B": "Option Bool", "S": "Option String"}


class NotX(Exception):
    pass


class Sorts:
    def __init__(self):
        self.parent = {}
        self.const = {}

    def fresh(self, key):
        self.parent.setdefault(key, key)
        return key

    def find(self, a):
        while self.parent[a] != a:
            self.parent[a] = self.parent[self.parent[a]]
            a = self.parent[a]
        return a

    def set(self, a, c):
        r = self.find(a)
        if self.const.get(r, c) != c:
            raise NotX("sort conflict %s vs %s" % (self.const[r], c))
        self.const[r] = c

    def union(self, a, b):
        ra, rb = self.find(a), self.find(b)
        if ra == rb:
            return
        ca, cb = self.const.get(ra), self.const.get(rb)
        if ca and cb and ca != cb:
            raise NotX("sort conflict %s vs %s" % (ca, cb))
        self.parent[ra] = rb
        if ca:
            self.const[rb] = ca

    def get(self, a):
        return self.const.get(self.find(a))


def infer(ast, st, path, vars_):
    """returns the type-variable key of `ast`; records constraints in st."""
    me = st.fresh(path)
    if isinstance(ast, str):
        if ast.startswith("?"):
            if ast not in vars_:
                vars_.append(ast)
            st.fresh("var:" + ast)
            st.union(me, "var:" + ast)
        elif re.fullmatch(r"-?\d+", ast):
            st.set(me, "N")
        elif ast in ("true", "false"):
            st.set(me, "B")
        elif ast == "null":
            pass
        else:
            raise NotX("atom %s" % ast)
        return me
    if not ast or not isinstance(ast[0], str):
        raise NotX("form")
    h, args = ast[0], ast[1:]
    ks = [infer(a, st, path + "." + str(i), vars_) for i, a in enumerate(args)]
    if h == "if" and len(args) == 3:
        st.set(ks[0], "B"); st.union(ks[1], ks[2]); st.union(me, ks[1])
    elif len(args) == 2 and h in ARITH:
        st.set(ks[0], "N"); st.set(ks[1], "N"); st.set(me, "N")
    elif len(args) == 1 and h == "-":
        st.set(ks[0], "N"); st.set(me, "N")
    elif len(args) == 2 and h in CMP:
        st.union(ks[0], ks[1]); st.set(me, "B")
    elif len(args) == 2 and h in ("and", "or"):
        st.set(ks[0], "B"); st.set(ks[1], "B"); st.set(me, "B")
    elif len(args) == 1 and h == "not":
        st.set(ks[0], "B"); st.set(me, "B")
    elif len(args) == 1 and h == "isnull":
        st.set(me, "B")
    else:
        raise NotX("operator %s/%d" % (h, len(args)))
    return me


def emit(ast, st, path, assign):
    """typed Lean term for `ast` under the instantiation `assign` (root tv -> sort)."""
    def sort_of(p):
        r = st.find(p)
        return st.const.get(r) or assign[r]
    if isinstance(ast, str):
        if ast.startswith("?"):
            return "v_" + ast[1:]
        so = sort_of(path)
        if re.fullmatch(r"-?\d+", ast):
            return "(some (%s) : Option Int)" % ast
        if ast in ("true", "false"):
            return "(some %s : Option Bool)" % ast
        if ast == "null":
            return "(none : %s)" % LEAN_TY[so]
    h, args = ast[0], ast[1:]
    xs = [emit(a, st, path + "." + str(i), assign) for i, a in enumerate(args)]
    if h == "if":
        return "(ite3 %s %s %s)" % tuple(xs)
    if len(args) == 2 and h in ARITH:
        return "(%s %s %s)" % (ARITH[h], xs[0], xs[1])
    if len(args) == 1 and h == "-":
        return "(nNeg %s)" % xs[0]
    if h in CMP:
        return "(%s %s %s)" % (CMP[h], xs[0], xs[1])
    if h in ("and", "or"):
        return "(%s3 %s %s)" % (h, xs[0], xs[1])
    if h == "not":
        return "(not3 %s)" % xs[0]
    if h == "isnull":
        return "(isNull3 %s)" % xs[0]
    raise NotX("emit %s" % h)


def translate_xrule(r):
    """-> list of instantiations: dicts with Lean text pieces"""
    if r["applier"]:
        raise NotX("applier")
    st, vars_ = Sorts(), []
    kl = infer(r["lhs_ast"], st, "L", vars_)
    lvars = list(vars_)
    kr = infer(r["rhs_ast"], st, "R", vars_)
    if vars_ != lvars:
        raise NotX("rhs introduces variables %s" % vars_[len(lvars):])
    st.union(kl, kr)
    for c in r["conds"]:
        if c["fn"] not in XCONDS:
            raise NotX("condition %s" % c["fn"])
        for a in c["args"]:
            if a not in vars_:
                raise NotX("condition variable %s not in lhs" % a)
        if len(c["args"]) == 2:
            st.union("var:" + c["args"][0], "var:" + c["args"][1])
    # free roots among everything that matters (variables, literal nulls, result)
    roots = []
    for k in list(st.parent):
        rt = st.find(k)
        if rt not in st.const and rt not in roots:
            roots.append(rt)
    insts = []
    import itertools
    for combo in itertools.product("NBS", repeat=len(roots)):
        assign = dict(zip(roots, combo))
        def so(k):
            rt = st.find(k)
            return st.const.get(rt) or assign[rt]
        suffix = "".join(so("var:" + v) for v in vars_) or "c"
        binders = " ".join("(v_%s : %s)" % (v[1:], LEAN_TY[so("var:" + v)]) for v in vars_)
        conds = []
        for c in r["conds"]:
            if c["fn"] == "is_not_zero":
                conds.append("notZero%s v_%s" % (so("var:" + c["args"][0]), c["args"][0][1:]))
            else:
                conds.append("%s v_%s v_%s" % (XCONDS[c["fn"]], c["args"][0][1:], c["args"][1][1:]))
        insts.append({
            "inst": suffix, "vars": vars_, "sorts": [so("var:" + v) for v in vars_], "result": so(kl),
            "binders": binders, "lhs": emit(r["lhs_ast"], st, "L", assign), "rhs": emit(r["rhs_ast"], st, "R", assign),
            "cond": " && ".join(conds) if conds else "true",
        })
    # instantiations with equal suffix can only differ in sorts of literal nulls not tied to a
    # variable; keep them apart by numbering
    seen = {}
    for i in insts:
        k = seen.get(i["inst"], 0)
        seen[i["inst"]] = k + 1
        if k:
            i["inst"] += str(k + 1)
    return insts


# ----- plan rules -> statements over the shallow relational semantics (Model/PlanSem.lean) ---
#
# Sorts: P plan, B predicate, E value expression, EL expression list, KL order-key list,
# AL aggregate list, JT join type, LIM limit, OFF offset.  Every pattern variable gets the sort
# of the position(s) it occurs in (conflict = translator error => the rule is untranslatable
# and listed as an unproved obligation).

PLAN_SIG = {
    "filter": (["B", "P"], "P"), "proj": (["EL", "P"], "P"), "order": (["KL", "P"], "P"),
    "limit": (["LIM", "OFF", "P"], "P"), "topn": (["LIM", "OFF", "KL", "P"], "P"),
    "join": (["JT", "B", "P", "P"], "P"), "hashjoin": (["JT", "B", "EL", "EL", "P", "P"], "P"),
    "mergejoin": (["JT", "B", "EL", "EL", "P", "P"], "P"),
    "hashagg": (["EL", "AL", "P"], "P"), "sortagg": (["EL", "AL", "P"], "P"), "agg": (["AL", "P"], "P"),
    "empty": (["P"], "P"), "window": (["WL", "P"], "P"), "scan": (["TBL", "CL", "B"], "P"),
    "and": (["B", "B"], "B"), "or": (["B", "B"], "B"), "not": (["B"], "B"), "=": (["E", "E"], "B"),
    # correlated sub-plans (sort DP: a plan whose rows depend on the outer row; Model/PlanSem.lean DRel)
    "apply": (["JT", "P", "DP"], "P"), "exists": (["DP"], "B"), "in": (["E", "DP"], "B"),
}
# operators that may occur inside a correlated sub-plan, and their pointwise versions
D_OPS = {"filter": "dfilter", "proj": "dproj", "hashagg": "dhashagg", "agg": "dagg"}
# per-rule translation state: variables used both as a plan and as a correlated sub-plan (emitted
# as `lift p` at the correlated positions), and variables an applier computes (emitted as terms)
LIFTED = set()
SUBST = {}
CUR_SORTS = {}


def sig_of(h, want):
    if h not in PLAN_SIG:
        raise NotX("operator %s" % h)
    if want == "DP":
        if h not in D_OPS:
            raise NotX("operator %s inside a correlated sub-plan" % h)
        a, _ = PLAN_SIG[h]
        return ["DP" if x == "P" else x for x in a], "DP"
    return PLAN_SIG[h]
PLAN_TY = {"DP": "DRel", "P": "Rel", "B": "BExpr", "E": "VExpr", "EL": "List VExpr", "KL": "List Key", "AL": "List Agg",
           "JT": "JoinType", "LIM": "Option Nat", "OFF": "Nat", "TBL": "Rel", "CL": "List VExpr"}
JT_ATOMS = {"inner": ".inner", "left_outer": ".leftOuter", "right_outer": ".rightOuter", "full_outer": ".fullOuter",
            "semi": ".semi", "anti": ".anti"}
# Rust variant of the join-type nodes (planner/mod.rs define_language: "inner" = Inner, ...); the
# pairing is re-read from the source by check_jt_variants()
JT_VARIANTS = {"Inner": "inner", "LeftOuter": "left_outer", "RightOuter": "right_outer", "FullOuter": "full_outer",
               "Semi": "semi", "Anti": "anti"}
# rules whose two sides enumerate the same rows in a different order (bag equality is claimed)
PERM_RULES = {"inner-join-swap", "inner-hash-join-swap", "inner-join-right-rotate", "inner-join-right-rotate-1",
              "pushdown-filter-hashagg", "pushdown-apply-group-agg", "pushdown-apply-scalar-agg"}


def pvar(v):
    return "p_" + re.sub(r"[^A-Za-z0-9]", "_", v[1:])


def plan_infer(ast, want, sorts):
    """checks `ast` against sort `want`, recording variable sorts"""
    if isinstance(ast, str):
        if ast.startswith("?"):
            if ast in SUBST:
                return
            if sorts.setdefault(ast, want) != want:
                if {sorts[ast], want} == {"P", "DP"}:
                    # a plan used as the (uncorrelated) right side of an apply: `lift`
                    sorts[ast] = "P"
                    LIFTED.add(ast)
                    return
                # TBL/CL/P etc must agree
                raise NotX("variable %s used at sorts %s and %s" % (ast, sorts[ast], want))
            return
        if want == "B" and ast in ("true", "false"):
            return
        if want == "JT" and ast in JT_ATOMS:
            return
        if want == "LIM" and (ast == "null" or re.fullmatch(r"\d+", ast)):
            return
        if want == "OFF" and re.fullmatch(r"\d+", ast):
            return
        raise NotX("atom %s at sort %s" % (ast, want))
    h, args = ast[0], ast[1:]
    if h == "list":
        if want in ("EL", "CL"):
            for a in args:
                plan_infer(a, "E", sorts)
            return
        if want in ("KL", "AL", "WL") and not args:
            return
        raise NotX("list literal at sort %s" % want)
    argsorts, res = sig_of(h, want)
    if res != want or len(argsorts) != len(args):
        raise NotX("operator %s/%d at sort %s" % (h, len(args), want))
    for a, so in zip(args, argsorts):
        plan_infer(a, so, sorts)


def plan_emit(ast, want):
    if isinstance(ast, str):
        if ast.startswith("?"):
            if ast in SUBST:
                return SUBST[ast]
            if want == "DP" and CUR_SORTS.get(ast) == "P":
                return "(lift %s)" % pvar(ast)
            return pvar(ast)
        if want == "B":
            return "bTrue" if ast == "true" else "bFalse"
        if want == "JT":
            return "JoinType" + JT_ATOMS[ast]
        if want == "LIM":
            return "(none : Option Nat)" if ast == "null" else "(some %s : Option Nat)" % ast
        if want == "OFF":
            return "(%s : Nat)" % ast
    h, args = ast[0], ast[1:]
    if h == "list":
        if want in ("EL", "CL"):
            return "[%s]" % ", ".join(plan_emit(a, "E") for a in args)
        return "[]"
    argsorts, _ = sig_of(h, want)
    xs = [plan_emit(a, so) for a, so in zip(args, argsorts)]
    if want == "DP":
        return "(%s %s)" % (D_OPS[h], " ".join(xs))
    if h == "exists":
        return "(dexists %s)" % xs[0]
    if h == "in":
        return "(din %s %s)" % (xs[0], xs[1])
    if h == "window":
        return "(window %s)" % xs[1]
    if h == "scan":
        return "(scan %s %s)" % (xs[0], xs[2])
    name = {"and": "bAnd", "or": "bOr", "not": "bNot", "=": "bEq"}.get(h, h)
    return "(%s %s)" % (name, " ".join(xs))


def owned_of(ast):
    """Lean term for the owned-column set of a plan-sorted pattern"""
    return "(%s).owned" % plan_emit(ast, "P")


def cond_leaves(ast, want):
    """pattern variables at the leaves of a condition pattern, with their sorts"""
    if isinstance(ast, str):
        return [(ast, want)] if ast.startswith("?") else []
    h, args = ast[0], ast[1:]
    if h not in PLAN_SIG:
        return []
    out = []
    for a, so in zip(args, PLAN_SIG[h][0]):
        out += cond_leaves(a, so)
    return out


def wf_hyps(ast, want, out):
    """well-formedness of an instantiated pattern: every operator's expressions read only the
    columns its inputs own; the two sides of a join own disjoint columns"""
    if isinstance(ast, str):
        return
    h, args = ast[0], ast[1:]
    if h == "list" or h not in PLAN_SIG:
        return
    argsorts, _ = PLAN_SIG[h]
    plans = [a for a, so in zip(args, argsorts) if so == "P"]
    if h in ("join", "hashjoin", "mergejoin"):
        l, r = plans
        out.append("(∀ x, %s x = true → %s x = false)" % (owned_of(l), owned_of(r)))
        scope = "(fun x => %s x || %s x)" % (owned_of(l), owned_of(r))
    elif plans:
        scope = owned_of(plans[0])
    else:
        scope = None
    el_seen = 0
    for a, so in zip(args, argsorts):
        if so == "EL" and h in ("hashjoin", "mergejoin") and len(plans) == 2:
            # the key lists of a hash / merge join are resolved against ONE input each
            side = plans[el_seen] if el_seen < 2 else plans[-1]
            el_seen += 1
            out.append("(∀ e ∈ %s, ReadsWithin e %s)" % (plan_emit(a, "EL"), owned_of(side)))
            wf_hyps(a, so, out)
            continue
        if so == "B" and scope:
            # every leaf of the condition reads only what the inputs provide (well-formedness is
            # syntactic: it holds of each sub-expression, not just of the composite's value)
            for leaf, lso in cond_leaves(a, "B"):
                if lso in ("B", "E"):
                    out.append("ReadsWithin %s %s" % (pvar(leaf), scope))
        if so == "EL" and scope:
            out.append("(∀ e ∈ %s, ReadsWithin e %s)" % (plan_emit(a, "EL"), scope))
        if so == "KL" and scope and not (isinstance(a, list) and a == ["list"]):
            out.append("(∀ k ∈ %s, ReadsWithin k.e %s)" % (plan_emit(a, "KL"), scope))
        if so != "DP":
            wf_hyps(a, so, out)


def dp_hyps(ast, out, child=None):
    """well-formedness around correlated sub-plans: the two sides of an apply (a filter's input
    and the subquery of an `exists` / `in` in its condition) own disjoint columns; the outer
    operand of `in` does not read the subquery's columns (scoping); a variable apply type is one
    of the types an apply is ever built with"""
    if isinstance(ast, str):
        return
    h, args = ast[0], ast[1:]
    if h == "apply" and len(args) == 3:
        t, l, r = args
        if isinstance(t, str) and t.startswith("?"):
            out.append("ApplyType %s" % pvar(t))
        out.append("(∀ x, %s x = true → (%s).owned x = false)" % (owned_of(l), plan_emit(r, "DP")))
    if h == "filter" and len(args) == 2 and child is None:
        for a in args[:1]:
            dp_hyps(a, out, child=args[1])
        dp_hyps(args[1], out)
        return
    if h in ("exists", "in"):
        sub = args[-1]
        if child is not None:
            out.append("(∀ x, %s x = true → (%s).owned x = false)" % (owned_of(child), plan_emit(sub, "DP")))
        if h == "in":
            for leaf, lso in cond_leaves(args[0], "E"):
                out.append("Indep %s (%s).owned" % (pvar(leaf), plan_emit(sub, "DP")))
    for a in args:
        dp_hyps(a, out, child=child if h in ("and", "or", "not") else None)


def find_hashagg_keys(ast, aggvar):
    if isinstance(ast, str):
        return None
    if ast[0] in ("hashagg", "sortagg") and len(ast) == 4 and ast[2] == aggvar:
        return ast[1]
    for a in ast[1:]:
        r = find_hashagg_keys(a, aggvar)
        if r is not None:
            return r
    return None


def translate_plan_rule(r):
    lhs, rhs = r["lhs_ast"], r["rhs_ast"]
    extra_vars = {}
    if r["applier"] == "apply_proj":
        # children are wrapped in a projection on an arbitrary column list
        def wrap(a):
            if isinstance(a, str):
                if a in ("?child", "?left", "?right"):
                    v = "?pl_" + a[1:]
                    extra_vars[v] = "EL"
                    return ["proj", v, a]
                return a
            return [a[0]] + [wrap(x) for x in a[1:]]
        rhs = wrap(rhs)
    elif r["applier"] == "column_prune":
        def repl(a):
            if isinstance(a, str):
                if a == "?columns":
                    extra_vars["?columns_pruned"] = "CL"
                    return "?columns_pruned"
                return a
            return [a[0]] + [repl(x) for x in a[1:]]
        rhs = repl(rhs)
    elif r["applier"] in ("apply_column0", "extract_key"):
        pass    # the computed variable is substituted below, once the sorts of the lhs are known
    elif r["applier"]:
        raise NotX("applier %s" % r["applier"])
    LIFTED.clear()
    SUBST.clear()
    CUR_SORTS.clear()
    sorts = CUR_SORTS
    root = "P"
    try:
        plan_infer(lhs, "P", sorts)
    except NotX:
        # an expression-level rule over subqueries (`in`): both sides are predicates of the outer row
        sorts.clear()
        LIFTED.clear()
        root = "B"
        plan_infer(lhs, "B", sorts)
    lvars = list(sorts)
    if r["applier"] == "apply_column0":
        # ?column0 := first column of ?subquery's schema
        if sorts.get("?subquery") not in ("DP", "P"):
            raise NotX("apply_column0 without ?subquery")
        SUBST["?column0"] = "(col0 %s)" % plan_emit("?subquery", "DP")
    if r["applier"] == "extract_key":
        # ?new_keys := schema of ?left (++ ?keys)
        if sorts.get("?left") != "P":
            raise NotX("extract_key without ?left")
        SUBST["?new_keys"] = "(%s.cols ++ %s)" % (pvar("?left"), pvar("?keys")) if "?keys" in sorts else "%s.cols" % pvar("?left")
    plan_infer(rhs, root, sorts)
    for v in sorts:
        if v not in lvars and v not in extra_vars:
            raise NotX("rhs introduces %s" % v)
    justified = set()
    hyps = []
    wf_hyps(lhs, root, hyps)
    for v, so in sorts.items():
        if so == "DP":
            hyps.append("%s.Extends" % pvar(v))
    dp_hyps(lhs, hyps)
    for c in r["conds"]:
        fn, args = c["fn"], c["args"]
        if fn == "not_depend_on":
            e, pl = args
            if sorts.get(pl) in ("P", "DP") and sorts.get(e) in ("B", "E"):
                hyps.append("Indep %s %s.owned" % (pvar(e), pvar(pl)))
            elif sorts.get(pl) == "P" and e in LIFTED:
                justified.add(e)    # the sub-plan does not read the outer row: `lift`
            elif sorts.get(pl) == "P" and sorts.get(e) == "DP":
                raise NotX("not_depend_on(%s, %s) on a sub-plan that stays correlated" % (e, pl))
            elif sorts.get(pl) == "AL" and sorts.get(e) == "B":
                keys = find_hashagg_keys(lhs, pl)
                if keys is None:
                    raise NotX("not_depend_on over an aggregate list outside hashagg")
                hyps.append("Indep %s (fun x => %s.any fun a => a.col == x)" % (pvar(e), pvar(pl)))
                hyps.append("(∀ ρ ρ' : Env, groupKey %s ρ = groupKey %s ρ' → %s ρ = %s ρ')" % (plan_emit(keys, "EL"), plan_emit(keys, "EL"), pvar(e), pvar(e)))
            else:
                raise NotX("not_depend_on(%s:%s, %s:%s)" % (e, sorts.get(e), pl, sorts.get(pl)))
        elif fn == "all_depend_on":
            e, pl = args
            if sorts.get(e) == "B":
                hyps.append("ReadsWithin %s %s.owned" % (pvar(e), pvar(pl)))
            elif sorts.get(e) == "EL":
                hyps.append("(∀ e ∈ %s, ReadsWithin e %s.owned)" % (pvar(e), pvar(pl)))
            else:
                raise NotX("all_depend_on at sort %s" % sorts.get(e))
        elif fn == "depend_on":
            e, pl = args
            if sorts.get(pl) in ("P", "DP") and sorts.get(e) in ("B", "E"):
                hyps.append("¬ Indep %s %s.owned" % (pvar(e), pvar(pl)))
            else:
                raise NotX("depend_on(%s:%s, %s:%s)" % (e, sorts.get(e), pl, sorts.get(pl)))
        elif fn == "is_not_list":
            if sorts.get(args[0]) not in ("DP", "P"):
                raise NotX("is_not_list at sort %s" % sorts.get(args[0]))
        elif fn == "schema_is_eq":
            hyps.append("%s = %s.cols" % (pvar(args[0]), pvar(args[1])))
        elif fn == "is_orderby":
            # the order analysis claims the plan's rows are already sorted by these keys; its
            # soundness for scans is C12's subject (ScanContract.sorted)
            if sorts.get(args[0]) == "KL":
                hyps.append("sortRows (keysLt %s) %s.rows = %s.rows" % (pvar(args[0]), pvar(args[1]), pvar(args[1])))
            else:
                hyps.append("True")
        elif fn == "is_primary_key_range":
            hyps.append("True")   # the scan contract (C13) is built into `scan`
        elif fn == "join_type_is":
            # `egraph[?type].nodes` contains one of the listed join-type nodes; a join-type
            # e-class holds exactly one node (no rule rewrites a join type)
            ty, vs = args
            if sorts.get(ty) != "JT" or not vs.startswith("exprs:"):
                raise NotX("join_type_is(%s, %s)" % (ty, vs))
            alts = []
            for v in vs[6:].split(","):
                if v not in JT_VARIANTS:
                    raise NotX("join_type_is: %s is not a join type" % v)
                alts.append("%s = JoinType%s" % (pvar(ty), JT_ATOMS[JT_VARIANTS[v]]))
            hyps.append("(%s)" % " ∨ ".join(alts) if alts else "False")
        else:
            raise NotX("condition %s" % fn)
    for v in LIFTED:
        if v not in justified:
            raise NotX("%s is used as a plan and as a correlated sub-plan without not_depend_on" % v)
    allvars = list(sorts.items())
    binders = " ".join("(%s : %s)" % (pvar(v), PLAN_TY[so]) for v, so in allvars)
    if root == "B":
        stmt = "∀ %s, %s∀ ρ : Env, %s ρ = %s ρ" % (binders, "".join(h + " → " for h in hyps), plan_emit(lhs, "B"), plan_emit(rhs, "B"))
        return stmt, "BEq"
    concl = "RelPerm" if r["name"] in PERM_RULES else "RelEq"
    stmt = "∀ %s, %s%s %s %s" % (binders, "".join(h + " → " for h in hyps), concl, plan_emit(lhs, "P"), plan_emit(rhs, "P"))
    return stmt, concl


def ident(name):
    return re.sub(r"[^A-Za-z0-9]", "_", name)


def sexp_lean(ast):
    if isinstance(ast, str):
        return '.atom "%s"' % ast.replace("\\", "\\\\").replace('"', '\\"')
    return ".list [%s]" % ", ".join(sexp_lean(a) for a in ast)


def main():
    repo = sys.argv[1] if len(sys.argv) > 1 else "/repo"
    outdir = sys.argv[2] if len(sys.argv) > 2 else os.path.join(os.path.dirname(os.path.dirname(os.path.abspath(__file__))), "lean/RlModel/Gen")
    try:
        rules, lists, stages, extra, stage_calls = extract_rules(repo)
    except TranslateError as e:
        print("TRANSLATE-ERROR %s" % e)
        sys.exit(2)
    # dedupe identical definitions (eq-comm etc. appear in rules() and and_rules())
    uniq, seen = [], {}
    for r in rules:
        key = (r["name"], r["lhs"], r["rhs"], r["applier"], json.dumps(r["conds"]))
        if key in seen:
            seen[key]["lists"].append(r["list"])
            continue
        r["lists"] = [r["list"]]
        seen[key] = r
        uniq.append(r)
    names = {}
    for r in uniq:
        k = names.get(r["name"], 0)
        names[r["name"]] = k + 1
        r["id"] = ident(r["name"]) + ("" if k == 0 else "__%d" % (k + 1))
        r["sig"] = "rule:%s %s => %s%s%s" % (r["name"], r["lhs"], ("{%s} " % r["applier"]) if r["applier"] else "", r["rhs"],
                                             "".join(" if %s(%s)" % (c["fn"], ",".join(c["args"])) for c in r["conds"]))
    L = []
    L.append("import RlModel.Model.Sexp\nimport RlModel.Model.XSem")
    L.append("/-! GENERATED by translator/gen_rules.py from /repo/src/planner/rules/*.rs on every run. Do not edit. -/")
    L.append("namespace RlModel.Gen")
    L.append("open RlModel RlModel.X")
    L.append("")
    L.append("structure RuleMeta where\n  id : String\n  name : String\n  file : String\n  line : Nat\n  lists : List String\n  lhs : Sexp\n  rhs : Sexp\n  applier : Option String\n  conds : List (String × List String)\n  kind : String")
    L.append("")
    xinsts = []
    PL = ["import RlModel.Model.PlanSem", "/-! GENERATED by translator/gen_rules.py from /repo/src/planner/rules/{plan,order,range}.rs on every run. Do not edit. -/",
          "namespace RlModel.Gen", "open RlModel RlModel.P", ""]
    for r in uniq:
        kind = "plan"
        r["insts"] = []
        if r["file"] == "expr":
            try:
                insts = translate_xrule(r)
                kind = "xexpr"
                for i in insts:
                    nm = "%s_%s" % (r["id"], i["inst"])
                    i["thm"] = nm
                    args = " ".join("v_" + v[1:] for v in i["vars"])
                    L.append("def lhs_%s %s : %s :=\n  %s" % (nm, i["binders"], LEAN_TY[i["result"]], i["lhs"]))
                    L.append("def rhs_%s %s : %s :=\n  %s" % (nm, i["binders"], LEAN_TY[i["result"]], i["rhs"]))
                    L.append("def cond_%s %s : Bool :=\n  %s" % (nm, i["binders"], i["cond"]))
                    if i["vars"]:
                        L.append("def stmt_%s : Prop :=\n  ∀ %s, cond_%s %s = true → lhs_%s %s = rhs_%s %s" % (nm, i["binders"], nm, args, nm, args, nm, args))
                    else:
                        L.append("def stmt_%s : Prop := cond_%s = true → lhs_%s = rhs_%s" % (nm, nm, nm, nm))
                    # counterexample search (finite domain; only to find a failing input)
                    body = "if cond_%s %s && !(lhs_%s %s == rhs_%s %s) then [\" \".intercalate [%s]] else []" % (
                        nm, args, nm, args, nm, args, ", ".join("show%s v_%s" % (so, v[1:]) for v, so in zip(i["vars"], i["sorts"])))
                    for v, so in reversed(list(zip(i["vars"], i["sorts"]))):
                        body = "dom%s.flatMap fun v_%s => %s" % (so, v[1:], body)
                    L.append("def cex_%s : List String :=\n  %s" % (nm, body))
                    show_res = "show%s" % i["result"]
                    rd = "".join("      let v_%s ← read%s (args.getD %d \"\")\n" % (v[1:], so, k) for k, (v, so) in enumerate(zip(i["vars"], i["sorts"])))
                    L.append("def eval_%s (args : List String) : Option String := do\n%s      pure ((if cond_%s %s then \"1 \" else \"0 \") ++ %s (lhs_%s %s) ++ \" \" ++ %s (rhs_%s %s))" % (
                        nm, rd, nm, args, show_res, nm, args, show_res, nm, args))
                    xinsts.append(nm)
                    r["insts"].append({k: i[k] for k in ("inst", "thm", "vars", "sorts", "result")})
                    L.append("")
            except NotX as e:
                kind = "expr-other"
                r["untranslatable"] = str(e)
        if r["file"] != "expr":
            try:
                stmt, concl = translate_plan_rule(r)
                PL.append("/-- %s -/\ndef pstmt_%s : Prop :=\n  %s\n" % (r["sig"].replace("-/", "- /"), r["id"], stmt))
                kind = "plan"
                r["pstmt"] = "pstmt_" + r["id"]
                r["concl"] = concl
            except NotX as e:
                kind = "plan-other"
                r["untranslatable"] = str(e)
        r["kind"] = kind
        L.append('def meta_%s : RuleMeta :=\n  { id := "%s", name := "%s", file := "%s", line := %d, lists := [%s],\n    lhs := %s,\n    rhs := %s,\n    applier := %s, conds := [%s], kind := "%s" }' % (
            r["id"], r["id"], r["name"], r["file"], r["line"], ", ".join('"%s"' % x for x in r["lists"]),
            sexp_lean(r["lhs_ast"]), sexp_lean(r["rhs_ast"]),
            ('some "%s"' % r["applier"]) if r["applier"] else "none",
            ", ".join('("%s", [%s])' % (c["fn"], ", ".join('"%s"' % a for a in c["args"])) for c in r["conds"]), kind))
        L.append("")
    L.append("def cexTable : List (String × (Unit → List String)) := [%s]" % ", ".join('("%s", fun _ => cex_%s)' % (n, n) for n in xinsts))
    L.append("def evalTable : List (String × (List String → Option String)) := [%s]" % ", ".join('("%s", eval_%s)' % (n, n) for n in xinsts))
    L.append("def allRules : List RuleMeta := [%s]" % ", ".join("meta_" + r["id"] for r in uniq))
    L.append("def stageLists : List (String × List String) := [%s]" % ", ".join(
        '("%s", [%s])' % (k, ", ".join('"%s"' % x for x in v)) for k, v in sorted(stages.items())))
    L.append("end RlModel.Gen")
    os.makedirs(outdir, exist_ok=True)
    PL.append("end RlModel.Gen")
    ptext = "\n".join(PL) + "\n"
    pp = os.path.join(outdir, "PlanRules.lean")
    _write_if_changed(pp, ptext)
    text = "\n".join(L) + "\n"
    p = os.path.join(outdir, "Rules.lean")
    _write_if_changed(p, text)
    js = {"rules": [{k: r.get(k) for k in ("id", "name", "file", "line", "lists", "lhs", "rhs", "applier", "conds", "kind", "insts", "sig", "pstmt", "concl", "lhs_ast", "rhs_ast", "lhs_extra_parens", "rhs_extra_parens")} | ({"untranslatable": r["untranslatable"]} if "untranslatable" in r else {}) for r in uniq],
          "lists": lists, "stages": stages, "extra_rules": extra, "stage_calls": stage_calls}
    pj = os.path.join(outdir, "rules.json")
    tj = json.dumps(js, indent=1)
    _write_if_changed(pj, tj)
    print("translated %d rule definitions (%d distinct; %d expression rules, %d typed instantiations)" % (
        len(rules), len(uniq), sum(1 for r in uniq if r["kind"] == "xexpr"), len(xinsts)))


if __name__ == "__main__":
    main()
