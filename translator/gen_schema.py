#!/usr/bin/env python3
"""translator/gen_schema.py [repo] [outdir]

Regenerates lean/RlModel/Gen/Schema.lean — the `schema` function of the C17 plan checker — from
`src/planner/rules/schema.rs analyze_schema` (the match on the plan node), on every run.

Strict: every arm must have a pattern and a body of a shape listed below, every variant must be
one the term language knows, and the s-expression name <-> Rust variant pairing is re-read from
`planner/mod.rs define_language!`.  Anything else: `TRANSLATE-ERROR` and exit 2 (the check reports
the model as no longer tied to the source).
"""
import os, re, sys

VERIF = os.path.dirname(os.path.dirname(os.path.abspath(__file__)))
# Rust variant -> (s-expression head, constructor of `Hd` in Model/PlanTm.lean)
VARIANTS = {
    "Filter": ("filter", "filter"), "Order": ("order", "order"), "Limit": ("limit", "limit"), "TopN": ("topn", "topn"),
    "Empty": ("empty", "empty"), "Join": ("join", "join"), "HashJoin": ("hashjoin", "hashjoin"),
    "MergeJoin": ("mergejoin", "mergejoin"), "Apply": ("apply", "apply"), "List": ("list", "list"), "Scan": ("scan", "scan"),
    "Values": ("values", "values"), "Proj": ("proj", "proj"), "Agg": ("agg", "agg"), "Window": ("window", "window"),
    "HashAgg": ("hashagg", "hashagg"), "SortAgg": ("sortagg", "sortagg"), "IndexScan": ("index_scan", "indexScan"),
}


class TranslateError(Exception):
    pass



def _write_if_changed(path, text):
    """atomic, and only when the content differs: concurrent checks regenerate the same files"""
    try:
        if open(path).read() == text:
            return
    except OSError:
        pass
    tmp = "%s.tmp%d" % (path, os.getpid())
    with open(tmp, "w") as f:
        f.write(text)
    os.replace(tmp, path)


def strip_comments(src):
    return re.sub(r"//[^\n]*", "", src)


def split_top(s, sep):
    """split at `sep` outside brackets"""
    out, depth, cur = [], 0, ""
    i = 0
    while i < len(s):
        ch = s[i]
        if ch in "([{":
            depth += 1
        elif ch in ")]}":
            depth -= 1
        if depth == 0 and s.startswith(sep, i):
            out.append(cur)
            cur = ""
            i += len(sep)
            continue
        cur += ch
        i += 1
    out.append(cur)
    return out


def lean_var(v):
    v = v.strip()
    if v == "_":
        return "_"
    if not re.fullmatch(r"[a-z_][a-z_0-9]*", v):
        raise TranslateError("pattern variable %r" % v)
    return "v_" + v


def body_to_lean(b):
    b = " ".join(b.split()).rstrip(",").strip()
    m = re.fullmatch(r"x\(([a-z_0-9]+)\)", b)
    if m:
        return "schema v_%s" % m.group(1)
    m = re.fullmatch(r"concat\(x\(([a-z_0-9]+)\), x\(([a-z_0-9]+)\)\)", b)
    if m:
        return "schema v_%s ++ schema v_%s" % (m.group(1), m.group(2))
    m = re.fullmatch(r"match node0\(([a-z_0-9]+)\) \{ Semi \| Anti => x\(([a-z_0-9]+)\), _ => concat\(x\(([a-z_0-9]+)\), x\(([a-z_0-9]+)\)\),? \}", b)
    if m:
        t, l, l2, r = m.groups()
        if l != l2:
            raise TranslateError("join arm: %r" % b)
        return "if isSemiAnti v_%s then schema v_%s else schema v_%s ++ schema v_%s" % (t, l, l, r)
    if b == "ids.to_vec()":
        return "v_ids"
    if b.replace(" ", "") == "x(&vs[0])":
        return "schema v_row"          # Values(vs): the schema of the first row
    if b == "vec![]":
        return "[]"
    raise TranslateError("body %r" % b)


def main():
    repo = sys.argv[1] if len(sys.argv) > 1 else os.environ.get("VERIF_REPO", "/repo")
    outdir = sys.argv[2] if len(sys.argv) > 2 else os.path.join(VERIF, "lean/RlModel/Gen")
    try:
        src = strip_comments(open(os.path.join(repo, "src/planner/rules/schema.rs")).read())
        m = re.search(r"pub fn analyze_schema\(.*?\) -> Schema \{(.*?)\n\}\n", src, re.S)
        if not m:
            raise TranslateError("analyze_schema not found")
        fn = m.group(1)
        if not re.search(r"let concat = \|v1: Vec<Id>, v2: Vec<Id>\| v1\.into_iter\(\)\.chain\(v2\)\.collect\(\);", fn):
            raise TranslateError("`concat` is no longer list concatenation")
        mm = re.search(r"match enode \{(.*)\}\s*$", fn, re.S)
        if not mm:
            raise TranslateError("`match enode` not found")
        arms_txt = mm.group(1)
        # arms: split at top-level commas, re-join bodies that are `match … { … }`
        raw = [a for a in (x.strip() for x in split_top(arms_txt, ",")) if a]
        arms = []
        for a in raw:
            parts = split_top(a, "=>")
            if len(parts) < 2:
                raise TranslateError("arm %r" % a)
            pat, body = parts[0], "=>".join(parts[1:])
            arms.append((pat.strip(), body.strip()))
        modsrc = strip_comments(open(os.path.join(repo, "src/planner/mod.rs")).read())
        tmsrc = open(os.path.join(VERIF, "lean/RlModel/Model/PlanWf.lean")).read()
        lines, seen_default = [], False
        for pat, body in arms:
            if pat == "_":
                lines.append("  | _ => %s" % body_to_lean(body))
                seen_default = True
                continue
            lb = body_to_lean(body)
            for alt in split_top(pat, "|"):
                alt = alt.strip()
                m2 = re.fullmatch(r"([A-Za-z0-9]+)\((.*)\)", alt, re.S)
                if not m2:
                    raise TranslateError("pattern %r" % alt)
                var, inner = m2.group(1), m2.group(2).strip()
                if var not in VARIANTS:
                    raise TranslateError("plan node %s has a schema arm but is not in the term language" % var)
                sname, ctor = VARIANTS[var]
                if not re.search(r'"%s"\s*=\s*%s\b' % (re.escape(sname), var), modsrc):
                    raise TranslateError("planner/mod.rs: `%s` is no longer the node %s" % (sname, var))
                if ('s == "%s" then .%s' % (sname, ctor)) not in tmsrc:
                    raise TranslateError("Model/PlanWf.lean hdOfString does not read `%s` as .%s" % (sname, ctor))
                if inner.startswith("["):
                    vs = [lean_var(v) for v in inner.strip("[]").split(",")]
                    lp = "[%s]" % ", ".join(vs)
                elif var == "List":
                    lp = lean_var(inner)            # List(ids): the whole argument list
                elif re.fullmatch(r"[a-z_][a-z_0-9]*", inner) and not (var == "Values"):
                    lp = "[%s]" % lean_var(inner)   # a unary node: Empty(c)
                elif var == "Values" and body.replace(" ", "") in ("x(&vs[0])", "x(&vs[0]),"):
                    lp = "(v_row :: _)"
                else:
                    raise TranslateError("pattern %r" % alt)
                b2 = lb
                if var == "Values":
                    if body.replace(" ", "").rstrip(",") != "x(&vs[0])":
                        raise TranslateError("Values arm %r" % body)
                    b2 = "schema v_row"
                lines.append("  | .node .%s %s => %s" % (ctor, lp, b2))
        if not seen_default:
            raise TranslateError("no default arm")
    except TranslateError as e:
        print("TRANSLATE-ERROR schema: %s" % e)
        sys.exit(2)
    except KeyError as e:
        print("TRANSLATE-ERROR schema: %r" % e)
        sys.exit(2)
    out = ["import RlModel.Model.PlanTm",
           "/-! GENERATED by translator/gen_schema.py from src/planner/rules/schema.rs `analyze_schema` — do not edit. -/",
           "namespace RlModel.Wf", "",
           "/-- `analyze_schema`: the list of expression identities a plan node outputs (`x(id)` is the schema of",
           "the child `id`; the schema of a `list` node is its items). -/",
           "def schema : Tm → List Tm"] + lines + ["", "end RlModel.Wf", ""]
    os.makedirs(outdir, exist_ok=True)
    _write_if_changed(os.path.join(outdir, "Schema.lean"), "\n".join(out))
    print("gen_schema: %d arms -> %s" % (len(lines), os.path.join(outdir, "Schema.lean")))


if __name__ == "__main__":
    main()
