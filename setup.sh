#!/bin/bash
# Builds the framework from files on disk only (offline): Lean library + model drivers, Rust harness.
set -e
cd "$(dirname "$0")"
export CARGO_NET_OFFLINE=true
mkdir -p .work evidence replays
( cd lean && lake build RlModel $(ls RlModel/Thm/*.lean | sed 's#/#.#g; s#\.lean$##') $(ls Drivers/*.lean | sed 's#Drivers/C\([0-9]*\).lean#drv_c\1#' | grep drv_) 2>&1 | grep -v "^warning\|^  \|^$\|^Hint\|^Note" | tail -15 )
( cd harness && cargo build --offline --bins 2>&1 | tail -3 )
echo "setup done"
