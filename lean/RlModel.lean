import RlModel.Model.Sexp
import RlModel.Model.Val
