import RlModel.Model.Sexp
import RlModel.Model.Stream
/-!
C15 driver.  One request per line:

  (query <tree>) | (dml <id> <ft> <tree>) | (chan <cap> <act>…) | (txn <limit> <rows of chunk>…)

  tree ::= (leaf <id> <ft> (outs n…) end|err)
         | (stream <id> <ft> (outs n…) none|<j> <tree>)
         | (block <id> <ft> <nIn> (outs n…) 0|1 <tree>)
         | (limit <id> <ft> <limit> <offset> <tree>)
         | (join <id> <ft> <nL> <nR> (outs n…) <tree> <tree>)
         | (mjoin <id> <ft> <nL> <nR> (outs n…) <tree> <tree>)      merge join: interleaved reads
  ft   ::= none | (error k) | (panic k)
  act  ::= (s m) | d | a | r | c

Answers:  `err -` | `ok <rows|?> <same|diff> <pfx|nopfx> <dml>` with dml ::= `-` | `none` | `commit <rows|?> <same|diff>`
(`same`/`diff`: equal to the model's own fault-free run), for `chan`: `sent … got … queue <n> active <n>`.
-/
open RlModel RlModel.Strm

def nat? (s : Sexp) : Option Nat := s.atom?.bind String.toNat?

def nats? (s : Sexp) : Option (List Nat) :=
  match s.app? with
  | some ("outs", xs) => xs.mapM nat?
  | _ => none

def ft? (s : Sexp) : Option (Option Fault) :=
  match s with
  | .atom "none" => some none
  | .list [.atom "error", k] => (nat? k).map fun k => some ⟨k, .error⟩
  | .list [.atom "panic", k] => (nat? k).map fun k => some ⟨k, .panic⟩
  | _ => none

def mkOuts (id : Nat) (outs : List Nat) : List Ck :=
  (List.range outs.length).map fun i => ⟨id, i, (outs[i]?).getD 0, true⟩

partial def tree? (s : Sexp) : Option (Plan Ck) :=
  match s with
  | .list [.atom "leaf", id, ft, outs, fin] =>
    match nat? id, ft? ft, nats? outs with
    | some id, some ft, some outs =>
      some (.leaf ft ⟨mkOuts id outs, if fin == .atom "err" then some 1 else none⟩)
    | _, _, _ => none
  | .list [.atom "stream", id, ft, outs, failAt, c] =>
    match nat? id, ft? ft, nats? outs, tree? c with
    | some id, some ft, some outs, some c => some (.unary ft (streamOp id outs (nat? failAt)) c)
    | _, _, _, _ => none
  | .list [.atom "block", id, ft, nIn, outs, failEnd, c] =>
    match nat? id, ft? ft, nat? nIn, nats? outs, tree? c with
    | some id, some ft, some nIn, some outs, some c =>
      some (.unary ft (blockOp id nIn outs (failEnd == .atom "1")) c)
    | _, _, _, _, _ => none
  | .list [.atom "limit", id, ft, lim, off, c] =>
    match nat? id, ft? ft, nat? lim, nat? off, tree? c with
    | some id, some ft, some lim, some off, some c => some (.unary ft (limitOp id lim off) c)
    | _, _, _, _, _ => none
  | .list [.atom "join", id, ft, nL, nR, outs, l, r] =>
    match nat? id, ft? ft, nat? nL, nat? nR, nats? outs, tree? l, tree? r with
    | some id, some ft, some nL, some nR, some outs, some l, some r =>
      some (.binary ft (joinOp id nL nR outs) l r)
    | _, _, _, _, _, _, _ => none
  | .list [.atom "mjoin", id, ft, nL, nR, outs, l, r] =>
    match nat? id, ft? ft, nat? nL, nat? nR, nats? outs, tree? l, tree? r with
    | some id, some ft, some nL, some nR, some outs, some l, some r =>
      some (.mjoin ft (mergeJoinOp id nL nR outs) (nL + nR + 8) l r)
    | _, _, _, _, _, _, _ => none
  | _ => none

def rowsStr (cs : List Ck) : String :=
  if cs.all (·.exact) then toString (cs.foldl (fun a c => a + c.card) 0) else "?"

def sameStr {β : Type} [BEq β] (a b : β) : String := if a == b then "same" else "diff"

/-- Only `leaf` / `stream` / `limit` nodes: a chain of order-preserving streaming executors
(`Plan.StreamChain`), for which `stream_chain_prefix` gives the rows, in order. -/
partial def chain? (s : Sexp) : Bool :=
  match s with
  | .list (.atom "leaf" :: _) => true
  | .list [.atom "stream", _, _, _, _, c] => chain? c
  | .list [.atom "limit", _, _, _, _, c] => chain? c
  | _ => false

def outStr (chain : Bool) (r r0 : Except Nat (List Ck)) : String :=
  match r with
  | .error _ => "err"
  | .ok cs =>
    let same := match r0 with | .ok cs0 => cs == cs0 | .error _ => false
    -- `pfx`: the rows are exactly the first rows of the fault-free answer (known content, prefix)
    let pfx := chain && match r0 with | .ok cs0 => cs.all (·.exact) && cs.isPrefixOf cs0 | .error _ => false
    s!"ok {rowsStr cs} {if same then "same" else "diff"} {if pfx then "pfx" else "nopfx"}"

def chanAct? (s : Sexp) : Option (ChanAct Nat) :=
  match s with
  | .list [.atom "s", m] => (nat? m).map .send
  | .atom "d" => some .deactivate
  | .atom "a" => some .activate
  | .atom "r" => some .recv
  | .atom "c" => some .close
  | _ => none

def natsStr (xs : List Nat) : String := " ".intercalate (xs.map toString)

def answer (line : String) : String :=
  match Sexp.parse line with
  | some (.list [.atom "query", t]) =>
    match tree? t with
    | some p => s!"{outStr (chain? t) p.run p.clean.run} -"
    | none => "bad-request"
  | some (.list [.atom "dml", id, ft, t]) =>
    match nat? id, ft? ft, tree? t with
    | some id, some ft, some c =>
      let st : Stmt Ck := .dml ft (dmlCk id) c
      let r := st.run
      let r0 := st.clean.run
      let d := match r.committed with
        | none => "none"
        | some cs => s!"commit {rowsStr cs} {sameStr (some cs) r0.committed}"
      s!"{outStr false r.out r0.out} {d}"
    | _, _, _ => "bad-request"
  | some (.list (.atom "txn" :: limit :: sizes)) =>
    -- the write transaction: chunk row counts appended before the statement ended / failed
    match nat? limit, sizes.mapM nat? with
    | some limit, some sizes =>
      let t := (WTxn.start ([] : List (List Nat))).appendAll limit id sizes
      s!"started {t.started} pending {t.pending.length} visible {t.abort.length} commit {t.commit.length}"
    | _, _ => "bad-request"
  | some (.list (.atom "chan" :: cap :: acts)) =>
    match nat? cap, acts.mapM chanAct? with
    | some cap, some acts =>
      let (c, sent, got) := Chan.runSched (Chan.new cap) acts [] []
      s!"sent {natsStr sent} got {natsStr got} queue {c.queue.length} active {c.active.length}"
    | _, _ => "bad-request"
  | _ => "bad-request"

partial def loop (h : IO.FS.Stream) : IO Unit := do
  let line ← h.getLine
  if line.isEmpty then return ()
  IO.println (answer line.trimAscii.toString)
  loop h

def main : IO Unit := do loop (← IO.getStdin)
