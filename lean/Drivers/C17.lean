import RlModel.Model.PlanWf
/-! C17 model driver: `wf <plan s-expression>` → `<verdict> | schema=<n> | aggrefs=<true|false>` -/
open RlModel RlModel.Wf

def answer (line : String) : String :=
  let l := line.trimAscii.toString
  if l.startsWith "wf " then
    match Sexp.parse (l.drop 3).toString with
    | some s =>
      let t := ofSexp s
      showVerdict (verdict t) ++ " | schema=" ++ toString (schema t).length ++ " | aggrefs=" ++ toString (aggRefsProduced t)
    | none => "bad-plan"
  else "bad-request"

partial def loop (h : IO.FS.Stream) : IO Unit := do
  let line ← h.getLine
  if line.isEmpty then return ()
  IO.println (answer line)
  loop h

def main : IO Unit := do loop (← IO.getStdin)
