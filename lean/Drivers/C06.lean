import RlModel.Model.Enc
import RlModel.Model.Sexp
open RlModel

/-! Line-protocol driver for C06 (same request/answer format as harness/src/bin/c06.rs). -/

def kindOf (ty : String) (cw : Option Nat) : Kind :=
  match ty with
  | "bool" => .fixed 1
  | "i16" => .fixed 2
  | "i32" => .fixed 4
  | "i64" => .fixed 8
  | "f64" => .fixed 8
  | "date" => .fixed 4
  | "iv" => .fixed 12   -- months, days, milliseconds: three big-endian i32 (since /repo fix of interval:subday-part-dropped)
  | "str" => match cw with | some w => .char w | none => .blob
  | _ => .blob

def twos (bits : Nat) (v : Int) : Nat := (v % (2 ^ bits : Nat)).toNat

def untwos (bits : Nat) (n : Nat) : Int :=
  if n ≥ 2 ^ (bits - 1) then (n : Int) - (2 ^ bits : Nat) else n

def hexNat (s : String) : Nat :=
  s.toList.foldl (fun acc c => acc * 16 + (hexVal c).getD 0) 0

/-- canonical value text → cell -/
def cellOfCanon (t : String) : Cell :=
  if t == "null" then none
  else if t == "b:true" then some [1]
  else if t == "b:false" then some [0]
  else if t.startsWith "i16:" then some (leBytes 2 (twos 16 ((t.drop 4).toString.toInt?.getD 0)))
  else if t.startsWith "i32:" then some (leBytes 4 (twos 32 ((t.drop 4).toString.toInt?.getD 0)))
  else if t.startsWith "i64:" then some (leBytes 8 (twos 64 ((t.drop 4).toString.toInt?.getD 0)))
  else if t.startsWith "f64:" then some (leBytes 8 (hexNat (t.drop 4).toString))
  else if t.startsWith "date:" then some (beBytes 4 (twos 32 ((t.drop 5).toString.toInt?.getD 0)))
  else if t.startsWith "iv:" then
    match ((t.drop 3).toString.splitOn ":").map (fun x => twos 32 (x.toInt?.getD 0)) with
    | [m, d, ms] => some (beBytes 4 m ++ beBytes 4 d ++ beBytes 4 ms)
    | _ => none
  else if t.startsWith "s:" then some ((bytesOfHex (t.drop 2).toString.toList).getD [])
  else if t.startsWith "blob:" then some ((bytesOfHex (t.drop 5).toString.toList).getD [])
  else none

def pad16 (s : String) : String := String.ofList (List.replicate (16 - s.length) '0') ++ s

def hexOfNat (n : Nat) : String := hexOfBytes (beBytes 8 n)

def canonOfCell (ty : String) : Cell → String
  | none => "null"
  | some bs =>
    match ty with
    | "bool" => if natOfLE bs != 0 then "b:true" else "b:false"
    | "i16" => "i16:" ++ toString (untwos 16 (natOfLE bs))
    | "i32" => "i32:" ++ toString (untwos 32 (natOfLE bs))
    | "i64" => "i64:" ++ toString (untwos 64 (natOfLE bs))
    | "f64" => "f64:" ++ hexOfNat (natOfLE bs)
    | "date" => "date:" ++ toString (untwos 32 (natOfBE bs))
    | "iv" => "iv:" ++ toString (untwos 32 (natOfBE (bs.take 4))) ++ ":" ++ toString (untwos 32 (natOfBE ((bs.drop 4).take 4)))
        ++ ":" ++ toString (untwos 32 (natOfBE (bs.drop 8)))
    | "str" => "s:" ++ hexOfBytes bs
    | _ => "blob:" ++ hexOfBytes bs

def parseOp (s : String) : Option IterOp :=
  match s.splitOn ":" with
  | ["h"] => some .hint
  | ["r"] => some .rowId
  | ["s", n] => n.toNat?.map .skip
  | ["sh", n] => n.toNat?.map .skipHinted
  | ["n", "-"] => some (.next none)
  | ["n", n] => n.toNat?.map (fun k => .next (some k))
  | ["nh", n] => n.toNat?.map .nextHinted
  | _ => none

def fmtOut (ty : String) : IterOut → String
  | .batch r cells => "b:" ++ toString r ++ ":" ++ ",".intercalate (cells.map (canonOfCell ty))
  | .none => "none"
  | .hint n f => "h:" ++ toString n ++ ":" ++ (if f then "1" else "0")
  | .rowId n => "r:" ++ toString n
  | .skipped n => "k:" ++ toString n

/-- run the ops; `drain:<op>` repeats `<op>` until `none` (at most `bound` times) -/
def runProgram (ty : String) (bound : Nat) : ColIter → List String → List String
  | _, [] => []
  | c, op :: ops =>
    if op.startsWith "drain:" then
      match parseOp (op.drop 6).toString with
      | none => ["bad-op"]
      | some o =>
        let rec drain : Nat → ColIter → List String
          | 0, _ => []
          | k + 1, c =>
            let (c', out) := c.step o
            match out with
            | some IterOut.none => ["none"]
            | some x => fmtOut ty x :: drain k c'
            | none => drain k c'
        drain bound c ++ runProgram ty bound c ops  -- (drain is always the last op)
    else match parseOp op with
      | none => ["bad-op"]
      | some o =>
        let (c', out) := c.step o
        match out with
        | some x => fmtOut ty x :: runProgram ty bound c' ops
        | none => runProgram ty bound c' ops

structure Built where
  ty : String
  kind : Kind
  ncells : Nat
  head : String
  blocks : Option (List BlockInfo)   -- none: nothing to read (panic / empty / undecodable)
  tail : String                      -- what follows `head` when `blocks = none`

/-- the part of a request that determines the built column -/
def buildKey (t : List String) : String :=
  match t with
  | "enc" :: ty :: nul :: enc :: cw :: block :: crc :: _start :: nv :: rest =>
    " ".intercalate ([ty, nul, enc, cw, block, crc] ++ rest.take (nv.toNat?.getD 0))
  | _ => ""

def build (t : List String) : Option Built :=
  match t with
  | "enc" :: ty :: nul :: enc :: cw :: block :: crc :: _start :: nv :: rest =>
    let nv := nv.toNat?.getD 0
    let vals := rest.take nv
    let cw := cw.toNat?
    let kind := kindOf ty cw
    let encT : EncType := if enc == "rle" then .rle else if enc == "dict" then .dict else .plain
    let o : ColOpts := {
      kind, eq := if ty == "f64" then .f64 else .bytes, nullable := nul == "1", enc := encT,
      blockSize := block.toNat?.getD 0, ck := if crc == "1" then .crc32 else .none }
    let cells := vals.map cellOfCanon
    -- `PlainCharBlockBuilder::append_value` panics on an item longer than the char width
    let tooLong := match kind with
      | .char w => cells.any (fun c => match c with | some b => b.length > w | none => false)
      | _ => false
    if tooLong || o.blockSize < 16 then
      some { ty, kind, ncells := cells.length, head := "Bpanic", blocks := none, tail := "" }
    else
      let btype := if ty == "str" && cw.isNone then blockTypeCodeVarchar o else blockTypeCode o
      let (data, index) := buildColumn o btype cells
      let idx := if index.isEmpty then "-" else
        ";".intercalate (index.map fun e =>
          toString e.firstRowid ++ "," ++ toString e.rowCount ++ "," ++ toString e.offset ++ "," ++ toString e.length)
      let head := "B " ++ (if data.isEmpty then "-" else hexOfBytes data) ++ " " ++ idx ++ " R"
      -- `block_of_row` on an empty index: unreachable!()
      if index.isEmpty then some { ty, kind, ncells := 0, head, blocks := none, tail := " panic" }
      else match blockInfos o data index with
        | none => some { ty, kind, ncells := cells.length, head, blocks := none, tail := " model-decode-failed" }
        | some blocks => some { ty, kind, ncells := cells.length, head, blocks := some blocks, tail := "" }
  | _ => none

def readPart (b : Built) (t : List String) : String :=
  match b.blocks, t with
  | some blocks, "enc" :: _ :: _ :: _ :: _ :: _ :: _ :: start :: nv :: rest =>
    let rest2 := rest.drop (nv.toNat?.getD 0)
    let no := (rest2.headD "0").toNat?.getD 0
    let ops := (rest2.drop 1).take no
    let c := ColIter.new blocks (defaultItem b.kind) (start.toNat?.getD 0)
    let outs := runProgram b.ty (b.ncells + 8) c ops
    b.head ++ (if outs.isEmpty then "" else " " ++ " ".intercalate outs)
  | _, _ => b.head ++ b.tail

def tokens (line : String) : List String :=
  let body := (line.splitOn " #").headD ""
  (body.trimAscii.toString.splitOn " ").filter (· != "")

/-- consecutive requests on the same array reuse the built column -/
partial def loop (h : IO.FS.Stream) (lastKey : String) (last : Option Built) : IO Unit := do
  let line ← h.getLine
  if line.isEmpty then return ()
  if line.trimAscii.toString.isEmpty || line.startsWith "#" then loop h lastKey last
  else
    let t := tokens line
    -- types without a byte model: the implementation is checked against the read-back oracle only
    if ["dec", "ts", "tstz", "vec"].contains (t.getD 1 "") then
      IO.println "unmodelled"
      loop h lastKey last
      return
    let key := buildKey t
    let b := if key == lastKey && last.isSome then last else build t
    match b with
    | none => IO.println "bad-request"
    | some b => IO.println (readPart b t)
    loop h key b

def main : IO Unit := do loop (← IO.getStdin) "" none
