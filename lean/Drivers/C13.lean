import RlModel.Model.ScanDriver
/-! Driver of property C13 (key-range scans): same executable model and protocol as C12; the C13
check sends range predicates and storage-level scan requests. -/
def main : IO Unit := do RlModel.ScanDriver.loop (← IO.getStdin)
