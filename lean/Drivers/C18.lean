import RlModel.Model.Crc
import RlModel.Model.Sexp
open RlModel

/-! Line-protocol driver for C18 (same request/answer format as harness/src/bin/c18.rs). -/

def hexBytes (s : String) : Bytes := if s == "-" then [] else (bytesOfHex s.toList).getD []

def parseEntries (s : String) : List (Nat × Nat) :=
  (s.splitOn ";").filterMap fun e =>
    match e.splitOn "," with
    | [a, b] => some (a.toNat?.getD 0, b.toNat?.getD 0)
    | _ => none

def setAt (bs : Bytes) (p : Nat) (v : UInt8) : Bytes :=
  if p < bs.length then bs.take p ++ [v] ++ bs.drop (p + 1) else bs

def zeroRange (bs : Bytes) (a b : Nat) : Bytes :=
  bs.take a ++ List.replicate (b - a) 0 ++ bs.drop b

def applyPatch (bs : Bytes) (patch : String) (entries : List (Nat × Nat)) : Bytes :=
  let n := bs.length
  match patch.splitOn ":" with
  | ["none"] => bs
  | ["flip", p, b] =>
    let p := p.toNat?.getD 0
    setAt bs p ((bs.getD p 0) ^^^ (UInt8.ofNat (2 ^ (b.toNat?.getD 0))))
  | ["set", p, v] => setAt bs (p.toNat?.getD 0) (UInt8.ofNat (v.toNat?.getD 0))
  | ["trunc", l] => bs.take (l.toNat?.getD 0)
  | ["ck0", b] =>
    let (off, len) := entries.getD (b.toNat?.getD 0) (0, 0)
    zeroRange bs (off + len - 12) (off + len - 8)
  | ["zero12", b, p, v] =>
    let (off, len) := entries.getD (b.toNat?.getD 0) (0, 0)
    setAt (zeroRange bs (off + len - 12) (off + len)) (off + p.toNat?.getD 0) (UInt8.ofNat (v.toNat?.getD 0))
  | ["settype", b, v] =>
    let (off, len) := entries.getD (b.toNat?.getD 0) (0, 0)
    bs.take (off + len - 16) ++ beBytes 4 (v.toNat?.getD 0) ++ bs.drop (off + len - 12)
  | ["cnt", v] => bs.take (n - 20) ++ beBytes 8 (v.toNat?.getD 0) ++ bs.drop (n - 12)
  | ["zero12i", p, v] => setAt (zeroRange bs (n - 12) n) (p.toNat?.getD 0) (UInt8.ofNat (v.toNat?.getD 0))
  | _ => bs

def fmtRead : Except ReadErr (Nat × Bytes) → String
  | .ok (t, p) => "ok:" ++ toString t ++ ":" ++ hexOfBytes p
  | .error .checksum => "err:checksum"
  | .error .decode => "err:decode"
  | .error .io => "err:io"

def runSeq (pristine : Bytes) (entries : List (Nat × Nat)) (patch : String) :
    List String → Bytes → BlockCache → List String
  | [], _, _ => []
  | op :: ops, file, cache =>
    if op == "C" then runSeq pristine entries patch ops (applyPatch file patch entries) cache
    else if op == "F" then runSeq pristine entries patch ops file {}
    else if op.startsWith "g" then
      let b := (op.drop 1).toString.toNat?.getD 0
      let (off, len) := entries.getD b (0, 0)
      let (cache', r) := getBlock cache file b off len
      fmtRead r :: runSeq pristine entries patch ops file cache'
    else ["bad-op"]

def answer (line : String) : String :=
  match (line.trimAscii.toString.splitOn " ").filter (· != "") with
  | ["crc", h] => toString (crc32 (hexBytes h))
  | ["idx", h, patch] =>
    let orig := hexBytes h
    let bs := applyPatch orig patch []
    match openIndex bs with
    | .error .checksum => "err:checksum"
    | .error _ => "err:decode"
    | .ok (count, body) =>
      let origBody := orig.take (orig.length - 24)
      if body != origBody then "accepted-altered" else "ok:" ++ toString count
  | "col" :: h :: ents :: patch :: seq =>
    let pristine := hexBytes h
    let entries := parseEntries ents
    " ".intercalate (runSeq pristine entries patch seq pristine {})
  | _ => "bad-request"

partial def loop (h : IO.FS.Stream) : IO Unit := do
  let line ← h.getLine
  if line.isEmpty then return ()
  if line.trimAscii.toString.isEmpty || line.startsWith "#" then loop h
  else
    IO.println (answer line)
    loop h

def main : IO Unit := do loop (← IO.getStdin)
