import RlModel.Gen.Rules
/-! C01 model driver.  Requests (one per line):
  `cex <inst>`               → `;`-separated counterexamples of the instantiation over the small
                               search domain, or `none`
  `eval <inst> v1 v2 …`      → `<cond 0|1> <lhs value> <rhs value>` as the model evaluates them
Values: `null`, `n:<int>`, `b:true|false`, `s:<text without spaces>`. -/
open RlModel RlModel.Gen

def answer (line : String) : String :=
  match line.trimAscii.toString.splitOn " " with
  | "cex" :: [inst] =>
    match cexTable.lookup inst with
    | some f => match f () with
      | [] => "none"
      | cs => ";".intercalate cs
    | none => "unknown-inst"
  | "eval" :: inst :: args =>
    match evalTable.lookup inst with
    | some f => match f args with
      | some r => r
      | none => "bad-args"
    | none => "unknown-inst"
  | _ => "bad-request"

partial def loop (h : IO.FS.Stream) : IO Unit := do
  let line ← h.getLine
  if line.isEmpty then return ()
  IO.println (answer line)
  loop h

def main : IO Unit := do loop (← IO.getStdin)
