import RlModel.Model.Val
open RlModel

partial def loop (h : IO.FS.Stream) : IO Unit := do
  let line ← h.getLine
  if line.isEmpty then return ()
  match Sexp.parse line.trimAscii.toString with
  | some s => IO.println (toString s)
  | none => IO.println "bad-request"
  loop h

def main : IO Unit := do loop (← IO.getStdin)
