import RlModel.Model.ScanDriver
/-! Driver of property C12 (ORDER BY / LIMIT / OFFSET on every storage layout): runs the
executable model of `RlModel/Model/Scan.lean` on one case per line (protocol in ScanDriver). -/
def main : IO Unit := do RlModel.ScanDriver.loop (← IO.getStdin)
