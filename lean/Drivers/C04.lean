import RlModel.Model.Sexp
import RlModel.Model.StoreCrash
/-!
C04 driver.  One workload per line: `(op op …)` with
  op ::= (create <t> <ncols>) | (drop <t>) | (insert <t> (v v …) …) | (delete <t> ge|lt|eq|all <k>) | (reopen)

Answer (several lines per workload, terminated by `E`), statement index `i` = -1 for the
initial bootstrap:
  S <i> <step>;<step>;…                      the statement's persistence steps
  V <i> <k> at <verdict> <orph> <rr>          crash after k complete steps
  P <i> <k> part <verdict> <orph> <rr>        … and a partial data-file write of step k+1
  C <i> <k> <c> <verdict> <orph> <rr>         … and c complete records of the append of step k+1
  T <i> <k> <verdict>                         … and a torn record
  K <i> <continuation from the pre-state> ## <… from the post-state>   (compaction / DROP only)
  L <i> same|lost                             the acknowledged state after statement i, with the last (un-fsynced) rename lost
verdict ::= pre | post | pre=post | other | open-fails:<reason>
orph ::= 0 | 1   (an unreferenced delete-vector file survives recovery)
rr ::= same | diff | -   (every crash inside that recovery, recovered again, gives the same content)
-/
open RlModel RlModel.Crash

def nat? (s : Sexp) : Option Nat := s.atom?.bind String.toNat?
def int? (s : Sexp) : Option Int := s.atom?.bind String.toInt?

def op? (s : Sexp) : Option Op :=
  match s with
  | .list [.atom "create", .atom t, n] => (nat? n).map (Op.create t)
  | .list [.atom "drop", .atom t] => some (Op.drop t)
  | .list (.atom "insert" :: .atom t :: rows) =>
    (rows.mapM fun (r : Sexp) => match r with | Sexp.list vs => vs.mapM int? | _ => none).map (Op.insert t)
  | .list [.atom "delete", .atom t, .atom c, k] =>
    let c? : Option Cmp := match c with | "ge" => some .ge | "lt" => some .lt | "eq" => some .eq | "all" => some .all | _ => none
    match c?, int? k with
    | some c, some k => some (Op.delete t c k)
    | _, _ => none
  | .list [.atom "reopen"] => some Op.reopen
  | .list [.atom "vacuum"] => some Op.vacuum
  | .list [.atom "compact", .atom t] => some (Op.compact t)
  | _ => none

def recStr : Rec → String
  | .begin => "begin" | .fin => "end"
  | .createTable n _ => s!"createtable:{n}"
  | .dropTable t => s!"droptable:{t}"
  | .addRowSet t r => s!"addrowset:{t}:{r}"
  | .deleteRowSet t r => s!"deleterowset:{t}:{r}"
  | .addDV t r d => s!"adddv:{t}:{r}:{d}"
  | .deleteDV t r d => s!"deletedv:{t}:{r}:{d}"

def recsStr (rs : List Rec) : String := ",".intercalate (rs.map recStr)

def stepStr : PStep → String
  | .mkdirDb => "mkdir ."
  | .mkdirDv => "mkdir dv"
  | .createManifest => "create manifest.json"
  | .mkdir t r _ _ => s!"mkdir {t}_{r}"
  | .writeFile t r i => s!"create {t}_{r}/{i / 2}.{if i % 2 == 0 then "col" else "idx"}"
  | .writeDv t r d _ => s!"create dv/{t}_{r}_{d}.dv"
  | .appendManifest rs => s!"append manifest.json {recsStr rs}"
  | .createTmp => "create manifest.tmp.json"
  | .appendTmp rs => s!"append manifest.tmp.json {recsStr rs}"
  | .renameTmp => "rename manifest.tmp.json manifest.json"
  | .rmdir t r => s!"rmdir {t}_{r}"
  | .rmdv t r d => s!"unlink dv/{t}_{r}_{d}.dv"
  | .syncDir => "syncdir"

abbrev AbsT := List (String × List (List Int))

def sortRows (a : AbsT) : AbsT :=
  sortBy (fun x y => decide (x.1 < y.1)) (a.map fun (n, rows) => (n, sortBy (fun x y => decide (x < y)) rows))

def verdictOf (pre : Option AbsT) (post : AbsT) (r : Except String State) : String :=
  match r with
  | .error e => s!"open-fails:{e}"
  | .ok s =>
    let a := sortRows (abs s.disk s.mem)
    let post := sortRows post
    match pre with
    | none => if a == post then "post" else "other"
    | some pre =>
      let pre := sortRows pre
      if pre == post then (if a == pre then "pre=post" else "other")
      else if a == pre then "pre" else if a == post then "post" else "other"

def orphStr (r : Except String State) : String :=
  match r with
  | .ok s => if s.disk.dvfiles.any (fun f => !s.mem.dvs.contains (f.t, f.r, f.d)) then "1" else "0"
  | .error _ => "-"

/-- crash inside the recovery of `d` at every step / record cut, recover again, compare. -/
def recrash (d : Disk) (r : Except String State) : String :=
  match r, view d with
  | .ok s, .ok v =>
    let steps := recoverSteps d v
    let base := sortRows (abs s.disk s.mem)
    let images : List Disk :=
      (List.range (steps.length + 1)).flatMap fun k =>
        [crash d steps k none] ++
        (match steps[k]? with
          | some (.appendTmp rs) => (List.range rs.length).flatMap fun c =>
              [crash d steps k (some (.recs c false)), crash d steps k (some (.recs c true))]
          | _ => [])
    if images.all (fun img => match recover img with
        | .ok s2 => sortRows (abs s2.disk s2.mem) == base
        | .error _ => false) then "same" else "diff"
  | _, _ => "-"

def dumpStr (s : State) : String :=
  ";".intercalate ((sortRows (abs s.disk s.mem)).map fun (n, rows) =>
    s!"{n}=[{"|".intercalate (rows.map fun r => ",".intercalate (r.map toString))}]")

/-- The continuation the harness runs after recovering a crash image inside a compaction / DROP:
reopen, reopen again, INSERT, DELETE, reopen, DROP, reopen — a dump after every step. -/
def contSeq (s : State) : String :=
  let reopen (x : State) : Option State := match recover x.disk with | .ok y => some y | .error _ => none
  match reopen s with
  | none => "open1:err:"
  | some s1 =>
    let t? := (sortRows (abs s1.disk s1.mem)).head?.map (·.1)
    match reopen s1 with
    | none => s!"open1:ok:{dumpStr s1} / open2:err:"
    | some s2 =>
      match t? with
      | none =>
        match reopen s2 with
        | none => s!"open1:ok:{dumpStr s1} / open2:ok:{dumpStr s2} / open3:err:"
        | some s3 =>
          match reopen s3 with
          | none => s!"open1:ok:{dumpStr s1} / open2:ok:{dumpStr s2} / open3:ok:{dumpStr s3} / open4:err:"
          | some s4 => s!"open1:ok:{dumpStr s1} / open2:ok:{dumpStr s2} / open3:ok:{dumpStr s3} / open4:ok:{dumpStr s4}"
      | some t =>
        let s3 := step s2 (.insert t [[9001, 1], [9002, 2]])
        let s4 := step s3 (.delete t .eq 9001)
        match reopen s4 with
        | none => s!"open1:ok:{dumpStr s1} / open2:ok:{dumpStr s2} / insert:ok:{dumpStr s3} / delete:ok:{dumpStr s4} / open3:err:"
        | some s5 =>
          let s6 := step s5 (.drop t)
          let tail := match reopen s6 with
            | none => "open4:err:"
            | some s7 => s!"open4:ok:{dumpStr s7}"
          s!"open1:ok:{dumpStr s1} / open2:ok:{dumpStr s2} / insert:ok:{dumpStr s3} / delete:ok:{dumpStr s4} / open3:ok:{dumpStr s5} / drop:ok:{dumpStr s6} / {tail}"

def line (tag : String) (i : Int) (k : Nat) (extra : String) (pre : Option AbsT) (post : AbsT) (d : Disk) : String :=
  let r := recover d
  s!"{tag} {i} {k} {extra}{verdictOf pre post r} {orphStr r} {recrash d r}"

def crashLines (i : Int) (d : Disk) (steps : List PStep) (pre : Option AbsT) (post : AbsT) : List String :=
  (List.range (steps.length + 1)).flatMap fun k =>
    [line "V" i k "at " pre post (crash d steps k none)] ++
    (match steps[k]? with
      | some (.writeFile ..) | some (.writeDv ..) => [line "P" i k "part " pre post (crash d steps k (some .part))]
      | some (.appendManifest rs) | some (.appendTmp rs) =>
        (List.range rs.length).map (fun c => line "C" i k s!"{c} " pre post (crash d steps k (some (.recs c false)))) ++
        [s!"T {i} {k} {verdictOf pre post (recover (crash d steps k (some (.recs 0 true))))}"]
      | _ => [])

def answer (lineIn : String) : List String :=
  match Sexp.parse lineIn with
  | some (.list opsS) =>
    match opsS.mapM op? with
    | none => ["bad-request", "E"]
    | some ops =>
      -- bootstrap of the empty directory
      match view Disk.empty with
      | .error _ => ["bad-model", "E"]
      | .ok v0 =>
        let bootSteps := recoverSteps Disk.empty v0
        let s0 : State := { disk := Disk.empty.applyAll bootSteps, mem := v0 }
        let first := [s!"S -1 {";".intercalate (bootSteps.map stepStr)}"] ++
          crashLines (-1) Disk.empty bootSteps none (abs s0.disk s0.mem)
        let rec go (s : State) (i : Nat) : List Op → List String
          | [] => []
          | op :: rest =>
            let steps := psteps s op
            let s' := step s op
            let lost := match recover (loseRename s'.disk) with
              | .ok s2 => if sortRows (abs s2.disk s2.mem) == sortRows (abs s'.disk s'.mem) then "same" else "lost"
              | .error e => s!"open-fails:{e}"
            [s!"S {i} {";".intercalate (steps.map stepStr)}"] ++
              crashLines i s.disk steps (some (abs s.disk s.mem)) (abs s'.disk s'.mem) ++
              [s!"L {i} {lost}"] ++
              (match op with
                | .compact _ | .drop _ => [s!"K {i} {contSeq s} ## {contSeq s'}"]
                | _ => []) ++
              go s' (i + 1) rest
        first ++ go s0 0 ops ++ ["E"]
  | _ => ["bad-request", "E"]

partial def loop (h : IO.FS.Stream) : IO Unit := do
  let l ← h.getLine
  if l.isEmpty then return ()
  for o in answer l.trimAscii.toString do IO.println o
  loop h

def main : IO Unit := do loop (← IO.getStdin)
