import RlModel.Model.Value19
import RlModel.Model.Text
/-!
Line-protocol driver for C19: runs the SAME definitions the theorems of `Thm/C19.lean` are about.

requests (one per line, space separated; values in the wire format of `harness/src/bin/c19.rs`):
  cmp3 a b c      → six orderings (ab ba bc cb ac ca) three eq flags (ab bc ac) three hash streams
  disp T v        → `ok:<hex text> <parse answer>` | `panic` | `unmodelled`
  parse T hex     → `ok:<value>` | `err` | `panic` | `unmodelled`
  sql T v1 … vn   → `rank:…;lt:…;eq:…` dense cmp-ranks, and the pairs the SQL kernels `<`, `=` select
-/
open RlModel RlModel.V19

def hexNat (s : String) : Option Nat :=
  s.toList.foldl (fun acc c => match acc, hexVal c with
    | some a, some d => some (a * 16 + d)
    | _, _ => none) (some 0)

def bytesOfHexStr (s : String) : Option (List UInt8) :=
  if s == "-" then some [] else bytesOfHex s.toList

def hexOrDash (b : List UInt8) : String := if b.isEmpty then "-" else hexOfBytes b

def parseVal (t : String) : Option DV :=
  if t == "null" then some .null
  else match t.splitOn ":" with
  | ["b", "true"] => some (.bool true)
  | ["b", "false"] => some (.bool false)
  | ["i16", n] => n.toInt?.map .i16
  | ["i32", n] => n.toInt?.map .i32
  | ["i64", n] => n.toInt?.map .i64
  | ["f64", h] => (hexNat h).map fun n => .f64 (UInt64.ofNat n)
  | ["s", h] => (bytesOfHexStr h).map .str
  | ["blob", h] => (bytesOfHexStr h).map .blob
  | ["dec", neg, m, sc] =>
    match m.toNat?, sc.toNat? with
    | some m, some sc => if h : sc < 29 then some (.dec ⟨neg == "1", m, ⟨sc, h⟩⟩) else none
    | _, _ => none
  | ["date", n] => n.toInt?.map .date
  | ["ts", n] => n.toInt?.map .ts
  | ["tstz", n] => n.toInt?.map .tstz
  | ["iv", a, b, c] =>
    match a.toInt?, b.toInt?, c.toInt? with
    | some a, some b, some c => some (.interval a b c)
    | _, _, _ => none
  | ["vec", body] =>
    if body.isEmpty then some (.vec [])
    else (body.splitOn ",").foldr (fun h acc => match hexNat h, acc with
      | some n, some (.vec xs) => some (.vec (UInt64.ofNat n :: xs))
      | _, _ => none) (some (.vec []))
  | _ => none

def hexPad16 (n : Nat) : String :=
  let s := hexOfBytes ((leBytes 8 n).reverse)
  s

def showVal : DV → String
  | .null => "null"
  | .bool b => if b then "b:true" else "b:false"
  | .i16 v => s!"i16:{v}"
  | .i32 v => s!"i32:{v}"
  | .i64 v => s!"i64:{v}"
  | .f64 b => "f64:" ++ hexPad16 b.toNat
  | .str s => "s:" ++ hexOfBytes s
  | .blob s => "blob:" ++ hexOfBytes s
  | .dec d => s!"dec:{if d.neg then 1 else 0}:{d.m}:{d.scale.val}"
  | .date v => s!"date:{v}"
  | .ts v => s!"ts:{v}"
  | .tstz v => s!"tstz:{v}"
  | .interval a b c => s!"iv:{a}:{b}:{c}"
  | .vec xs => "vec:" ++ ",".intercalate (xs.map fun b => hexPad16 b.toNat)

def showOrd : Ordering → String
  | .lt => "lt" | .eq => "eq" | .gt => "gt"

/-- display of a value of type tag `ty`; `none` = not modelled (f64, dec, vec) -/
def displayOf (ty : String) (v : DV) : Option (Out Bytes) :=
  match ty, v with
  | "bool", .bool b => some (.ok (displayBool b))
  | "i16", .i16 x => some (.ok (intDigits x))
  | "i32", .i32 x => some (.ok (intDigits x))
  | "i64", .i64 x => some (.ok (intDigits x))
  | "str", .str s => some (.ok s)
  | "blob", .blob b => some (.ok (displayBlob b))
  | "date", .date d => some (displayDate d)
  | "ts", .ts t => some (displayTimestamp t)
  | "tstz", .tstz t => some (displayTimestampTz t)
  | "iv", .interval a b c => some (.ok (displayInterval a b c))
  | "f64", .f64 b => (displayF64? b).map .ok
  | _, _ => none

def mapOut {α β} (f : α → β) : Out α → Out β
  | .ok v => .ok (f v)
  | .err => .err
  | .panic => .panic

/-- `FromStr` of type tag `ty` (what `push_str` / cast-from-string call, for a non-empty text) -/
def parseOf (ty : String) (t : Bytes) : Option (Out DV) :=
  match ty with
  | "bool" => some (mapOut DV.bool (parseBool t))
  | "i16" => some (mapOut DV.i16 (parseIntRange i16Lo i16Hi t))
  | "i32" => some (mapOut DV.i32 (parseIntRange i32Lo i32Hi t))
  | "i64" => some (mapOut DV.i64 (parseIntRange i64Lo i64Hi t))
  | "str" => some (.ok (.str t))
  | "blob" => some (mapOut DV.blob (parseBlobText t))
  | "date" => some (mapOut DV.date (parseDate t))
  | "ts" => (parseTimestamp t).map (mapOut DV.ts)
  | "tstz" => (parseTimestampTz t).map (mapOut DV.tstz)
  | "f64" => (parseF64? t).map (mapOut DV.f64)
  | "iv" => some (mapOut (fun p => DV.interval p.1 p.2.1 p.2.2) (parseInterval t))
  | _ => none

def tsWhy (t : Int) : String :=
  if !tsPrintable t then "ts-range"
  else if (civilFromDays ((t - thirtyYearsUs) / 86400000000)).1 = chronoMinYear then "ts-first-year"
  else "?"

/-- why the model expects `parse (display v)` not to return `v` (reason tag → signature) -/
def whyTag : DV → String
  | .ts t => tsWhy t
  | .tstz t => tsWhy t
  | .date d => if dateInRange d then "?" else "date-range"
  | _ => "?"

def showOutVal : Option (Out DV) → String
  | none => "unmodelled"
  | some (.ok v) => "ok:" ++ showVal v
  | some .err => "err"
  | some .panic => "panic"

/-- dense rank of each element under `cmp` -/
def denseRanks (vs : List DV) : List Nat :=
  vs.map fun v => ((vs.filter fun w => DV.cmp w v == .lt).map DV.key).eraseDups.length

def pairsWhere (vs : List (Option DV)) (ty : DV) (op : CmpOp) : String :=
  let idx := List.range vs.length
  let ps := idx.flatMap fun i => idx.filterMap fun j =>
    match vs[i]?, vs[j]? with
    | some a, some b =>
      match sqlCmpOp op ty ty a b with
      | some (some true) => some s!"{i}-{j}"
      | _ => none
    | _, _ => none
  ",".intercalate ps

/-- the six kernels on all pairs (i, j): one char per pair, `t`/`f`/`n` (NULL) -/
def kernelMatrix (cells : List (Option DV)) (rep : DV) : String :=
  let one (op : CmpOp) : String :=
    match kernelOrd rep rep with
    | none => "none"
    | some _ => String.ofList (cells.flatMap fun a => cells.map fun b =>
        match sqlCmpOp op rep rep a b with
        | some (some true) => 't'
        | some (some false) => 'f'
        | some none => 'n'
        | none => '?')
  ",".intercalate ([CmpOp.eq, .ne, .gt, .lt, .ge, .le].map one)

def answer (line : String) : String :=
  match line.trimAscii.toString.splitOn " " with
  | ["cmp3", a, b, c] =>
    match parseVal a, parseVal b, parseVal c with
    | some a, some b, some c =>
      " ".intercalate
        ([DV.cmp a b, DV.cmp b a, DV.cmp b c, DV.cmp c b, DV.cmp a c, DV.cmp c a].map showOrd ++
         [DV.eq a b, DV.eq b c, DV.eq a c].map (fun x => if x then "true" else "false") ++
         [a, b, c].map fun v => hexOfBytes v.hashKey)
    | _, _, _ => "bad-request"
  | ["disp", ty, v] =>
    match parseVal v with
    | some v =>
      match displayOf ty v with
      | none => "unmodelled"
      | some (.ok t) =>
        let p := parseOf ty t
        let rt := match p with | some (.ok w) => DV.eq w v | _ => false
        "ok:" ++ hexOrDash t ++ " " ++ showOutVal p ++
          (if p.isNone then "" else if rt then " rt:true" else " rt:false why:" ++ whyTag v)
      | some .err => "err"
      | some .panic => "panic why:" ++ whyTag v
    | none => "bad-request"
  | ["parse", ty, h] =>
    match bytesOfHexStr h with
    | some t => showOutVal (parseOf ty t)
    | none => "bad-request"
  | "disk" :: _ty :: vals =>
    -- storage sort order: only the dense cmp-ranks are needed
    let vs := vals.map parseVal
    if vs.any Option.isNone then "bad-request"
    else "rank:" ++ ",".intercalate ((denseRanks (vs.filterMap id)).map toString)
  | "sql" :: _ty :: vals =>
    let vs := vals.map parseVal
    if vs.any Option.isNone then "bad-request"
    else
      let vs := vs.filterMap id
      -- a non-null representative selects the kernel arm
      match vs.find? (fun v => !v.isNull) with
      | none => "rank:" ++ ",".intercalate ((denseRanks vs).map toString) ++ ";lt:;eq:;kernel:none;kern:none"
      | some rep =>
        let cells : List (Option DV) := vs.map fun v => if v.isNull then none else some v
        let hasKernel := (kernelOrd rep rep).isSome
        "rank:" ++ ",".intercalate ((denseRanks vs).map toString) ++
        ";lt:" ++ pairsWhere cells rep .lt ++ ";eq:" ++ pairsWhere cells rep .eq ++
        ";kernel:" ++ (if hasKernel then "yes" else "none") ++ ";kern:" ++ kernelMatrix cells rep
  | _ => "bad-request"

partial def loop (h : IO.FS.Stream) : IO Unit := do
  let line ← h.getLine
  if line.isEmpty then return ()
  IO.println (answer line)
  loop h

def main : IO Unit := do loop (← IO.getStdin)
