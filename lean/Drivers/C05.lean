import RlModel.Model.StoreIO
open RlModel

/-- drv_c05: one annotated history per line; per step the disk model's, the memory model's and the
specification's tables (see harness/src/store_common.rs). -/
partial def loop (h : IO.FS.Stream) : IO Unit := do
  let line ← h.getLine
  if line.isEmpty then return ()
  if line.trimAscii.toString.isEmpty then loop h else
  for l in StoreIO.answerBoth line do
    IO.println l
  loop h

def main : IO Unit := do loop (← IO.getStdin)
