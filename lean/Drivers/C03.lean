import RlModel.Model.StoreIO
open RlModel

/-- drv_c03: one annotated history per input line (see harness/src/store_common.rs); prints one
observation line per step, in the format the Rust harness uses for the implementation. -/
partial def loop (h : IO.FS.Stream) : IO Unit := do
  let line ← h.getLine
  if line.isEmpty then return ()
  if line.trimAscii.toString.isEmpty then loop h else
  for l in StoreIO.answerHist line do
    IO.println l
  loop h

def main : IO Unit := do loop (← IO.getStdin)
