import RlModel.Model.StoreConcIO
open RlModel

/-- stdin: one `(trace ...)` line (produced by the harness from the real implementation) per
case; stdout: the model's replay of the same events, one `(model ...)` line per case. -/
partial def loop (h : IO.FS.Stream) : IO Unit := do
  let line ← h.getLine
  if line.isEmpty then return ()
  let l := line.trimAscii.toString
  if !l.isEmpty then IO.println (SC.answerTrace l)
  loop h

def main : IO Unit := do loop (← IO.getStdin)
