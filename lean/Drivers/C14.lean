import RlModel.Model.KernelFold
import RlModel.Model.Type
open RlModel

/-!
Line protocol of the C14 correspondence run (same request file as harness/src/bin/c14.rs):

  request : `(k <n> <expr> <arr>*)` | `(e <n> <expr> <arr>*)`       n = cardinality
            `(ks <off> <n> <expr> <arr>*)` | `(el <off> <n> <expr> <arr>*)`  the same on arrays obtained by
            `slice(off..off+n)` of longer arrays / below `LIMIT n OFFSET off`
  arr     : `(i16|i32|i64 <slot>*)` | `(bool <slot>*)` | `(str <slot>*)` | `(null <len>)`
  slot    : `v<raw>` (valid) | `n<raw>` (NULL, raw value still stored); raw: integer, t/f, hex
  expr    : `#i` | `null` | `b:true` | `i32:5` | `s:<hex>` | `(+ a b)` `(- a b)` `(* a b)` `(/ a b)`
            `(% a b)` `(= a b)` `(<> a b)` `(> a b)` `(< a b)` `(>= a b)` `(<= a b)` `(and a b)`
            `(or a b)` `(not a)` `(neg a)` `(isnull a)` `(if c t e)` `(in x (list a …))`
            `(cast BOOLEAN|SMALLINT|INT|BIGINT|STRING a)` `(|| a b)` `(like a s:<hex>)`
            `(substring s b c)` `(replace a s:<hex> s:<hex>)` `(repeat s n)`
  answer  : `<model outcome> ;; <spec outcome> ;; <tag>* ;; <tag of the clean single-row evaluations>*`
            outcome = `ok <arr>` | `err` | `panic`; the spec's arrays carry no raw under NULL.
-/

def parseTy (s : String) : Option Ty :=
  if s == "BOOLEAN" then some .bool
  else if s == "SMALLINT" then some (.int .w16)
  else if s == "INT" then some (.int .w32)
  else if s == "BIGINT" then some (.int .w64)
  else if s == "STRING" then some .str
  else none

def strOfHex (h : String) : Option String := do
  let bs ← bytesOfHex h.toList
  String.fromUTF8? (ByteArray.mk bs.toArray)

def parseSlot {α} (raw : String → Option α) (t : String) : Option (Slot α) :=
  match t.toList with
  | 'v' :: rest => (raw (String.ofList rest)).map fun r => ⟨true, r⟩
  | 'n' :: rest => (raw (String.ofList rest)).map fun r => ⟨false, r⟩
  | _ => none

def parseBoolRaw (s : String) : Option Bool :=
  if s == "t" then some true else if s == "f" then some false else none

def parseSlots {α} (raw : String → Option α) : List Sexp → Option (Arr α)
  | [] => some []
  | .atom t :: rest => do
    let s ← parseSlot raw t
    let r ← parseSlots raw rest
    pure (s :: r)
  | _ => none

def parseArr : Sexp → Option Col
  | .list (.atom "null" :: [.atom n]) => n.toNat?.map Col.null
  | .list (.atom "bool" :: slots) => (parseSlots parseBoolRaw slots).map Col.bool
  | .list (.atom "i16" :: slots) => (parseSlots String.toInt? slots).map (Col.int .w16)
  | .list (.atom "i32" :: slots) => (parseSlots String.toInt? slots).map (Col.int .w32)
  | .list (.atom "i64" :: slots) => (parseSlots String.toInt? slots).map (Col.int .w64)
  | .list (.atom "str" :: slots) => (parseSlots strOfHex slots).map Col.str
  | _ => none

def parseConst (t : String) : Option KVal :=
  if t == "null" then some .null
  else if t == "b:true" then some (.bool true)
  else if t == "b:false" then some (.bool false)
  else if t.startsWith "i16:" then ((t.drop 4).toString.toInt?).map (.int .w16)
  else if t.startsWith "i32:" then ((t.drop 4).toString.toInt?).map (.int .w32)
  else if t.startsWith "i64:" then ((t.drop 4).toString.toInt?).map (.int .w64)
  else if t.startsWith "s:" then (strOfHex (t.drop 2).toString).map .str
  else none

def arithOfName (s : String) : Option ArithOp :=
  if s == "+" then some .add else if s == "-" then some .sub else if s == "*" then some .mul
  else if s == "/" then some .div else if s == "%" then some .rem else none

def cmpOfName (s : String) : Option CmpOp :=
  if s == "=" then some .eq else if s == "<>" then some .ne else if s == ">" then some .gt
  else if s == "<" then some .lt else if s == ">=" then some .ge else if s == "<=" then some .le
  else none

mutual
  partial def parseExpr : Sexp → Option KExpr
    | .atom t =>
      if t.startsWith "#" then ((t.drop 1).toString.toNat?).map KExpr.col
      else (parseConst t).map KExpr.const
    | .list [.atom "not", a] => (parseExpr a).map .not
    | .list [.atom "neg", a] => (parseExpr a).map .neg
    | .list [.atom "isnull", a] => (parseExpr a).map .isnull
    | .list [.atom "and", a, b] => do pure (.and (← parseExpr a) (← parseExpr b))
    | .list [.atom "or", a, b] => do pure (.or (← parseExpr a) (← parseExpr b))
    | .list [.atom "||", a, b] => do pure (.concat (← parseExpr a) (← parseExpr b))
    | .list [.atom "if", c, t, e] => do pure (.ite (← parseExpr c) (← parseExpr t) (← parseExpr e))
    | .list [.atom "cast", .atom ty, a] => do pure (.cast (← parseTy ty) (← parseExpr a))
    | .list [.atom "like", a, .atom p] => do
      match parseConst p with
      | some (.str pat) => pure (.like (← parseExpr a) pat)
      | _ => none
    | .list [.atom "replace", a, .atom f, .atom t] => do
      match parseConst f, parseConst t with
      | some (.str f), some (.str t) => pure (.replace (← parseExpr a) f t)
      | _, _ => none
    | .list [.atom "substring", a, b, c] => do
      pure (.substring (← parseExpr a) (← parseExpr b) (← parseExpr c))
    | .list [.atom "repeat", a, b] => do pure (.repeat_ (← parseExpr a) (← parseExpr b))
    | .list [.atom "in", x, .list (.atom "list" :: v :: vs)] => do
      -- `in_ = x.eq(v0); for v in rest { in_ = in_.or(x.eq(v)) }`
      let x ← parseExpr x
      let v0 ← parseExpr v
      let rest ← parseExprs vs
      pure (rest.foldl (fun acc e => KExpr.or acc (.cmp .eq x e)) (.cmp .eq x v0))
    | .list [.atom op, a, b] => do
      let a ← parseExpr a
      let b ← parseExpr b
      match arithOfName op with
      | some o => pure (.arith o a b)
      | none => match cmpOfName op with
        | some o => pure (.cmp o a b)
        | none => none
    | _ => none
  partial def parseExprs : List Sexp → Option (List KExpr)
    | [] => some []
    | x :: xs => do pure ((← parseExpr x) :: (← parseExprs xs))
end

def showBoolRaw (b : Bool) : String := if b then "t" else "f"

def showSlots {α} (raw : α → String) (withNullRaw : Bool) (a : Arr α) : String :=
  " ".intercalate (a.map fun s =>
    if s.valid then "v" ++ raw s.raw else if withNullRaw then "n" ++ raw s.raw else "n")

def showCol (withNullRaw : Bool) : Col → String
  | .null n => "(null " ++ toString n ++ ")"
  | .bool a => "(bool " ++ showSlots showBoolRaw withNullRaw a ++ ")"
  | .int w a => "(" ++ w.name ++ " " ++ showSlots (fun (x : Int) => toString x) withNullRaw a ++ ")"
  | .str a => "(str " ++ showSlots (fun (s : String) => hexOfBytes s.toUTF8.toList) withNullRaw a ++ ")"

def showOpts {α} (raw : α → String) (xs : List (Option α)) : String :=
  " ".intercalate (xs.map fun x => match x with | some r => "v" ++ raw r | none => "n")

def showSCol : SCol → String
  | .null n => "(null " ++ toString n ++ ")"
  | .bool xs => "(bool " ++ showOpts showBoolRaw xs ++ ")"
  | .int w xs => "(" ++ w.name ++ " " ++ showOpts (fun (x : Int) => toString x) xs ++ ")"
  | .str xs => "(str " ++ showOpts (fun (s : String) => hexOfBytes s.toUTF8.toList) xs ++ ")"

def showOut {α} (f : α → String) : KOut α → String
  | .ok a => "ok " ++ f a
  | .err => "err"
  | .panic => "panic"

def parseArrs : List Sexp → Option (List Col)
  | [] => some []
  | x :: xs => do pure ((← parseArr x) :: (← parseArrs xs))

/-- `InMemoryTxnIterator::next_batch`: `array.filter(visibility)`. -/
def scanCol : Col → Col
  | .str a => .str (a.map fun s => if s.valid then s else ⟨false, ""⟩)
  | c => c

/-- Row i of a chunk as a batch of one whose NULL slots carry the builder default raw value
(what the harness' row-at-a-time oracle evaluates). -/
def cleanSlot {α} (d : α) (a : Arr α) (i : Nat) : Arr α :=
  match a[i]? with
  | some s => [if s.valid then s else ⟨false, d⟩]
  | none => []

def cleanRow (chunk : List Col) (i : Nat) : List Col :=
  chunk.map fun c => match c with
    | .null _ => .null 1
    | .bool a => .bool (cleanSlot false a i)
    | .int w a => .int w (cleanSlot 0 a i)
    | .str a => .str (cleanSlot "" a i)

def showKVal : KVal → String
  | .null => "null"
  | .bool b => if b then "b:true" else "b:false"
  | .int w v => w.name ++ ":" ++ toString v
  | .str s => "s:" ++ hexOfBytes s.toUTF8.toList

/-- SQL's CASE evaluates only the branch it takes. The evaluator (and `evalK`, which transcribes it)
computes both branches on every row. `pruneCase` is the one-row constant expression with every CASE
whose condition can be computed replaced by the branch taken — an EXPLANATION device of the `(f …)`
stream (it tells "the error sits in a branch SQL never evaluates" from "the error is demanded"), not
part of the verified model. -/
def pruneCase : KExpr → KExpr
  | .ite c t e =>
    let c' := pruneCase c
    match (evalK [] 1 c').1 with
    | .ok cc => match cc.get0 with
      | .bool true => pruneCase t
      | .bool false => pruneCase e
      | .null => pruneCase e
      | _ => .ite c' (pruneCase t) (pruneCase e)
    | _ => .ite c' (pruneCase t) (pruneCase e)
  | .arith op a b => .arith op (pruneCase a) (pruneCase b)
  | .cmp op a b => .cmp op (pruneCase a) (pruneCase b)
  | .and a b => .and (pruneCase a) (pruneCase b)
  | .or a b => .or (pruneCase a) (pruneCase b)
  | .not a => .not (pruneCase a)
  | .neg a => .neg (pruneCase a)
  | .isnull a => .isnull (pruneCase a)
  | .cast t a => .cast t (pruneCase a)
  | .concat a b => .concat (pruneCase a) (pruneCase b)
  | .like a p => .like (pruneCase a) p
  | .substring a b c => .substring (pruneCase a) (pruneCase b) (pruneCase c)
  | .replace a f t => .replace (pruneCase a) f t
  | .repeat_ a k => .repeat_ (pruneCase a) (pruneCase k)
  | e => e

/-- `(f <expr>)`: `fold=<some v|none|panic> ;; rt=<ok v|err|panic> ;; <tags>` (tags: `illtyped`, `lazy:<v>`) -/
def answerFold (e : KExpr) : String :=
  let fold := match foldC e with
    | .ok (some v) => "some " ++ showKVal v
    | .ok none => "none"
    | .err => "err"
    | .panic => "panic"
  let (r, tags) := evalK [] 1 e
  let rt := match r with
    | .ok c => "ok " ++ showKVal c.get0
    | .err => "err"
    | .panic => "panic"
  -- `illtyped`: `analyze_type` rejects the expression (e.g. `'a' || NULL`, `- NULL`), so the binder
  -- never hands it to folding or to the evaluator; the two are then not compared
  let ftags := if (typeOf (toT [] e)).isNone then ["illtyped"] else []
  -- `lazy:<v>`: eager evaluation fails, evaluation with SQL's lazy CASE gives `v`
  let ltags := match r, (evalK [] 1 (pruneCase e)).1 with
    | .ok _, _ => []
    | _, .ok c => ["lazy:" ++ showKVal c.get0]
    | _, _ => []
  "fold=" ++ fold ++ " ;; rt=" ++ rt ++ " ;; " ++ " ".intercalate (ftags ++ ltags ++ tags).eraseDups

/-- `ArrayExt::slice` (what `DataChunk::slice`, i.e. LIMIT / OFFSET, applies to every column):
rebuilt with a builder from `get(i)`: validity kept, raw value under NULL = builder default. The
kernels' representation invariant (validity bitmap word-aligned at bit 0, one bit per raw slot) is
established by the builder; in the model an array IS its list of slots, so a sliced array is just
this cleaned list. -/
def sliceCol : Col → Col
  | .null n => .null n
  | .bool a => .bool (a.map fun s => if s.valid then s else ⟨false, false⟩)
  | .int w a => .int w (a.map fun s => if s.valid then s else ⟨false, 0⟩)
  | .str a => .str (a.map fun s => if s.valid then s else ⟨false, ""⟩)

def answerEval (kind : String) (sliced : Bool) (n : String) (e : Sexp) (arrs : List Sexp) : String :=
  match n.toNat?, parseExpr e, parseArrs arrs with
  | some n, some e, some chunk0 =>
    -- `e` requests go through the in-memory table scan, whose `VarArray::filter` rebuilds
    -- string arrays with a builder: raw bytes under NULL do not survive (primitive arrays
    -- keep theirs).
    let chunk1 := if kind == "e" then chunk0.map scanCol else chunk0
    let chunk := if sliced then chunk1.map sliceCol else chunk1
    let (r, tags) := evalK chunk n e
    let spec := specEval (chunk.map Col.abs) n e
    -- reason tags of the clean single-row evaluations (why the row oracle may differ)
    let otags := ((List.range n).map fun i => (evalK (cleanRow chunk i) 1 e).2).flatten.eraseDups
    showOut (showCol true) r ++ " ;; " ++ showOut showSCol spec ++ " ;; " ++ " ".intercalate tags.eraseDups
      ++ " ;; " ++ " ".intercalate otags
  | _, _, _ => "bad-request"

/-- `(fc <T> <operand|-> (whens (c r)*) <else|->)`: a searched (`-`) or simple CASE as written in the SQL
text, WHEN branches in source order; an untyped `null` result and a missing ELSE are NULLs of the
result type `T` (the binder's implicit cast). Answer: `answerFold` of the desugaring `caseOf`, plus
`first:<v>` = the scalar SQL value read off the text: the result of the FIRST branch whose condition
evaluates to TRUE (conditions and results evaluated one by one, not through the nested `if`s). -/
def answerCase (ty : String) (op : Sexp) (ws : List Sexp) (el : Sexp) : String :=
  let typedNull : Sexp := .list [.atom "cast", .atom ty, .atom "null"]
  let res (r : Sexp) : Sexp := match r with | .atom "null" => typedNull | .atom "-" => typedNull | r => r
  let cond (c : Sexp) : Sexp := match op with | .atom "-" => c | o => .list [.atom "=", o, c]
  let branches : Option (List (KExpr × KExpr)) := ws.mapM fun w => match w with
    | .list [c, r] => do pure (← parseExpr (cond c), ← parseExpr (res r))
    | _ => none
  match branches, parseExpr (res el) with
  | some bs, some e =>
    let val (x : KExpr) : Option KVal := match (evalK [] 1 x).1 with | .ok c => some c.get0 | _ => none
    -- first TRUE branch wins, computed branch by branch
    let rec first : List (KExpr × KExpr) → Option KVal
      | [] => val e
      | (c, r) :: rest => match val c with
        | some (.bool true) => val r
        | some _ => first rest
        | none => none
    let ftag := match first bs with | some v => " first:" ++ showKVal v | none => ""
    answerFold (caseOf bs e) ++ ftag
  | _, _ => "bad-request"

def answer (line : String) : String :=
  match Sexp.parse line with
  | some (.list [.atom "fc", .atom ty, op, .list (.atom "whens" :: ws), el]) => answerCase ty op ws el
  | some (.list [.atom "f", e]) =>
    match parseExpr e with
    | some e => answerFold e
    | none => "bad-request"
  | some (.list (.atom "ks" :: .atom _off :: .atom n :: e :: arrs)) => answerEval "k" true n e arrs
  | some (.list (.atom "el" :: .atom _off :: .atom n :: e :: arrs)) => answerEval "e" true n e arrs
  | some (.list (.atom kind :: .atom n :: e :: arrs)) =>
    if kind != "k" && kind != "e" then "bad-request" else answerEval kind false n e arrs
  | _ => "bad-request"

partial def loop (h : IO.FS.Stream) : IO Unit := do
  let line ← h.getLine
  if line.isEmpty then return ()
  if line.trimAscii.toString.isEmpty then loop h else
  IO.println (answer line)
  loop h

def main : IO Unit := do loop (← IO.getStdin)
