import RlModel.Model.Val
open RlModel

/-- request: `cmp <canon> <canon>`  answer: `lt|eq|gt` or `bad-request` -/
def answer (line : String) : String :=
  match line.trimAscii.toString.splitOn " " with
  | ["cmp", a, b] =>
    match Val.ofCanon a, Val.ofCanon b with
    | some x, some y => match Val.cmp x y with | .lt => "lt" | .eq => "eq" | .gt => "gt"
    | _, _ => "bad-request"
  | _ => "bad-request"

partial def loop (h : IO.FS.Stream) : IO Unit := do
  let line ← h.getLine
  if line.isEmpty then return ()
  IO.println (answer line)
  loop h

def main : IO Unit := do loop (← IO.getStdin)
