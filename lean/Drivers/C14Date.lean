import RlModel.Model.DateArith
/-! C14 date driver: `add <y> <m> <d> <months> <days>` / `sub …` → `date:<day number>` | `panic`;
`civil <y> <m> <d>` → day number. -/
open RlModel.DateArith

def showRes : Option Int → String
  | some n => "date:" ++ toString n
  | none => "panic"

def answer (line : String) : String :=
  match (line.trimAscii.toString.splitOn " ").map (fun s => (s, s.toInt?)) with
  | [("add", _), (_, some y), (_, some m), (_, some d), (_, some mo), (_, some dy)] => showRes (addInterval (daysFromCivil y m d) mo dy)
  | [("sub", _), (_, some y), (_, some m), (_, some d), (_, some mo), (_, some dy)] => showRes (subInterval (daysFromCivil y m d) mo dy)
  | [("civil", _), (_, some y), (_, some m), (_, some d)] => "date:" ++ toString (daysFromCivil y m d)
  | _ => "bad-request"

partial def loop (h : IO.FS.Stream) : IO Unit := do
  let line ← h.getLine
  if line.isEmpty then return ()
  IO.println (answer line)
  loop h

def main : IO Unit := do loop (← IO.getStdin)
