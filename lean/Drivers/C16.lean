import RlModel.Model.Type
open RlModel

/-!
Line protocol of the C16 correspondence run (same request file as harness/src/bin/c16.rs):

  `(type <texpr>)`                     -> `ok <TYPE>` | `err`
  `(ptype <tplan>)`                    -> `ok (<TYPE>*)` | `err`
  `(ins <mem|disk> (decls (<TY> <null|notnull>)*) (rows (<val>*)*))`
                                       -> `ok (<val>*)* ;; ok <spec rows> ;; <tag>*`  rows of `SELECT *`, sorted

  `(ddl <TY> (opts <null|notnull|unique|pk>*))` -> `ok nullable=<b> primary=<b>` | `err`: what CREATE TABLE catalogues
  `(ddlre <TY> (opts …))`: the same on a disk database, read back after shutdown + reopen
  `(ddlt (decls (<TY> (opts o* [k<n>]))*))` -> `ok (n<0|1>p<0|1>)*` | `err`: a whole table; `k<n>` = the column is the
      n-th one listed in a table-level `PRIMARY KEY (…)` constraint; `ddltre`: after shutdown + reopen (disk)
  engine `diskre` of the INSERT scenarios: disk, with shutdown + reopen between the CREATE TABLEs and the INSERTs
  decl: `(<TY> <null|notnull|pk>)` or `(<TY> (opts o*))` (column options as written, in order)
  `(insm <eng> (decls …) (rows …))`  ONE statement INSERT INTO t VALUES (r1), (r2), …: every literal goes through the
      column's union type (VALUES node), all rows or none
  `(inscols <eng> (decls …) (cols i…) (rows …))`  INSERT INTO t(c_i…) VALUES …, same answer format
  `(inssel <eng> (src (<TY> <n>)*) (decls …) (rows …))`  rows into s, then INSERT INTO t SELECT * FROM s

  `(selcast <eng> (src (<TY> null)) <TY> (rows (v)*))`  rows into s, then SELECT CAST(c0 AS TY) FROM s; `ERR` when the query fails

  texpr : `(leaf T)` | `bad` | `(cast T a)` | `(neg a)` | `(+|-|*|/|% a b)` | `(|| a b)` | `(like a b)`
          | `(not a)` | `(=|<>|>|<|>=|<= a b)` | `(and|or|xor a b)` | `(if c t e)` | `(in x (list a*))`
          | `(isnull a)` | `(extract a)` | `(substring s a b)` | `(repeat s n)` | `(replace a f t)`
          | `(max|min|first|last a)` | `(sum|avg a)` | `(count|count-distinct a)` | `rowcount`
  tplan : `(values (row e*)*)` | `(proj (list e*) p)` | `(filter p)` | `(join <inner|semi> l r)`
          | `(hashagg (list k*) (list a*) p)`
  val   : `null` | `b:true` | `i32:5` | `i64:5` | `i16:5` | `s:<hex>` | `d:<tenths>`
  TY    : BOOLEAN SMALLINT INT BIGINT STRING
-/

mutual
  partial def parseT : Sexp → Option TExpr
    | .atom "bad" => some .bad
    | .atom "rowcount" => some .rowcount
    | .list [.atom "leaf", .atom t] => (DT.ofName t).map .leaf
    | .list [.atom "cast", .atom t, a] => do pure (.cast (← DT.ofName t) (← parseT a))
    | .list [.atom "in", x, .list (.atom "list" :: xs)] => do pure (.inl (← parseT x) (← parseTs xs))
    | .list [.atom op, a] => do
      let a ← parseT a
      if op == "neg" then pure (.neg a)
      else if op == "not" then pure (.not a)
      else if op == "isnull" then pure (.isnull a)
      else if op == "extract" then pure (.extract a)
      else if op == "max" || op == "min" || op == "first" || op == "last" then pure (.agg .same a)
      else if op == "sum" || op == "avg" then pure (.agg .number a)
      else if op == "count" || op == "count-distinct" then pure (.agg .count a)
      else none
    | .list [.atom op, a, b] => do
      let a ← parseT a
      let b ← parseT b
      if op == "+" || op == "-" || op == "*" || op == "/" || op == "%" then pure (.arith a b)
      else if op == "||" then pure (.concat a b)
      else if op == "like" then pure (.like a b)
      else if op == "=" || op == "<>" || op == ">" || op == "<" || op == ">=" || op == "<=" then pure (.cmp a b)
      else if op == "and" || op == "or" || op == "xor" then pure (.logic a b)
      else if op == "repeat" then pure (.repeat_ a b)
      else none
    | .list [.atom op, a, b, c] => do
      let a ← parseT a
      let b ← parseT b
      let c ← parseT c
      if op == "if" then pure (.ite a b c)
      else if op == "substring" then pure (.substring a b c)
      else if op == "replace" then pure (.replace a b c)
      else none
    | _ => none
  partial def parseTs : List Sexp → Option (List TExpr)
    | [] => some []
    | x :: xs => do pure ((← parseT x) :: (← parseTs xs))
end

partial def parseRows : List Sexp → Option (List (List TExpr))
  | [] => some []
  | .list (.atom "row" :: es) :: rest => do pure ((← parseTs es) :: (← parseRows rest))
  | _ => none

partial def parseP : Sexp → Option TPlan
  | .list (.atom "values" :: rows) => (parseRows rows).map .values
  | .list [.atom "proj", .list (.atom "list" :: es), c] => do pure (.proj (← parseTs es) (← parseP c))
  | .list [.atom "filter", c] => (parseP c).map .same
  | .list [.atom "join", .atom k, l, r] => do pure (.join (k == "semi") (← parseP l) (← parseP r))
  | .list [.atom "hashagg", .list (.atom "list" :: ks), .list (.atom "list" :: as), c] => do
    pure (.agg (← parseTs ks) (← parseTs as) (← parseP c))
  | _ => none

def parseTyName (s : String) : Option Ty :=
  if s == "BOOLEAN" then some .bool
  else if s == "SMALLINT" then some (.int .w16)
  else if s == "INT" then some (.int .w32)
  else if s == "BIGINT" then some (.int .w64)
  else if s == "STRING" then some .str
  else none

def strOfHex' (h : String) : Option String := do
  let bs ← bytesOfHex h.toList
  String.fromUTF8? (ByteArray.mk bs.toArray)

def parseIVal (t : String) : Option IVal :=
  if t == "null" then some .null
  else if t == "b:true" then some (.bool true)
  else if t == "b:false" then some (.bool false)
  else if t.startsWith "i16:" then ((t.drop 4).toString.toInt?).map (.int .w16)
  else if t.startsWith "i32:" then ((t.drop 4).toString.toInt?).map (.int .w32)
  else if t.startsWith "i64:" then ((t.drop 4).toString.toInt?).map (.int .w64)
  else if t.startsWith "d:" then ((t.drop 2).toString.toInt?).map .dec
  else if t.startsWith "s:" then (strOfHex' (t.drop 2).toString).map .str
  else none

def showIVal : IVal → String
  | .null => "null"
  | .bool b => if b then "b:true" else "b:false"
  | .int w v => w.name ++ ":" ++ toString v
  | .str s => "s:" ++ hexOfBytes s.toUTF8.toList
  | .dec d => "d:" ++ toString d

def parseOpt (s : String) : Option ColOpt :=
  if s == "null" then some .null else if s == "notnull" then some .notNull
  else if s == "unique" then some .unique else if s == "pk" then some .primaryKey else none

def parseOpts : List Sexp → Option (List ColOpt)
  | [] => some []
  | .atom o :: rest => do pure ((← parseOpt o) :: (← parseOpts rest))
  | _ => none

/-- Options of one column plus its position in the table-level `PRIMARY KEY (…)` list: the pseudo
option `k<n>` (n = 1, 2, 3) says "n-th column listed in the table constraint". -/
def parseOptsK : List Sexp → Option (List ColOpt × Option Nat)
  | [] => some ([], none)
  | .atom o :: rest => do
    let (os, k) ← parseOptsK rest
    if o.startsWith "k" then
      match (o.drop 1).toString.toNat? with
      | some n => pure (os, some n)
      | none => none
    else pure ((← parseOpt o) :: os, k)
  | _ => none

/-- `(TY null|notnull|pk)` or `(TY (opts o* [k<n>]))`: type, options as written, key position. -/
def parseRawDecls : List Sexp → Option (List (Ty × List ColOpt × Option Nat))
  | [] => some []
  | .list [.atom t, .atom n] :: rest => do
    let os ← if n == "null" then some [] else if n == "notnull" then some [ColOpt.notNull]
      else if n == "pk" then some [ColOpt.primaryKey] else none
    pure ((← parseTyName t, os, none) :: (← parseRawDecls rest))
  | .list [.atom t, .list (.atom "opts" :: os)] :: rest => do
    let (opts, k) ← parseOptsK os
    pure ((← parseTyName t, opts, k) :: (← parseRawDecls rest))
  | _ => none

/-- The table-level key: the column indices in the order of their `k<n>` tags. -/
def keyOfRaw (raw : List (Ty × List ColOpt × Option Nat)) : List Nat :=
  (List.range 8).flatMap fun k =>
    (List.range raw.length).filter fun i => match raw[i]? with | some (_, _, some k') => k' == k | _ => false

/-- What `bind_create_table` catalogues for the table (model `tableCatalogOf`). -/
def catalogOfRaw (raw : List (Ty × List ColOpt × Option Nat)) : Option (List (Bool × Bool)) :=
  tableCatalogOf (raw.map fun r => r.2.1) (keyOfRaw raw)

/-- Declared columns: nullability = what `bind_create_table` catalogues (column options folded in
order, every inline / table-level key column forced NOT NULL). -/
def parseDecls (ds : List Sexp) : Option (List ColDecl) := do
  let raw ← parseRawDecls ds
  match catalogOfRaw raw with
  | some cat => pure ((raw.zip cat).map fun (r, c) => ⟨r.1, c.1⟩)
  | none => pure (raw.map fun r => ⟨r.1, (optFold (true, false) r.2.1).1⟩)   -- bind error: not generated

def parseVals : List Sexp → Option (List IVal)
  | [] => some []
  | .atom t :: rest => do pure ((← parseIVal t) :: (← parseVals rest))
  | _ => none

def parseValRows : List Sexp → Option (List (List IVal))
  | [] => some []
  | .list vs :: rest => do pure ((← parseVals vs) :: (← parseValRows rest))
  | _ => none

def insertionSortStr (xs : List String) : List String :=
  xs.foldl (fun acc x =>
    let rec ins : List String → List String
      | [] => [x]
      | y :: ys => if x < y then x :: y :: ys else y :: ins ys
    ins acc) []

/-- `disk`, and `diskre` = the disk engine with a shutdown + reopen between CREATE TABLE and the
INSERTs: the model has no persistence, so both are the disk engine — "the catalog entry (column types,
NOT NULL / PRIMARY KEY flags) survives reopen" is the hypothesis the differential run checks. -/
def isDisk (eng : String) : Bool := eng == "disk" || eng == "diskre"

def answerDdl (os : List Sexp) : String :=
  match parseOpts os with
  | some opts => match catalogOf opts with
    | some (n, pk) => "ok nullable=" ++ toString n ++ " primary=" ++ toString pk
    | none => "err"
  | none => "bad-request"

def answerDdlt (ds : List Sexp) : String :=
  match parseRawDecls ds with
  | some raw => match catalogOfRaw raw with
    | some cat => "ok " ++ " ".intercalate (cat.map fun c => "n" ++ (if c.1 then "1" else "0") ++ "p" ++ (if c.2 then "1" else "0"))
    | none => "err"
  | none => "bad-request"

def answer (line : String) : String :=
  match Sexp.parse line with
  | some (.list [.atom "type", e]) =>
    match parseT e with
    | some t => match typeOf t with
      | some ty => "ok " ++ ty.name
      | none => "err"
    | none => "bad-request"
  | some (.list [.atom "ddl", .atom _ty, .list (.atom "opts" :: os)]) => answerDdl os
  -- the same CREATE TABLE on a disk database, read after shutdown + reopen: the model has no
  -- persistence; "the catalog entry survives reopen" is the hypothesis this request checks
  | some (.list [.atom "ddlre", .atom _ty, .list (.atom "opts" :: os)]) => answerDdl os
  -- whole tables with a table-level `PRIMARY KEY (…)`: flags of every column (`ddltre`: after reopen)
  | some (.list [.atom "ddlt", .list (.atom "decls" :: ds)]) => answerDdlt ds
  | some (.list [.atom "ddltre", .list (.atom "decls" :: ds)]) => answerDdlt ds
  | some (.list [.atom "ptype", p]) =>
    match parseP p with
    | some t => match typeOfPlan t with
      | some tys => "ok (" ++ " ".intercalate (tys.map DT.name) ++ ")"
      | none => "err"
    | none => "bad-request"
  | some (.list [.atom "ins", .atom eng, .list (.atom "decls" :: ds), .list (.atom "rows" :: rs)]) =>
    match parseDecls ds, parseValRows rs with
    | some decls, some rows =>
      let e := if isDisk eng then Engine.disk else Engine.mem
      let showRows := fun (rs : List (List IVal)) =>
        " ".intercalate (insertionSortStr (rs.map fun r => "(" ++ " ".intercalate (r.map showIVal) ++ ")"))
      -- tags only of rows the implementation model actually stores
      let tags := (rows.filter fun r => (castRow decls r).isOk).map (rowTags e decls) |>.flatten |>.eraseDups
      "ok " ++ showRows (selectAll e decls rows) ++ " ;; ok " ++ showRows (specTable decls rows)
        ++ " ;; " ++ " ".intercalate tags
    | _, _ => "bad-request"
  -- ONE multi-row statement `INSERT INTO t VALUES (r1), (r2), …`
  | some (.list [.atom "insm", .atom eng, .list (.atom "decls" :: ds), .list (.atom "rows" :: rs)]) =>
    match parseDecls ds, parseValRows rs with
    | some decls, some rows =>
      let e := if isDisk eng then Engine.disk else Engine.mem
      let showRows := fun (rs : List (List IVal)) =>
        " ".intercalate (insertionSortStr (rs.map fun r => "(" ++ " ".intercalate (r.map showIVal) ++ ")"))
      let stored := insertValues decls rows
      let tags := if stored.isEmpty then [] else
        (((rows.map (rowTags e decls)).flatten) ++ detourTags decls rows).eraseDups
      "ok " ++ showRows (stored.map (readRow e decls)) ++ " ;; ok " ++ showRows (specInsertValues decls rows)
        ++ " ;; " ++ " ".intercalate tags
    | _, _ => "bad-request"
  | some (.list [.atom "inscols", .atom eng, .list (.atom "decls" :: ds), .list (.atom "cols" :: cs),
      .list (.atom "rows" :: rs)]) =>
    match parseDecls ds, parseValRows rs with
    | some decls, some rows =>
      let e := if isDisk eng then Engine.disk else Engine.mem
      let cols := cs.filterMap fun c => match c with | .atom a => a.toNat? | _ => none
      let full := rows.map (expandRow decls.length cols)
      let showRows := fun (rs : List (List IVal)) =>
        " ".intercalate (insertionSortStr (rs.map fun r => "(" ++ " ".intercalate (r.map showIVal) ++ ")"))
      let tags := (full.filter fun r => (castRow decls r).isOk).map (rowTags e decls) |>.flatten |>.eraseDups
      "ok " ++ showRows (selectAll e decls full) ++ " ;; ok " ++ showRows (specTable decls full)
        ++ " ;; " ++ " ".intercalate tags
    | _, _ => "bad-request"
  | some (.list [.atom "inssel", .atom eng, .list (.atom "src" :: ss), .list (.atom "decls" :: ds),
      .list (.atom "rows" :: rs)]) =>
    match parseDecls ss, parseDecls ds, parseValRows rs with
    | some sdecls, some decls, some rows =>
      let e := if isDisk eng then Engine.disk else Engine.mem
      -- what `SELECT * FROM s` yields (the disk engine already replaced NULLs of NOT NULL columns)
      let src := selectAll e sdecls rows
      let stored := insertSelect decls src
      let showRows := fun (rs : List (List IVal)) =>
        " ".intercalate (insertionSortStr (rs.map fun r => "(" ++ " ".intercalate (r.map showIVal) ++ ")"))
      -- reasons arising when filling `s` (e.g. a NULL in a NOT NULL source column) carry over
      let stags := ((rows.filter fun r => (castRow sdecls r).isOk).map (rowTags e sdecls)).flatten
      let tags := (stags ++ ((if stored.isEmpty then [] else src).map (rowTags e decls)).flatten).eraseDups
      "ok " ++ showRows (stored.map (readRow e decls)) ++ " ;; ok " ++ showRows (specInsertSelect decls src)
        ++ " ;; " ++ " ".intercalate tags
    | _, _, _ => "bad-request"
  | some (.list [.atom "selcast", .atom eng, .list (.atom "src" :: ss), .atom ty,
      .list (.atom "rows" :: rs)]) =>
    match parseDecls ss, parseTyName ty, parseValRows rs with
    | some sdecls, some t, some rows =>
      let e := if isDisk eng then Engine.disk else Engine.mem
      let src := selectAll e sdecls rows
      let showRows := fun (rs : List (List IVal)) =>
        " ".intercalate (insertionSortStr (rs.map fun r => "(" ++ " ".intercalate (r.map showIVal) ++ ")"))
      -- `SELECT CAST(c0 AS T) FROM s`: one statement over one chunk: every row converts or it fails
      let d : List ColDecl := [⟨t, true⟩]
      let out := if src.all (fun r => (castRow d r).isOk) then showRows (insertAll d src) else "ERR"
      let spec := if src.all (fun r => (specRow d r).isOk) then showRows (specTable d src) else "ERR"
      let tags := ((if out == "ERR" then [] else src).map (rowTags e d)).flatten.eraseDups
      "ok " ++ out ++ " ;; ok " ++ spec ++ " ;; " ++ " ".intercalate tags
    | _, _, _ => "bad-request"
  | _ => "bad-request"

partial def loop (h : IO.FS.Stream) : IO Unit := do
  let line ← h.getLine
  if line.isEmpty then return ()
  if line.trimAscii.toString.isEmpty then loop h else
  IO.println (answer line)
  loop h

def main : IO Unit := do loop (← IO.getStdin)
