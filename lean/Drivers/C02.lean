import RlModel.Model.ExecPlan
open RlModel

/-!
Driver for C02 (same protocol as drv_c11: plan 1 = the query as a logical plan read with the L1 spec, plan 2 = the optimised physical plan read with L2).  One request per line:

  (case <id> (tables (t (types i32 i64 …) (c (r v v …) …) (c …) …) …) (plans <plan> <plan> …))

Answer: `<id>` then, per plan, TAB `<status> ; <rows as executed by L2> ; <rows of the L1 spec> ; <tags>`
where status ∈ ok | unsupported | error.
-/

def tyOfTag (s : String) : Ty :=
  if s == "i32" then .i32 else if s == "i64" then .i64 else if s == "i16" then .i16
  else if s == "bool" then .bool else if s == "str" then .str else .null

def parseRow : Sexp → Row
  | .list (.atom "r" :: vs) => vs.map (fun v => match v with
      | .atom a => (Val.ofCanon a).getD .null
      | _ => .null)
  | _ => []

def parseTable : Sexp → Table
  | .list (.atom "t" :: .list (.atom "types" :: tys) :: chunks) =>
    { types := tys.map (fun t => match t with | .atom a => tyOfTag a | _ => .null),
      chunks := chunks.filterMap (fun c => match c with
        | .list (.atom "c" :: rows) => some (rows.map parseRow)
        | _ => none),
      ordered := !(chunks.any (fun c => c == .list [.atom "unordered"])),
      sortKey := chunks.findSome? (fun c => match c with
        | .list [.atom "sortedby", .atom k] => k.toNat?
        | _ => none) }
  | _ => { types := [], chunks := [] }

def renderRows (rows : List Row) : String := "".intercalate (rows.map rowCanon)

def answerPlan (tables : List Table) (p : Sexp) : String :=
  match runPlan tables false planFuel p, runPlan tables true planFuel p with
  | .ok e, .ok s =>
    let st := match e.unsupported with | some _ => "unsupported" | none => "ok"
    st ++ " ; " ++ renderRows (flat e.chunks) ++ " ; " ++ renderRows (flat s.chunks) ++ " ; " ++ ",".intercalate e.tags
  | .error m, _ => "error " ++ m ++ " ; ; ; "
  | _, .error m => "error " ++ m ++ " ; ; ; "

def answer (line : String) : String :=
  match Sexp.parse line with
  | some (.list [.atom "case", .atom id, .list (.atom "tables" :: ts), .list (.atom "plans" :: ps)]) =>
    let tables := ts.map parseTable
    id ++ "".intercalate (ps.map (fun p => "\t" ++ answerPlan tables p))
  | _ => "bad-request"

partial def loop (h : IO.FS.Stream) : IO Unit := do
  let line ← h.getLine
  if line.isEmpty then return ()
  if line.trimAscii.toString.isEmpty then loop h else
  IO.println (answer line)
  loop h

def main : IO Unit := do loop (← IO.getStdin)
