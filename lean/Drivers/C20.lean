import RlModel.Model.Csv
/-!
Line-protocol driver for C20 (same definitions as `Thm/C20.lean`).

  tbl <d> <q> <e|-> <h> <types,> <row;row;…|->   → file:<hex|-> import:<rows|err|panic> rt:<bool> [why:<tag>]
                                                     | export:panic … | unmodelled
  imp <d> <q> <e|-> <h> <types,> <hex|->          → import:<rows|err|panic> | unmodelled
-/
open RlModel RlModel.V19 RlModel.Csv

def hexNat (s : String) : Option Nat :=
  s.toList.foldl (fun acc c => match acc, hexVal c with
    | some a, some d => some (a * 16 + d)
    | _, _ => none) (some 0)

def bytesOfHexStr (s : String) : Option (List UInt8) :=
  if s == "-" then some [] else bytesOfHex s.toList

def hexOrDash (b : List UInt8) : String := if b.isEmpty then "-" else hexOfBytes b

def parseCellVal (t : String) : Option (Option DV) :=
  if t == "null" then some none
  else match t.splitOn ":" with
  | ["b", "true"] => some (some (.bool true))
  | ["b", "false"] => some (some (.bool false))
  | ["i16", n] => n.toInt?.map fun v => some (.i16 v)
  | ["i32", n] => n.toInt?.map fun v => some (.i32 v)
  | ["i64", n] => n.toInt?.map fun v => some (.i64 v)
  | ["s", h] => (bytesOfHexStr h).map fun v => some (.str v)
  | ["t", h] => (bytesOfHexStr h).map fun v => some (.str v)
  | ["blob", h] => (bytesOfHexStr h).map fun v => some (.blob v)
  | ["date", n] => n.toInt?.map fun v => some (.date v)
  | ["ts", n] => n.toInt?.map fun v => some (.ts v)
  | ["iv", a, b, c] =>
    match a.toInt?, b.toInt?, c.toInt? with
    | some a, some b, some c => some (some (.interval a b c))
    | _, _, _ => none
  | _ => none

def showCell : Option DV → String
  | none => "null"
  | some (.bool b) => if b then "b:true" else "b:false"
  | some (.i16 v) => s!"i16:{v}"
  | some (.i32 v) => s!"i32:{v}"
  | some (.i64 v) => s!"i64:{v}"
  | some (.str s) => "s:" ++ hexOfBytes s
  | some (.blob s) => "blob:" ++ hexOfBytes s
  | some (.date v) => s!"date:{v}"
  | some (.ts v) => s!"ts:{v}"
  | some (.interval a b c) => s!"iv:{a}:{b}:{c}"
  | some _ => "?"

def parseTy : String → Option Ty
  | "bool" => some .bool | "i16" => some .i16 | "i32" => some .i32 | "i64" => some .i64
  | "str" => some .str | "blob" => some .blob | "date" => some .date | "ts" => some .ts
  | "iv" => some .interval
  | "f64" | "dec" => some .str     -- opaque: the cell is its Display text
  | s => if s.startsWith "decs" then some .str else none   -- DECIMAL(p, k): opaque text, rescaled to k

def allSomeL {α} : List (Option α) → Option (List α)
  | [] => some []
  | none :: _ => none
  | some x :: xs => (allSomeL xs).map (x :: ·)

def showRows (t : Table) : String :=
  if t.isEmpty then "-" else ";".intercalate (t.map fun r => ",".intercalate (r.map showCell))

def showImport : ImportResult → String
  | .ok t => showRows t
  | .error => "err"
  | .panic => "panic"
  | .unmodelled => "unmodelled"

def removeFirst (x : List (Option DV)) : Table → Option Table
  | [] => none
  | y :: ys => if x = y then some ys else (removeFirst x ys).map (y :: ·)

def sameBag : Table → Table → Bool
  | [], t => t.isEmpty
  | r :: rs, t => match removeFirst r t with
    | some t' => sameBag rs t'
    | none => false

def parseOpts (d q e h : String) : Option Opts :=
  match d.toNat?, q.toNat? with
  | some d, some q =>
    let esc : Option (Option UInt8) := if e == "-" then some none else e.toNat?.map fun x => some (UInt8.ofNat x)
    esc.map fun esc => { delim := UInt8.ofNat d, quote := UInt8.ofNat q, escape := esc, header := h == "1" }
  | _, _ => none

/-- reason tag for a table the model does not expect to survive export + import -/
def whyTag (o : Opts) (t : Table) (_texts : List (List Bytes)) : String :=
  if t.any (fun r => r.any fun c => match c with | some (.str []) => true | _ => false) then "empty-string"
  else if t.any (fun r => r.any fun c => match c with
      | some (.interval a b c) => (displayInterval a b c).isEmpty | _ => false) then "empty-text"
  else if o.delim == o.quote || isTerm o.delim || isTerm o.quote then "bad-options"
  else "cell-text"

/-- Opaque (f64 / decimal) columns: a field read back is fine when empty (NULL) or equal to one of
the texts that were written for that column; the four letters `NULL` are a parse error; any other
text cannot be judged by the model.  Returns (some NULL text seen, some unknown text seen). -/
def opaqueStatus (ops : List Bool) (orig : List (List Bytes)) (recs : List (List Bytes)) : Bool × Bool :=
  recs.foldl (fun acc r =>
    (List.zip (List.zip ops r) (List.range r.length)).foldl (fun acc x =>
      let ((isOp, f), k) := x
      if !isOp || f.isEmpty then acc
      else if orig.any (fun row => row[k]? == some f) && f != nullText then acc
      else if f == nullText then (true, acc.2)
      -- a text with a byte no number syntax uses (delimiter, quote, space, newline, …) is a
      -- parse error for both `f64::from_str` and `Decimal::from_str`
      else if f.any (fun b => !(isDigit b || (65 ≤ b.toNat && b.toNat ≤ 90) || (97 ≤ b.toNat && b.toNat ≤ 122) ||
                               b == 43 || b == 45 || b == 46 || b == 95)) then (true, acc.2)
      else (acc.1, true)) acc) (false, false)

def importOpaque (o : Opts) (tyNames : List String) (tys : List Ty) (orig : List (List Bytes))
    (file : Bytes) : ImportResult :=
  let ops := tyNames.map fun n => n == "f64" || n.startsWith "dec"
  if !ops.any id then importCsv o tys file
  else match readCsv o file with
    | none => .error
    | some recs =>
      let st := opaqueStatus ops orig recs
      if st.2 then .unmodelled
      else match importCsv o tys file with
        | .panic => if st.1 then .unmodelled else .panic
        | r => if st.1 then .error else r

/-- scale of a `decs<k>` column (DECIMAL(p,k)): the import rescales ITS cells to k digits -/
def colScale (n : String) : Option Nat :=
  if n.startsWith "decs" then (n.drop 4).toString.toNat? else none

/-- `Decimal::rescale(k)` on a Display text with at most k fraction digits: pad with zeros -/
def rescaleText (k : Nat) (t : Bytes) : Option Bytes :=
  let body := match t with | 45 :: r => r | r => r
  let ip := body.takeWhile (· != 46)
  let rest := body.dropWhile (· != 46)
  let fp := rest.drop 1
  if ip.isEmpty || !allDigits ip || !allDigits fp || (rest.length == 1) then none
  else if fp.length > k then none
  else if k = 0 then some t
  else some ((if t.head? == some 45 then [45] else []) ++ ip ++ [46] ++ fp ++ List.replicate (k - fp.length) 48)

/-- per-column rescale of a table of opaque decimal cells; `none` = cannot be judged -/
def applyScales (scales : List (Option Nat)) (t : Table) : Option Table :=
  allSomeL (t.map fun row => allSomeL ((List.zip scales row).map fun (sc, c) =>
    match sc, c with
    | some k, some (.str txt) => (rescaleText k txt).map fun x => some (.str x)
    | _, c => some c))

def answer (line : String) : String :=
  match line.trimAscii.toString.splitOn " " with
  | ["tbl", d, q, e, h, tysS, rows] =>
    match parseOpts d q e h, allSomeL ((tysS.splitOn ",").map parseTy) with
    | some o, some tys =>
      let rowsP : Option Table :=
        if rows == "-" then some []
        else allSomeL ((rows.splitOn ";").map fun r => allSomeL ((r.splitOn ",").map parseCellVal))
      match rowsP with
      | none => "unmodelled"
      | some t =>
        match tableTexts t with
        | none =>
          let file := (exportFile o t).1
          let orig := t.map fun row => row.map fun c => (cellText c).getD []
          "file:" ++ hexOrDash file ++ " import:" ++ showImport (importOpaque o (tysS.splitOn ",") tys orig file) ++
            " rt:false why:cell-display-panic"
        | some texts =>
          let names : List Bytes := (List.range tys.length).map fun i => (s!"c{i}").toUTF8.toList
          let file := writeFile o names texts
          let scales := (tysS.splitOn ",").map colScale
          let imp := match importOpaque o (tysS.splitOn ",") tys texts file with
            | .ok rows => (match applyScales scales rows with | some r => .ok r | none => .unmodelled)
            | e => e
          -- numeric equality per column: the original cells padded to the column's scale
          let rt := match imp, applyScales scales t with
            | .ok t', some t0 => sameBag t0 t'
            | _, _ => false
          "file:" ++ hexOrDash file ++ " import:" ++ showImport imp ++
            (if rt then " rt:true" else " rt:false why:" ++ whyTag o t texts)
    | some _, none => "unmodelled"
    | _, _ => "bad-request"
  | ["imp", d, q, e, h, tys, hex] =>
    match parseOpts d q e h, allSomeL ((tys.splitOn ",").map parseTy), bytesOfHexStr hex with
    | some o, some tys, some bytes => "import:" ++ showImport (importCsv o tys bytes)
    | some _, none, _ => "unmodelled"
    | _, _, _ => "bad-request"
  | _ => "bad-request"

partial def loop (h : IO.FS.Stream) : IO Unit := do
  let line ← h.getLine
  if line.isEmpty then return ()
  IO.println (answer line)
  loop h

def main : IO Unit := do loop (← IO.getStdin)
