import RlModel.Model.Text
/-
C20 model (L10): what `COPY … TO` / `COPY … FROM` do with a CSV file.

* writer = `csv::Writer::write_record` over `csv_core::Writer` with the options RisingLight
  sets (src/executor/copy_to_file.rs): `QuoteStyle::Necessary`, `double_quote = true`,
  terminator `\n`; a field is quoted iff it contains the delimiter, the quote, `\r` or `\n`;
  inside quotes the quote byte is doubled; a record that produced no byte at all (one empty
  field) is written as `""`.  `has_headers` has no effect on `write_record`; with HEADER the executor writes the
  record of column names itself.
* reader = `csv_core::Reader` NFA (src/reader.rs `transition_nfa`) with terminator CRLF
  (`\r`, `\n`, `\r\n`), `double_quote = true`, optional escape byte; on top of it
  `csv::Reader` (`has_headers` ⇒ the first record is swallowed; `flexible = false` ⇒ every
  record must have as many fields as the first one) and `CopyFromFileExecutor` (record length
  = column count, or one more with an empty last field; cell text parsed by `push_str`, the
  empty text being NULL).
* cells: NULL ↦ empty field, otherwise `ArrayImpl::get_to_string` / `push_str` (empty text ↦ NULL).

Bytes throughout (`csv` works on bytes; the `char as u8` casts of the options are part of the model's
guards: ASCII options only).
-/
namespace RlModel
namespace Csv
open V19

structure Opts where
  delim : UInt8 := 44
  quote : UInt8 := 34
  escape : Option UInt8 := none
  header : Bool := false
  deriving Repr, DecidableEq

/-! ### writer -/

/-- The escape byte the WRITER uses instead of quote doubling: an ESCAPE option different from
QUOTE (`double_quote(escape.is_none_or(|e| e == quote))`, copy_to_file.rs after fix c296646). -/
def Opts.wesc (o : Opts) : Option UInt8 :=
  match o.escape with
  | some e => if e = o.quote then none else some e
  | none => none

def isSpecial (o : Opts) (b : UInt8) : Bool :=
  b == o.delim || b == o.quote || b == 13 || b == 10 || o.wesc == some b

def needsQuote (o : Opts) (f : Bytes) : Bool := f.any (isSpecial o)

/-- inside quotes: the quote is doubled, or — with an escape byte — quote and escape byte are
both preceded by the escape byte (csv writes escape+quote; RisingLight doubles the escape byte
itself before handing the field to csv) -/
def quoteBody (o : Opts) : Bytes → Bytes
  | [] => []
  | b :: bs =>
    match o.wesc with
    | none => if b = o.quote then b :: b :: quoteBody o bs else b :: quoteBody o bs
    | some e => if b = o.quote ∨ b = e then e :: b :: quoteBody o bs else b :: quoteBody o bs

def writeField (o : Opts) (f : Bytes) : Bytes :=
  if needsQuote o f then o.quote :: quoteBody o f ++ [o.quote] else f

/-- fields of one record separated by the delimiter (no terminator) -/
def writeFields (o : Opts) : List Bytes → Bytes
  | [] => []
  | [f] => writeField o f
  | f :: fs => writeField o f ++ o.delim :: writeFields o fs

def writeRecord (o : Opts) (r : List Bytes) : Bytes :=
  let body := writeFields o r
  (if body.isEmpty then [o.quote, o.quote] else body) ++ [10]

def writeCsv (o : Opts) : List (List Bytes) → Bytes
  | [] => []
  | r :: rs => writeRecord o r ++ writeCsv o rs

/-- the whole file: with HEADER the record of column names comes first (fix 669035f) -/
def writeFile (o : Opts) (names : List Bytes) (rows : List (List Bytes)) : Bytes :=
  (if o.header then writeRecord o names else []) ++ writeCsv o rows

/-! ### reader automaton -/

inductive RState where
  | startRecord | startField | inField | inQuoted | quoteInQuoted | escInQuoted | crlf
  deriving Repr, DecidableEq

/-- reader state; the three accumulators are reversed -/
structure St where
  st : RState
  fld : Bytes
  cur : List Bytes
  out : List (List Bytes)
  deriving Repr

def St.init : St := ⟨.startRecord, [], [], []⟩

def isTerm (c : UInt8) : Bool := c == 13 || c == 10

def endField (s : St) : St := { s with st := .startField, fld := [], cur := s.fld.reverse :: s.cur }

def endRecord (s : St) (c : UInt8) : St :=
  { st := if c = 13 then .crlf else .startRecord, fld := [], cur := [],
    out := (s.fld.reverse :: s.cur).reverse :: s.out }

/-- `StartField` on byte `c` -/
def stepStartField (o : Opts) (s : St) (c : UInt8) : St :=
  if c = o.quote then { s with st := .inQuoted }
  else if c = o.delim then endField s
  else if isTerm c then endRecord s c
  else { s with st := .inField, fld := c :: s.fld }

def stepStartRecord (o : Opts) (s : St) (c : UInt8) : St :=
  if isTerm c then { s with st := .startRecord } else stepStartField o s c

def step (o : Opts) (s : St) (c : UInt8) : St :=
  match s.st with
  | .startRecord => stepStartRecord o s c
  | .crlf => if c = 10 then { s with st := .startRecord } else stepStartRecord o s c
  | .startField => stepStartField o s c
  | .inField =>
    if c = o.delim then endField s
    else if isTerm c then endRecord s c
    else { s with fld := c :: s.fld }
  | .inQuoted =>
    if c = o.quote then { s with st := .quoteInQuoted }
    else if o.escape = some c then { s with st := .escInQuoted }
    else { s with fld := c :: s.fld }
  | .escInQuoted => { s with st := .inQuoted, fld := c :: s.fld }
  | .quoteInQuoted =>
    if c = o.quote then { s with st := .inQuoted, fld := c :: s.fld }
    else if c = o.delim then endField s
    else if isTerm c then endRecord s c
    else { s with st := .inField, fld := c :: s.fld }

def runSt (o : Opts) (s : St) (xs : Bytes) : St := xs.foldl (step o) s

/-- end of input: a record in progress is completed -/
def finish (s : St) : List (List Bytes) :=
  match s.st with
  | .startRecord | .crlf => s.out.reverse
  | _ => ((s.fld.reverse :: s.cur).reverse :: s.out).reverse

/-- all records of a CSV text (csv_core level) -/
def readRecords (o : Opts) (xs : Bytes) : List (List Bytes) := finish (runSt o St.init xs)

/-- `csv::Reader::records()`: header swallowed, equal lengths enforced (`none` = error) -/
def readCsv (o : Opts) (xs : Bytes) : Option (List (List Bytes)) :=
  let rs := readRecords o xs
  match rs with
  | [] => some []
  | r0 :: _ =>
    if rs.all (fun r => r.length == r0.length) then some (if o.header then rs.drop 1 else rs)
    else none

/-! ### cells and tables -/

/-- column types the cell model covers -/
inductive Ty where
  | bool | i16 | i32 | i64 | str | blob | date | ts | interval
  deriving Repr, DecidableEq

def nullText : Bytes := [78, 85, 76, 76]

/-- `ArrayImpl::get_to_string`; `none` when Display panics -/
def cellText : Option DV → Option Bytes
  | none => some []          -- NULL is an empty field since fix f651426 (was the letters `NULL`)
  | some (.bool b) => some (displayBool b)
  | some (.i16 v) | some (.i32 v) | some (.i64 v) => some (intDigits v)
  | some (.str s) => some s
  | some (.blob b) => some (displayBlob b)
  | some (.date d) => match displayDate d with | .ok t => some t | _ => none   -- never `none` now
  | some (.ts t) => match displayTimestamp t with | .ok t => some t | _ => none
  | some (.interval a b c) => some (displayInterval a b c)
  | some _ => none

def okSome {α} (f : α → DV) : Out α → Out (Option DV)
  | .ok v => .ok (some (f v))
  | .err => .err
  | .panic => .panic

/-- `ArrayBuilderImpl::push_str`: the empty text is NULL for every type -/
def parseCell (ty : Ty) (t : Bytes) : Option (Out (Option DV)) :=
  if t.isEmpty then some (.ok none)
  else match ty with
  | .bool => some (okSome DV.bool (parseBool t))
  | .i16 => some (okSome DV.i16 (parseIntRange i16Lo i16Hi t))
  | .i32 => some (okSome DV.i32 (parseIntRange i32Lo i32Hi t))
  | .i64 => some (okSome DV.i64 (parseIntRange i64Lo i64Hi t))
  | .str => some (.ok (some (.str t)))
  | .blob => some (okSome DV.blob (parseBlobText t))
  | .date => some (okSome DV.date (parseDate t))
  | .ts => (parseTimestamp t).map (okSome DV.ts)
  | .interval => some (okSome (fun p => DV.interval p.1 p.2.1 p.2.2) (parseInterval t))

abbrev Table := List (List (Option DV))

/-- `COPY t TO file`: `none` when some cell cannot be printed -/
def allSome {α} : List (Option α) → Option (List α)
  | [] => some []
  | none :: _ => none
  | some x :: xs => (allSome xs).map (x :: ·)

/-- the cell texts of a table (`none` when some cell cannot be printed) -/
def tableTexts (t : Table) : Option (List (List Bytes)) :=
  allSome (t.map fun row => allSome (row.map cellText))

/-! ### the file system under COPY: a path either does not exist or holds bytes -/

abbrev Fs := String → Option Bytes

/-- `File::create(path)` + write + flush: the path's content is REPLACED (truncated), whatever it
held before; every other path is untouched -/
def Fs.put (fs : Fs) (path : String) (bytes : Bytes) : Fs :=
  fun p => if p = path then some bytes else fs p

/-- `COPY <records> TO path` -/
def copyToFs (fs : Fs) (path : String) (o : Opts) (names : List Bytes) (rows : List (List Bytes)) : Fs :=
  fs.put path (writeFile o names rows)

/-- `COPY … FROM path` at the csv::Reader level (`none` = the file does not exist or an error) -/
def copyFromFs (fs : Fs) (path : String) (o : Opts) : Option (List (List Bytes)) :=
  (fs path).bind (readCsv o)

def exportTable (o : Opts) (names : List Bytes) (t : Table) : Option Bytes :=
  (tableTexts t).map (writeFile o names)

/-- texts of the cells before the first one whose Display panics; `true` = whole row printable -/
def prefixTexts : List (Option DV) → List Bytes × Bool
  | [] => ([], true)
  | c :: cs => match cellText c with
    | none => ([], false)
    | some t => let r := prefixTexts cs; (t :: r.1, r.2)

/-- a field as `csv_core::Writer::field` leaves it: the closing quote is only written by the
next delimiter / terminator -/
def writeFieldOpen (o : Opts) (f : Bytes) : Bytes :=
  if needsQuote o f then o.quote :: quoteBody o f else f

def writeFieldsPartial (o : Opts) : List Bytes → Bytes
  | [] => []
  | [f] => writeFieldOpen o f
  | f :: fs => writeField o f ++ o.delim :: writeFieldsPartial o fs

/-- The file `COPY TO` leaves behind, and whether it is complete.  When a cell's Display panics
(inside the blocking writer thread) the rows before it and the fields of its row written so far
are flushed by the writer's `Drop`; `writer.await.unwrap()` then panics in the executor task and
the statement still reports success. -/
def exportFile (o : Opts) : Table → Bytes × Bool
  | [] => ([], true)
  | row :: rest =>
    match prefixTexts row with
    | (texts, true) => let r := exportFile o rest; (writeRecord o texts ++ r.1, r.2)
    | (texts, false) => (writeFieldsPartial o texts, false)

inductive ImportResult where
  | ok (t : Table)
  | error          -- a `Result::Err` (length mismatch, parse error)
  | panic
  | unmodelled
  deriving Repr, DecidableEq

inductive RowResult where
  | ok (r : List (Option DV))
  | error
  | panic
  | unmodelled
  deriving Repr, DecidableEq

/-- `push_str_row`: builders zipped with the fields, left to right, first failure wins -/
def parseRow : List Ty → List Bytes → RowResult
  | ty :: tys, f :: fs =>
    match parseCell ty f with
    | none => .unmodelled
    | some (.ok c) =>
      match parseRow tys fs with
      | .ok r => .ok (c :: r)
      | e => e
    | some .err => .error
    | some .panic => .panic
  | _, _ => .ok []

/-- `CopyFromFileExecutor`: every record has the column count (or one more, empty, field) -/
def importRecords (tys : List Ty) : List (List Bytes) → ImportResult
  | [] => .ok []
  | r :: rs =>
    let n := tys.length
    if r.length = n ∨ (r.length = n + 1 ∧ r.getLast? = some []) then
      match parseRow tys r with
      | .ok row =>
        match importRecords tys rs with
        | .ok rows => .ok (row :: rows)
        | e => e
      | .error => .error
      | .panic => .panic
      | .unmodelled => .unmodelled
    else .error

/-- `COPY t FROM file` into columns of types `tys`: the rows that are inserted -/
def importCsv (o : Opts) (tys : List Ty) (xs : Bytes) : ImportResult :=
  match readCsv o xs with
  | none => .error
  | some recs =>
    importRecords tys recs

end Csv
end RlModel
