import RlModel.Model.KernelEval
/-
L5: static types. `typeOf` transcribes `analyze_type` (src/planner/rules/type_.rs) for the
expression part of the plan language and the plan nodes that only combine child types;
`DT.union` is `DataType::union` (used by `Values`); the INSERT path
(`InsertExecutor`: `(cast <declared type> #i | null)` for every table column) and the two
storage engines' treatment of NULL in a non-nullable column are modelled at the end.

Decimal is modelled without precision/scale (`Decimal(None, None)`); the
`Decimal(Some p, Some s)` arithmetic clauses are not modelled.
-/
namespace RlModel

/-- `enum DataType` (order matters: `derive(PartialOrd, Ord)` is used by `analyze_type`). -/
inductive DT where
  | null | bool | int16 | int32 | int64 | float64 | decimal | date | timestamp | timestamptz
  | interval | string | blob
  deriving Repr, DecidableEq

namespace DT
def rank : DT → Nat
  | null => 0 | bool => 1 | int16 => 2 | int32 => 3 | int64 => 4 | float64 => 5 | decimal => 6
  | date => 7 | timestamp => 8 | timestamptz => 9 | interval => 10 | string => 11 | blob => 12

def isNumber : DT → Bool
  | int16 | int32 | int64 | float64 | decimal => true
  | _ => false

def name : DT → String
  | null => "NULL" | bool => "BOOLEAN" | int16 => "SMALLINT" | int32 => "INT" | int64 => "BIGINT"
  | float64 => "DOUBLE" | decimal => "DECIMAL" | date => "DATE" | timestamp => "TIMESTAMP"
  | timestamptz => "TIMESTAMPTZ" | interval => "INTERVAL" | string => "STRING" | blob => "BLOB"

def all : List DT :=
  [null, bool, int16, int32, int64, float64, decimal, date, timestamp, timestamptz, interval, string, blob]

def ofName (s : String) : Option DT := all.find? fun t => t.name == s

/-- `DataType::union`: minimum compatible type (Int16 has no clause of its own). -/
def union (x y : DT) : Option DT :=
  let (a, b) := if x.rank ≤ y.rank then (x, y) else (y, x)
  match a, b with
  | null, _ => some b
  | bool, bool | bool, int32 | bool, int64 | bool, float64 | bool, decimal | bool, string => some b
  | int32, int32 | int32, int64 | int32, float64 | int32, decimal | int32, string => some b
  | int64, int64 | int64, float64 | int64, decimal | int64, string => some b
  | float64, float64 | float64, decimal | float64, string => some b
  | decimal, decimal | decimal, string => some b
  | date, date | date, string => some b
  | interval, interval | interval, string => some b
  | string, string | string, blob => some b
  | blob, blob => some b
  | _, _ => none
end DT

inductive AggKind where
  | same      -- max min first last: type of the argument
  | number    -- sum avg: argument must be a number
  | count     -- count count-distinct: Int32
  deriving Repr, DecidableEq

/-- Expressions as far as typing is concerned. -/
inductive TExpr where
  | leaf (t : DT)                 -- constant, column or anything else of known type `t`
  | bad                           -- a node whose type is unavailable
  | cast (t : DT) (a : TExpr)
  | neg (a : TExpr)
  | arith (a b : TExpr)           -- + - * / %
  | concat (a b : TExpr)
  | like (a b : TExpr)
  | not (a : TExpr)
  | cmp (a b : TExpr)             -- > < >= <= = <>
  | logic (a b : TExpr)           -- and or xor
  | ite (c t e : TExpr)
  | inl (x : TExpr) (xs : List TExpr)
  | isnull (a : TExpr)
  | extract (a : TExpr)
  | substring (s a b : TExpr)
  | repeat_ (s n : TExpr)
  | replace (a f t : TExpr)
  | agg (k : AggKind) (a : TExpr)
  | rowcount
  deriving Repr

mutual
/-- `analyze_type` on expressions: `some T` = `Ok(T)`, `none` = `Err(TypeError)`. -/
def typeOf : TExpr → Option DT
  | .leaf t => some t
  | .bad => none
  | .cast t a => match typeOf a with | some _ => some t | none => none
  | .neg a => match typeOf a with | some ta => if ta.isNumber then some ta else none | none => none
  | .arith a b =>
    match typeOf a, typeOf b with
    | some ta, some tb =>
      let (x, y) := if ta.rank > tb.rank then (tb, ta) else (ta, tb)
      if x == .null then some .null
      else if x.isNumber && y.isNumber then some y
      else if x == .date && y == .interval then some .date
      else none
    | _, _ => none
  | .concat a b =>
    match typeOf a, typeOf b with
    | some ta, some tb => if ta == .string && tb == .string then some .string else none
    | _, _ => none
  | .like a b =>
    match typeOf a, typeOf b with
    | some ta, some tb => if ta == .string && tb == .string then some .bool else none
    | _, _ => none
  | .not a => match typeOf a with | some ta => if ta == .bool then some .bool else none | none => none
  | .cmp a b =>
    match typeOf a, typeOf b with
    | some ta, some tb =>
      if (ta.isNumber && tb.isNumber) || ta == tb || (ta == .string || tb == .string)
          || (ta == .null || tb == .null) then some .bool else none
    | _, _ => none
  | .logic a b =>
    match typeOf a, typeOf b with
    | some ta, some tb =>
      if (ta == .bool || ta == .null) && (tb == .bool || tb == .null) then some .bool else none
    | _, _ => none
  | .ite c t e =>
    match typeOf c, typeOf t, typeOf e with
    | some tc, some tt, some te => if tc == .bool && tt == te then some tt else none
    | _, _, _ => none
  | .inl x xs =>
    match typeOf x, typeOfList xs with
    | some tx, some ts => if ts.any (fun t => t != tx) then none else some .bool
    | _, _ => none
  | .isnull _ => some .bool
  | .extract a =>
    match typeOf a with
    | some ta => if ta == .date || ta == .interval then some .int32 else none
    | none => none
  | .substring s a b =>
    match typeOf s, typeOf a, typeOf b with
    | some ts, some ta, some tb =>
      if ts == .string && ta == .int32 && tb == .int32 then some .string else none
    | _, _, _ => none
  | .repeat_ s n =>
    match typeOf s, typeOf n with
    | some ts, some tn => if ts == .string && tn == .int32 then some .string else none
    | _, _ => none
  | .replace a f t =>
    match typeOf a, typeOf f, typeOf t with
    | some ta, some tf, some tt =>
      if ta == .string && tf == .string && tt == .string then some .string else none
    | _, _, _ => none
  | .agg .same a => typeOf a
  | .agg .number a =>
    match typeOf a with | some ta => if ta.isNumber then some ta else none | none => none
  | .agg .count _ => some .int32
  | .rowcount => some .int32
/-- `List(list) => Struct(list.map(x).try_collect()?)`. -/
def typeOfList : List TExpr → Option (List DT)
  | [] => some []
  | x :: xs =>
    match typeOf x, typeOfList xs with
    | some t, some ts => some (t :: ts)
    | _, _ => none
end

/-! ### Plans: output struct types -/

inductive TPlan where
  | values (rows : List (List TExpr))
  | proj (es : List TExpr) (c : TPlan)
  | same (c : TPlan)                       -- filter order limit topn empty
  | join (semiOrAnti : Bool) (l r : TPlan)
  | agg (keys aggs : List TExpr) (c : TPlan) -- hashagg/sortagg: keys ++ aggs
  deriving Repr

def unionRow : List DT → List DT → Option (List DT)
  | [], [] => some []
  | a :: as, b :: bs =>
    match DT.union a b, unionRow as bs with
    | some t, some ts => some (t :: ts)
    | _, _ => none
  | _, _ => none

def unionRows (acc : List DT) : List (List TExpr) → Option (List DT)
  | [] => some acc
  | r :: rs =>
    match typeOfList r with
    | some tr => match unionRow acc tr with
      | some t => unionRows t rs
      | none => none
    | none => none

/-- Output column types of a plan (`Struct`); `Values` with no row has type Null in the code,
modelled as `none`-free empty struct is not needed: empty `values` is not generated. -/
def typeOfPlan : TPlan → Option (List DT)
  | .values [] => none
  | .values (r :: rs) => match typeOfList r with
    | some t => unionRows t rs
    | none => none
  | .proj es _ => typeOfList es
  | .same c => typeOfPlan c
  | .join true l _ => typeOfPlan l
  | .join false l r => match typeOfPlan l, typeOfPlan r with
    | some a, some b => some (a ++ b)
    | _, _ => none
  | .agg ks as _ => match typeOfList ks, typeOfList as with
    | some a, some b => some (a ++ b)
    | _, _ => none

/-! ### Tie to L4: static type of a kernel-language expression, dynamic type of a column -/

def DT.ofTy : Ty → DT
  | .null => .null
  | .bool => .bool
  | .int .w16 => .int16
  | .int .w32 => .int32
  | .int .w64 => .int64
  | .str => .string

def KVal.ty : KVal → Ty
  | .null => .null
  | .bool _ => .bool
  | .int w _ => .int w
  | .str _ => .str

/-- The typing view of an evaluator expression over columns of types `Γ`. -/
def toT (Γ : List Ty) : KExpr → TExpr
  | .col i => match Γ[i]? with | some t => .leaf (DT.ofTy t) | none => .bad
  | .const v => .leaf (DT.ofTy v.ty)
  | .arith _ a b => .arith (toT Γ a) (toT Γ b)
  | .cmp _ a b => .cmp (toT Γ a) (toT Γ b)
  | .and a b => .logic (toT Γ a) (toT Γ b)
  | .or a b => .logic (toT Γ a) (toT Γ b)
  | .not a => .not (toT Γ a)
  | .neg a => .neg (toT Γ a)
  | .isnull a => .isnull (toT Γ a)
  | .ite c t e => .ite (toT Γ c) (toT Γ t) (toT Γ e)
  | .cast t a => .cast (DT.ofTy t) (toT Γ a)
  | .concat a b => .concat (toT Γ a) (toT Γ b)
  | .like a _ => .like (toT Γ a) (.leaf .string)
  | .substring s b c => .substring (toT Γ s) (toT Γ b) (toT Γ c)
  | .replace a _ _ => .replace (toT Γ a) (.leaf .string) (.leaf .string)
  | .repeat_ s k => .repeat_ (toT Γ s) (toT Γ k)

/-! ### INSERT and the stored table -/

/-- A value offered to INSERT (the result of the VALUES / SELECT source). -/
inductive IVal where
  | null
  | bool (b : Bool)
  | int (w : IW) (v : Int)
  | str (s : String)
  | dec (tenths : Int)        -- a decimal literal with one fractional digit, e.g. 2.7 = 27
  deriving Repr, DecidableEq

/-- Declared column: type (among those modelled) and nullability (NOT NULL / PRIMARY KEY). -/
structure ColDecl where
  ty : Ty
  nullable : Bool
  deriving Repr, DecidableEq

/-! ### Column options of CREATE TABLE (src/binder/create_table.rs) -/

/-- The column options the binder understands (`ColumnOption::{Null, NotNull, Unique{is_primary}}`). -/
inductive ColOpt where
  | null | notNull | unique | primaryKey
  deriving Repr, DecidableEq

/-- `impl From<&ColumnDef> for ColumnCatalog`: the options are folded in declaration order;
`(is_nullable, is_primary)` start as `(true, false)`. -/
def optStep (st : Bool × Bool) : ColOpt → Bool × Bool
  | .null => (true, st.2)
  | .notNull => (false, st.2)
  | .unique => (st.1, false)
  | .primaryKey => (st.1, true)

def optFold (st : Bool × Bool) : List ColOpt → Bool × Bool
  | [] => st
  | o :: os => optFold (optStep st o) os

/-- `ordered_pks_from_columns`: one entry per PRIMARY KEY option occurrence. -/
def pkCount (opts : List ColOpt) : Nat := (opts.filter (· == .primaryKey)).length

/-- The catalogued column of a one-key table: `bind_create_table` sets `set_nullable(false)` on
the primary-key column after the fold; more than one PRIMARY KEY occurrence is rejected
(`NotSupportedTSQL`). Result: `(is_nullable, is_primary)` or `none` (bind error). -/
def catalogOf (opts : List ColOpt) : Option (Bool × Bool) :=
  if pkCount opts > 1 then none
  else
    let st := optFold (true, false) opts
    some (if pkCount opts == 1 then false else st.1, st.2)

/-- The nullability the SQL text declares: the LAST of NULL / NOT NULL, if any. -/
def lastNullability : List ColOpt → Option Bool
  | [] => none
  | o :: os =>
    match lastNullability os with
    | some b => some b
    | none => match o with
      | .null => some true
      | .notNull => some false
      | _ => none

/-! ### Table-level `PRIMARY KEY (c1, …, cn)` (`Binder::bind_create_table`) -/

/-- `ordered_pks_from_columns`: the index of a column once per PRIMARY KEY option occurrence. -/
def inlineKeyFrom (n : Nat) : List (List ColOpt) → List Nat
  | [] => []
  | c :: cs => List.replicate (pkCount c) n ++ inlineKeyFrom (n + 1) cs

/-- `columns[index].set_nullable(false)`. -/
def setNotNull : Nat → List (Bool × Bool) → List (Bool × Bool)
  | _, [] => []
  | 0, p :: ps => (false, p.2) :: ps
  | i + 1, p :: ps => p :: setNotNull i ps

/-- `for &index in &ordered_pk_ids { columns[index].set_nullable(false) }`. -/
def forceNotNull : List Nat → List (Bool × Bool) → List (Bool × Bool)
  | [], l => l
  | k :: ks, l => forceNotNull ks (setNotNull k l)

/-- What `bind_create_table` catalogues for a whole table: `cols` = the option list of every column,
`key` = the column indices of the (first) table-level `PRIMARY KEY (…)` constraint in the order listed.
More than one inline PRIMARY KEY occurrence, or an inline key together with a table-level one, is
`NotSupportedTSQL`; a key column that does not exist is `InvalidColumn`. Otherwise every column is
the fold of its options and EVERY column of the key (inline or table-level) is forced NOT NULL.
Result: `(is_nullable, is_primary)` per column, or `none` (bind error). `is_primary` is set by the
inline option only. -/
def tableCatalogOf (cols : List (List ColOpt)) (key : List Nat) : Option (List (Bool × Bool)) :=
  let inl := inlineKeyFrom 0 cols
  if inl.length > 1 then none
  else if !inl.isEmpty && !key.isEmpty then none
  else if key.any (fun i => decide (cols.length ≤ i)) then none
  else
    let ordered := if inl.isEmpty then key else inl
    some (forceNotNull ordered (cols.map (optFold (true, false))))

/-- `ArrayImpl::cast` on one value, as INSERT uses it: `Ok(v')` or `Err`. -/
def castI (t : Ty) (v : IVal) : KOut IVal :=
  match v, t with
  | .null, _ => .ok .null
  | _, .null => .err
  | .bool b, .bool => .ok (.bool b)
  | .bool b, .int w => .ok (.int w (if b then 1 else 0))
  | .bool b, .str => .ok (.str (if b then "true" else "false"))
  | .int _ x, .bool => .ok (.bool (x != 0))
  | .int _ x, .int w' => if w'.fits x then .ok (.int w' x) else .err
  | .int _ x, .str => .ok (.str (toString x))
  | .str s, .str => .ok (.str s)
  | .str s, .int w => match parseIntStr s with
    | some x => if w.fits x then .ok (.int w x) else .err
    | none => .err
  | .str s, .bool => if s == "true" then .ok (.bool true) else if s == "false" then .ok (.bool false) else .err
  | .dec d, .int w => if w.fits (Int.tdiv d 10) then .ok (.int w (Int.tdiv d 10)) else .err
  | .dec d, .bool => .ok (.bool (d != 0))
  | .dec _, .str => .err   -- Display of decimals is not modelled; not generated

def IVal.dynTy : IVal → Ty
  | .null => .null
  | .bool _ => .bool
  | .int w _ => .int w
  | .str _ => .str
  | .dec _ => .null   -- never stored: every cast of a decimal yields another variant

/-- One column of `InsertExecutor`: `cast(declared, value-or-null)`, then (since /repo 652f6b6)
a NULL for a NOT NULL / PRIMARY KEY column fails the statement. -/
def castCol (d : ColDecl) (v : IVal) : KOut IVal :=
  match castI d.ty v with
  | .ok x => if x == .null && !d.nullable then .err else .ok x
  | .err => .err
  | .panic => .panic

/-- `InsertExecutor`: every table column gets `castCol`; the first failure fails the statement
(nothing is appended). -/
def castRow : List ColDecl → List IVal → KOut (List IVal)
  | d :: ds, v :: vs =>
    match castCol d v with
    | .ok x => match castRow ds vs with
      | .ok r => .ok (x :: r)
      | .err => .err
      | .panic => .panic
    | .err => .err
    | .panic => .panic
  | [], [] => .ok []
  | _, _ => .panic

inductive Engine where
  | mem | disk
  deriving Repr, DecidableEq

/-- Default value a non-nullable on-disk column yields for a slot that was NULL when written
(the plain block encodings have no validity bitmap). -/
def diskDefault : Ty → IVal
  | .bool => .bool false
  | .int w => .int w 0
  | .str => .str ""
  | .null => .null

/-- What `SELECT *` returns for a stored (already cast) value. -/
def readBack (e : Engine) (d : ColDecl) (v : IVal) : IVal :=
  match e, d.nullable, v with
  | .disk, false, .null => diskDefault d.ty
  | _, _, v => v

def readRow (e : Engine) : List ColDecl → List IVal → List IVal
  | d :: ds, v :: vs => readBack e d v :: readRow e ds vs
  | _, _ => []

/-- A table after a sequence of single-row INSERTs (failed statements leave it unchanged). -/
def insertAll (decls : List ColDecl) : List (List IVal) → List (List IVal)
  | [] => []
  | r :: rs =>
    match castRow decls r with
    | .ok row => row :: insertAll decls rs
    | _ => insertAll decls rs

def selectAll (e : Engine) (decls : List ColDecl) (rows : List (List IVal)) : List (List IVal) :=
  (insertAll decls rows).map (readRow e decls)

/-! ### The property's side of INSERT: lossless-or-fail conversion, NOT NULL enforced -/

/-- Numeric denotation in tenths (TRUE = 1, FALSE = 0; strings by their integer reading). -/
def IVal.tenths : IVal → Option Int
  | .null => none
  | .bool b => some (if b then 10 else 0)
  | .int _ x => some (10 * x)
  | .str s => (parseIntStr s).map (10 * ·)
  | .dec d => some d

/-- A conversion is lossy when both sides denote numbers and the numbers differ. -/
def lossy (v v' : IVal) : Bool :=
  match v.tenths, v'.tenths with
  | some a, some b => a != b
  | _, _ => false

/-- What the property demands of one column of one INSERT: NULL only into a nullable column,
otherwise the converted value if the conversion is lossless, else the statement fails. -/
def specCol (d : ColDecl) (v : IVal) : KOut IVal :=
  if v == .null && !d.nullable then .err
  else match castI d.ty v with
    | .ok v' => if lossy v v' then .err else .ok v'
    | .err => .err
    | .panic => .panic

def specRow : List ColDecl → List IVal → KOut (List IVal)
  | d :: ds, v :: vs =>
    match specCol d v with
    | .ok x => match specRow ds vs with
      | .ok r => .ok (x :: r)
      | .err => .err
      | .panic => .panic
    | .err => .err
    | .panic => .panic
  | [], [] => .ok []
  | _, _ => .panic

def specTable (decls : List ColDecl) : List (List IVal) → List (List IVal)
  | [] => []
  | r :: rs =>
    match specRow decls r with
    | .ok row => row :: specTable decls rs
    | _ => specTable decls rs

def IVal.kind : IVal → String
  | .null => "null" | .bool _ => "bool" | .int _ _ => "int" | .str _ => "string" | .dec _ => "decimal"

def Ty.kind : Ty → String
  | .null => "null" | .bool => "bool" | .int _ => "int" | .str => "string"

/-- Reason tags of one column (why the stored / returned value is not what the property says). -/
def colTags (_e : Engine) (d : ColDecl) (v : IVal) : List String :=
  if v == .null && !d.nullable then []   -- rejected by INSERT since /repo 652f6b6
  else match castI d.ty v with
    | .ok v' => if lossy v v' then ["insert:lossy-cast:" ++ v.kind ++ "->" ++ d.ty.kind] else []
    | _ => []

def rowTags (e : Engine) : List ColDecl → List IVal → List String
  | d :: ds, v :: vs => colTags e d v ++ rowTags e ds vs
  | _, _ => []

/-! ### Column-subset INSERT and INSERT … SELECT -/

/-- `INSERT INTO t(cols…) VALUES (…)`: the columns not listed get `(cast T null)`. -/
def expandRow (ncols : Nat) (cols : List Nat) (vs : List IVal) : List IVal :=
  (List.range ncols).map fun i =>
    match (cols.zip vs).find? (fun p => p.1 == i) with
    | some p => p.2
    | none => .null

/-- `INSERT INTO t SELECT * FROM s`: one statement — every row converts or nothing is stored. -/
def insertSelect (decls : List ColDecl) (src : List (List IVal)) : List (List IVal) :=
  if src.all (fun r => (castRow decls r).isOk) then insertAll decls src else []

def specInsertSelect (decls : List ColDecl) (src : List (List IVal)) : List (List IVal) :=
  if src.all (fun r => (specRow decls r).isOk) then specTable decls src else []

/-! ### Multi-row `INSERT … VALUES (r1), (r2), …` (one statement)

The VALUES node types every column as the UNION of the literal types of all rows
(`DataType::union`); `ValuesExecutor` casts every literal to that type (`column_types` = the node's
type), then `InsertExecutor` casts to the declared column types. One failure fails the statement. -/

/-- Literal types of the modelled INSERT values, in `DataType`'s rank order. -/
inductive UTy where
  | null | bool | int32 | int64 | dec | str
  deriving Repr, DecidableEq

def UTy.rank : UTy → Nat
  | .null => 0 | .bool => 1 | .int32 => 2 | .int64 => 3 | .dec => 4 | .str => 5

/-- `DataType::union` on these types: the one of higher rank (every pair is compatible). -/
def UTy.union (a b : UTy) : UTy := if a.rank ≤ b.rank then b else a

/-- The type the parser / binder gives the literal (an integer literal is INT if it fits, else BIGINT). -/
def IVal.uty : IVal → UTy
  | .null => .null
  | .bool _ => .bool
  | .int _ x => if IW.w32.fits x then .int32 else .int64
  | .str _ => .str
  | .dec _ => .dec

/-- `ValuesExecutor`: the literal cast UP to the column's union type. -/
def castU (u : UTy) (v : IVal) : KOut IVal :=
  match v, u with
  | .null, _ => .ok .null
  | .bool b, .bool => .ok (.bool b)
  | .bool b, .int32 => .ok (.int .w32 (if b then 1 else 0))
  | .bool b, .int64 => .ok (.int .w64 (if b then 1 else 0))
  | .bool b, .dec => .ok (.dec (if b then 10 else 0))
  | .bool b, .str => .ok (.str (if b then "true" else "false"))
  | .int _ x, .int32 => .ok (.int .w32 x)
  | .int _ x, .int64 => .ok (.int .w64 x)
  | .int _ x, .dec => .ok (.dec (10 * x))
  | .int _ x, .str => .ok (.str (toString x))
  | .dec d, .dec => .ok (.dec d)
  | .str s, .str => .ok (.str s)
  | _, _ => .err     -- never a union of the column (decimal → string: Display not modelled, not generated)

def unionRowU : List UTy → List UTy → List UTy
  | a :: as, b :: bs => a.union b :: unionRowU as bs
  | _, _ => []

/-- Column types of the VALUES node. -/
def unionCols : List (List IVal) → List UTy
  | [] => []
  | r :: rs => rs.foldl (fun acc r' => unionRowU acc (r'.map IVal.uty)) (r.map IVal.uty)

def castRowU : List UTy → List IVal → KOut (List IVal)
  | u :: us, v :: vs =>
    match castU u v with
    | .ok x => match castRowU us vs with
      | .ok r => .ok (x :: r)
      | .err => .err
      | .panic => .panic
    | .err => .err
    | .panic => .panic
  | [], [] => .ok []
  | _, _ => .panic

/-- One multi-row INSERT statement: every literal through the column's union type, then to the
declared type; all rows or none. -/
def insertValues (decls : List ColDecl) (rows : List (List IVal)) : List (List IVal) :=
  let us := unionCols rows
  let conv := rows.map fun r => match castRowU us r with | .ok r' => castRow decls r' | x => x
  if conv.all (fun c => c.isOk) then conv.filterMap (fun c => match c with | .ok r => some r | _ => none) else []

/-- The property's side: every literal converted DIRECTLY to the declared type (lossless or fail),
all rows or none; a statement that fails as a whole is always allowed. -/
def specInsertValues (decls : List ColDecl) (rows : List (List IVal)) : List (List IVal) :=
  if (insertValues decls rows).isEmpty then [] else specInsertSelect decls rows

/-- Where the detour through the union type changes the stored value (`true` next to an integer literal
becomes 1 and is stored as '1' in a STRING column, not 'true'). -/
def detourTags (decls : List ColDecl) (rows : List (List IVal)) : List String :=
  let us := unionCols rows
  (rows.map fun r =>
    ((decls.zip (us.zip r)).filterMap fun (d, u, v) =>
      match castU u v with
      | .ok v' => match castCol d v', castCol d v with
        | .ok a, .ok b => if a != b then some ("insert:values-union-detour:" ++ v.kind ++ "->" ++ d.ty.kind) else none
        | _, _ => none
      | _ => none)).flatten.eraseDups

end RlModel
