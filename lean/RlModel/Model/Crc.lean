/-
L7 (C18): CRC-32 (IEEE 802.3, reflected, as computed by `crc32fast::hash`), the 16-byte block
trailer of `block_index_builder.rs finish_block` / `block.rs BlockMeta`, the 24-byte index
footer of `index_builder.rs` / `index.rs ColumnIndex::from_bytes`, `checksum.rs verify_checksum`,
and the read path of `column.rs Column::get_block` with its block cache.

Core Lean only (the drivers link as `lean_exe`).

CRC register: a `Nat` below 2^32.  One *bit* step of the reflected algorithm is
`step s b = step0 (s ^^^ b)` with `step0 s = (s >>> 1) ^^^ (if s odd then POLY else 0)`; a byte
is fed least-significant bit first; the register starts at 0xFFFFFFFF and is complemented at
the end.  (Equal to the usual "xor the byte in, shift eight times" formulation; agreement with
`crc32fast` is part of the C18 correspondence run.)
-/
namespace RlModel

abbrev Bytes := List UInt8

/-- Reflected CRC-32 polynomial 0xEDB88320. -/
def CRC_POLY : Nat := 0xEDB88320

def CRC_INIT : Nat := 0xFFFFFFFF

/-- One zero-input step of the register. -/
def crcStep0 (s : Nat) : Nat := (s / 2) ^^^ (if s % 2 = 1 then CRC_POLY else 0)

/-- One step with input bit `b`. -/
def crcStep (s : Nat) (b : Bool) : Nat := crcStep0 (s ^^^ b.toNat)

/-- Bits of a byte, least significant first. -/
def byteBits (x : UInt8) : List Bool :=
  let n := x.toNat
  [n % 2 = 1, n / 2 % 2 = 1, n / 4 % 2 = 1, n / 8 % 2 = 1,
   n / 16 % 2 = 1, n / 32 % 2 = 1, n / 64 % 2 = 1, n / 128 % 2 = 1]

/-- The bit stream of a byte string. -/
def bitsOf : Bytes → List Bool
  | [] => []
  | x :: xs => byteBits x ++ bitsOf xs

/-- Run the register over a bit stream. -/
def crcRun (s : Nat) : List Bool → Nat
  | [] => s
  | b :: bs => crcRun (crcStep s b) bs

/-- `crc32fast::hash`. -/
def crc32 (data : Bytes) : Nat := crcRun CRC_INIT (bitsOf data) ^^^ 0xFFFFFFFF

/-! ### Big/little endian fixed-width integers (`bytes::BufMut::put_u32` is big endian,
`put_u32_le` little endian). -/

def leBytes : Nat → Nat → Bytes
  | 0, _ => []
  | w + 1, n => UInt8.ofNat (n % 256) :: leBytes w (n / 256)

def natOfLE : Bytes → Nat
  | [] => 0
  | b :: bs => b.toNat + 256 * natOfLE bs

def beBytes (w n : Nat) : Bytes := (leBytes w n).reverse

def natOfBE (bs : Bytes) : Nat := natOfLE bs.reverse

/-! ### Checksums (`checksum.rs`) -/

/-- `ChecksumType`: 0 = None, 1 = Crc32 (rowset.proto). -/
inductive CkType | none | crc32
  deriving Repr, DecidableEq, Inhabited

def CkType.code : CkType → Nat
  | .none => 0
  | .crc32 => 1

def CkType.ofCode? : Nat → Option CkType
  | 0 => some .none
  | 1 => some .crc32
  | _ => Option.none

def buildChecksum (t : CkType) (data : Bytes) : Nat :=
  match t with
  | .none => 0
  | .crc32 => crc32 data

/-- `verify_checksum`: `true` = Ok. -/
def verifyChecksum (t : CkType) (data : Bytes) (cksum : Nat) : Bool :=
  buildChecksum t data == cksum

/-! ### Block trailer (`BlockIndexBuilder::finish_block`, `BlockMeta`) -/

def BLOCK_META_NON_CHECKSUM_SIZE : Nat := 4
def BLOCK_META_CHECKSUM_SIZE : Nat := 12
def BLOCK_META_SIZE : Nat := 16
/-- Number of `BlockType` enum values in rowset.proto (codes 0..18). -/
def BLOCK_TYPE_COUNT : Nat := 19

/-- payload ++ type(4, BE) ++ cktype(4, BE) ++ cksum(8, BE); checksum over payload ++ type. -/
def sealBlock (ck : CkType) (blockType : Nat) (payload : Bytes) : Bytes :=
  let body := payload ++ beBytes 4 blockType
  body ++ beBytes 4 ck.code ++ beBytes 8 (buildChecksum ck body)

/-- Outcome classes of a read. -/
inductive ReadErr | decode | checksum | io
  deriving Repr, DecidableEq, Inhabited

instance {α : Type} [DecidableEq α] : DecidableEq (Except ReadErr α) := fun a b =>
  match a, b with
  | .ok x, .ok y => if h : x = y then isTrue (by rw [h]) else isFalse (by intro e; cases e; exact h rfl)
  | .error x, .error y => if h : x = y then isTrue (by rw [h]) else isFalse (by intro e; cases e; exact h rfl)
  | .ok _, .error _ => isFalse (by intro e; cases e)
  | .error _, .ok _ => isFalse (by intro e; cases e)

/-- `verify_stored_checksum(configured, stored, data, checksum)`: the stored type comes from the same
unprotected bytes as the checksum, so a stored `None` is refused (decode error) when the storage is
configured to write checksums; otherwise `verify_checksum(stored, ..)`.  `none` = Ok. -/
def verifyStored (cfg stored : CkType) (data : Bytes) (cksum : Nat) : Option ReadErr :=
  if stored == .none && cfg != .none then some .decode
  else if verifyChecksum stored data cksum then none else some .checksum

/-- `BlockMeta::decode` on the last 16 bytes + `verify_stored_checksum` (only when `verify`: a
fresh load; cache hits are not verified).  `cfg` = `StorageOptions::checksum_type`.
Returns (block type, payload). -/
def openBlockCfg (cfg : CkType) (verify : Bool) (block : Bytes) : Except ReadErr (Nat × Bytes) :=
  if block.length < BLOCK_META_SIZE then .error .decode
  else
    let n := block.length
    let bt := natOfBE ((block.drop (n - 16)).take 4)
    let ct := natOfBE ((block.drop (n - 12)).take 4)
    let ck := natOfBE ((block.drop (n - 8)).take 8)
    -- `BlockType::try_from(i32)`: a value outside the enum is a decode error
    if bt ≥ BLOCK_TYPE_COUNT then .error .decode
    else match CkType.ofCode? ct with
      | none => .error .decode
      | some t =>
        match (if verify then verifyStored cfg t (block.take (n - BLOCK_META_CHECKSUM_SIZE)) ck else none) with
        | some e => .error e
        | none => .ok (bt, block.take (n - BLOCK_META_SIZE))

/-- The read of a database configured with `Crc32` (`StorageOptions::default_for_cli`, tied to the
source by `Gen.CK_DEFAULT_FOR_CLI`): everything below is stated for it. -/
def openBlock (verify : Bool) (block : Bytes) : Except ReadErr (Nat × Bytes) := openBlockCfg .crc32 verify block

/-- The read BEFORE the repair of `trailer:cktype-overwrite` (the stored type is trusted); it is also
the read of a database configured without checksums. -/
def openBlockTrusting (verify : Bool) (block : Bytes) : Except ReadErr (Nat × Bytes) := openBlockCfg .none verify block

/-! ### Read path with the block cache (`Column::get_block`)

Since the repair `fix: verify block checksum before publishing the block in the cache`: the loader
passed to `try_get_with(key, load)` decodes the trailer and verifies the checksum itself and returns
`Err` on failure, and moka does not cache a failed load — so only verified blocks are ever published
(`getBlock`).  `getBlockCacheFirst` is the read path before the repair (bytes inserted by moka before
`get_block` verified them, a failed verification did not evict the entry); it is kept so that the
refutation of that design stays machine-checked. -/

structure BlockCache where
  entries : List (Nat × Bytes) := []
  deriving Repr, Inhabited

def BlockCache.get (c : BlockCache) (k : Nat) : Option Bytes :=
  (c.entries.find? (·.1 == k)).map (·.2)

def BlockCache.insert (c : BlockCache) (k : Nat) (v : Bytes) : BlockCache :=
  { entries := (k, v) :: c.entries.filter (·.1 != k) }

/-- The read path BEFORE the repair: cache first, verify afterwards (fresh loads only).
A short file is an I/O error (`read_exact_at`), which `try_get_with` does not cache. -/
def getBlockCacheFirst (cache : BlockCache) (file : Bytes) (key off len : Nat) :
    BlockCache × Except ReadErr (Nat × Bytes) :=
  match cache.get key with
  | some b => (cache, openBlock false b)
  | none =>
    if file.length < off + len then (cache, .error .io)
    else
      let b := (file.drop off).take len
      (cache.insert key b, openBlock true b)

/-- One `get_block(block_id)` against file bytes `file` with index entry (offset, length): verify,
then publish; cache hits are served unverified (they were verified when loaded). -/
def getBlock (cache : BlockCache) (file : Bytes) (key off len : Nat) :
    BlockCache × Except ReadErr (Nat × Bytes) :=
  match cache.get key with
  | some b => (cache, openBlock false b)
  | none =>
    if file.length < off + len then (cache, .error .io)
    else
      let b := (file.drop off).take len
      match openBlock true b with
      | .ok r => (cache.insert key b, .ok r)
      | .error e => (cache, .error e)

/-! ### Index footer (`IndexBuilder::finish`, `ColumnIndex::from_bytes`) -/

def SECONDARY_INDEX_MAGIC : Nat := 0x2333
def INDEX_FOOTER_SIZE : Nat := 24

/-- entries ++ magic(4) ++ count(8) ++ cktype(4) ++ cksum(8), all big endian; the checksum
covers the entries only (not magic / count / cktype). -/
def sealIndexWith (entries : Bytes) (count : Nat) (ck : CkType) (cksum : Nat) : Bytes :=
  entries ++ beBytes 4 SECONDARY_INDEX_MAGIC ++ beBytes 8 count ++ beBytes 4 ck.code ++ beBytes 8 cksum

def sealIndex (ck : CkType) (count : Nat) (entries : Bytes) : Bytes :=
  sealIndexWith entries count ck (buildChecksum ck entries)

/-- Length-delimited framing of the entry area (`BlockIndex::decode_length_delimited` in a loop):
LEB128 length, then that many bytes.  Number of frames if the area is exactly a sequence of
complete frames, `none` if the last one is cut (fuel = bytes).  The CONTENT of a frame (the
protobuf fields of a `BlockIndex`) is not modelled. -/
def varintLen : Nat → Bytes → Option (Nat × Nat)
  | 0, _ => none
  | _ + 1, [] => none
  | fuel + 1, b :: rest =>
    if b.toNat < 128 then some (b.toNat, 1)
    else match varintLen fuel rest with
      | none => none
      | some (v, used) => some (b.toNat - 128 + 128 * v, used + 1)

def frameCount : Nat → Bytes → Option Nat
  | 0, bs => if bs.isEmpty then some 0 else none
  | fuel + 1, bs =>
    if bs.isEmpty then some 0
    else match varintLen 10 bs with
      | none => none
      | some (len, used) =>
        if bs.length < used + len then none
        else (frameCount fuel (bs.drop (used + len))).map (· + 1)

/-- `ColumnIndex::from_bytes(data, cfg)`: footer, `verify_stored_checksum`, then `count` entries
are decoded and must fill the entry area exactly (the count is outside the checksum; a count larger
than the area is refused before anything is allocated).  Returns (entry count, entry bytes).
(Slicing `data[..len-24]` on a shorter file panics in the implementation: class `decode` here.) -/
def openIndexCfg (cfg : CkType) (data : Bytes) : Except ReadErr (Nat × Bytes) :=
  if data.length < INDEX_FOOTER_SIZE then .error .decode
  else
    let n := data.length
    let body := data.take (n - 24)
    let magic := natOfBE ((data.drop (n - 24)).take 4)
    let count := natOfBE ((data.drop (n - 20)).take 8)
    let ct := natOfBE ((data.drop (n - 12)).take 4)
    let ck := natOfBE ((data.drop (n - 8)).take 8)
    if magic != SECONDARY_INDEX_MAGIC then .error .decode
    else match CkType.ofCode? ct with
      | none => .error .decode
      | some t =>
        match verifyStored cfg t body ck with
        | some e => .error e
        | none => if frameCount body.length body == some count then .ok (count, body) else .error .decode

def openIndex (data : Bytes) : Except ReadErr (Nat × Bytes) := openIndexCfg .crc32 data

/-- `from_bytes` BEFORE the repairs of `idx-footer:cktype-overwrite` and
`idx:footer-count-unprotected`: stored type trusted, count taken as it is. -/
def openIndexTrusting (data : Bytes) : Except ReadErr (Nat × Bytes) :=
  if data.length < INDEX_FOOTER_SIZE then .error .decode
  else
    let n := data.length
    let body := data.take (n - 24)
    let magic := natOfBE ((data.drop (n - 24)).take 4)
    let count := natOfBE ((data.drop (n - 20)).take 8)
    let ct := natOfBE ((data.drop (n - 12)).take 4)
    let ck := natOfBE ((data.drop (n - 8)).take 8)
    if magic != SECONDARY_INDEX_MAGIC then .error .decode
    else match CkType.ofCode? ct with
      | none => .error .decode
      | some t => if verifyChecksum t body ck then .ok (count, body) else .error .checksum

end RlModel
