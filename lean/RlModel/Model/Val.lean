import RlModel.Model.Sexp
/-
L0 core: SQL values as RisingLight's `DataValue` (src/types/value.rs), restricted to the
variants the relational / expression models use, their canonical wire text, SQL three-valued
logic, and the `derive(Ord)` order of `DataValue` (variant rank first, then payload).

Import-free (core Lean only) so that drivers importing it link as `lean_exe`.
-/
namespace RlModel

/-- SQL value.  Integer payloads are unbounded `Int`; width/overflow is C14's business and is
modelled there with explicit ranges. -/
inductive Val where
  | null
  | bool (b : Bool)
  | i16 (v : Int)
  | i32 (v : Int)
  | i64 (v : Int)
  | str (s : String)
  deriving Repr, BEq, DecidableEq, Inhabited

namespace Val

/-- Variant rank = declaration order of `enum DataValue` (Null first ⇒ NULL sorts lowest).
The translator re-derives this order from the source on every run (`Gen.ValueOrder`) and the
C19 check compares. -/
def rank : Val → Nat
  | null => 0 | bool _ => 1 | i16 _ => 2 | i32 _ => 3 | i64 _ => 4 | str _ => 6

def isNull : Val → Bool
  | null => true
  | _ => false

/-- Integer payload of any integer variant. -/
def int? : Val → Option Int
  | i16 v | i32 v | i64 v => some v
  | _ => none

def compareBool : Bool → Bool → Ordering
  | false, true => .lt
  | true, false => .gt
  | _, _ => .eq

/-- Lexicographic byte order of UTF-8 (what `str::cmp` is). -/
def compareBytes : List UInt8 → List UInt8 → Ordering
  | [], [] => .eq
  | [], _ :: _ => .lt
  | _ :: _, [] => .gt
  | a :: as, b :: bs => if a < b then .lt else if b < a then .gt else compareBytes as bs

def compareStr (a b : String) : Ordering := compareBytes a.toUTF8.toList b.toUTF8.toList

/-- `derive(Ord)` on `DataValue`: variant rank, then payload. -/
def cmp : Val → Val → Ordering
  | null, null => .eq
  | bool a, bool b => compareBool a b
  | i16 a, i16 b => compare a b
  | i32 a, i32 b => compare a b
  | i64 a, i64 b => compare a b
  | str a, str b => compareStr a b
  | a, b => compare a.rank b.rank

/-- Canonical wire text, identical to `rlverif::canon_value`. -/
def canon : Val → String
  | null => "null"
  | bool b => if b then "b:true" else "b:false"
  | i16 v => "i16:" ++ toString v
  | i32 v => "i32:" ++ toString v
  | i64 v => "i64:" ++ toString v
  | str s => "s:" ++ hexOfBytes s.toUTF8.toList

def parseInt? (s : String) : Option Int := s.toInt?

/-- Inverse of `canon` on the modelled variants (strings must be valid UTF-8). -/
def ofCanon (t : String) : Option Val :=
  if t == "null" then some null
  else if t == "b:true" then some (bool true)
  else if t == "b:false" then some (bool false)
  else if t.startsWith "i16:" then (parseInt? (t.drop 4).toString).map i16
  else if t.startsWith "i32:" then (parseInt? (t.drop 4).toString).map i32
  else if t.startsWith "i64:" then (parseInt? (t.drop 4).toString).map i64
  else if t.startsWith "s:" then do
    let bs ← bytesOfHex (t.drop 2).toString.toList
    let s ← String.fromUTF8? (ByteArray.mk bs.toArray)
    pure (str s)
  else none

end Val

/-- SQL three-valued logic on `Option Bool` (`none` = NULL/unknown). -/
def and3 : Option Bool → Option Bool → Option Bool
  | some false, _ => some false
  | _, some false => some false
  | some true, some true => some true
  | _, _ => none

def or3 : Option Bool → Option Bool → Option Bool
  | some true, _ => some true
  | _, some true => some true
  | some false, some false => some false
  | _, _ => none

def not3 : Option Bool → Option Bool
  | some b => some (!b)
  | none => none

abbrev Row := List Val

def rowCanon (r : Row) : String := "(" ++ " ".intercalate (r.map Val.canon) ++ ")"

/-- Lexicographic comparison of rows by `Val.cmp` (used to print bags canonically). -/
def rowCmp : Row → Row → Ordering
  | [], [] => .eq
  | [], _ :: _ => .lt
  | _ :: _, [] => .gt
  | a :: as, b :: bs => match Val.cmp a b with
    | .eq => rowCmp as bs
    | o => o

/-- Insertion sort by a comparison (stable). -/
def insertBy {α} (cmp : α → α → Ordering) (x : α) : List α → List α
  | [] => [x]
  | y :: ys => if cmp x y == .lt then x :: y :: ys else y :: insertBy cmp x ys

def sortBy {α} (cmp : α → α → Ordering) : List α → List α
  | [] => []
  | x :: xs => insertBy cmp x (sortBy cmp xs)

end RlModel
