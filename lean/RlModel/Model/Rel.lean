import RlModel.Model.Val
/-
L1 — the relational SPEC (written from the SQL standard, not from the code).

A relation is a `List Row`; two relations are "the same answer" when they are `List.Perm`
(bag equality), ordered results are additionally compared on their ORDER BY keys.
Everything is defined with `filter` / `flatMap` / `map` so that the algebraic laws the
optimizer relies on (filter push-down, join commutation, …) are plain list equalities.

Conventions used by every operator:
* a predicate is `Row → Option Bool` (SQL three-valued logic, `none` = NULL/unknown) and a
  row qualifies iff the predicate is `some true`;
* a join condition sees the concatenated row `l ++ r`;
* outer joins pad with `nulls n` where `n` is the arity of the missing side (the arity has
  to be passed because an empty relation does not know its own width);
* aggregates see the *column of argument values* of the group (`List Val`);
* GROUP BY / DISTINCT treat NULLs as equal to each other (SQL: "not distinct"), i.e. group
  keys are compared with structural equality of `Val`;
* ORDER BY uses the total order `Val.cmp` (NULL lowest: first when ascending, last when
  descending — RisingLight's and SQLite's convention; the standard leaves it open) and is
  stable.

Import-free apart from `Model.Val` (core Lean only): drivers importing it link as `lean_exe`.
-/
namespace RlModel

/-! ## three-valued comparison of values (what `a = b`, `a < b` mean in SQL) -/

/-- SQL comparison of two values: `none` when either is NULL (or the two are not comparable),
otherwise the ordering.  Integers of different widths compare by value (SQL promotes). -/
def sqlCmp : Val → Val → Option Ordering
  | .null, _ => none
  | _, .null => none
  | .bool a, .bool b => some (Val.compareBool a b)
  | .str a, .str b => some (Val.compareStr a b)
  | a, b => match a.int?, b.int? with
    | some x, some y => some (compare x y)
    | _, _ => none

/-- SQL `a = b`: unknown when either side is NULL. -/
def sqlEq (a b : Val) : Option Bool := (sqlCmp a b).map (· == .eq)
def sqlNe (a b : Val) : Option Bool := (sqlCmp a b).map (· != .eq)
def sqlLt (a b : Val) : Option Bool := (sqlCmp a b).map (· == .lt)
def sqlLe (a b : Val) : Option Bool := (sqlCmp a b).map (· != .gt)
def sqlGt (a b : Val) : Option Bool := (sqlCmp a b).map (· == .gt)
def sqlGe (a b : Val) : Option Bool := (sqlCmp a b).map (· != .lt)

/-- A row qualifies iff the predicate is TRUE (not FALSE, not UNKNOWN). -/
def holds (b : Option Bool) : Bool := b == some true

/-- Boolean column value ↔ three-valued truth value. -/
def Val.truth : Val → Option Bool
  | .bool b => some b
  | _ => none

def Val.ofTruth : Option Bool → Val
  | some b => .bool b
  | none => .null

/-- `n` NULLs: the padding of an outer join. -/
def nulls (n : Nat) : Row := List.replicate n Val.null

/-! ## selection, projection -/

abbrev Pred := Row → Option Bool

def filterRel (p : Pred) (X : List Row) : List Row := X.filter (fun r => holds (p r))

def projRel (fs : List (Row → Val)) (X : List Row) : List Row := X.map (fun r => fs.map (· r))

/-! ## joins -/

inductive JoinType where
  | inner | leftOuter | rightOuter | fullOuter | semi | anti
  deriving Repr, BEq, DecidableEq, Inhabited

/-- right rows matching left row `l`. -/
def matchesOf (on : Pred) (l : Row) (R : List Row) : List Row :=
  R.filter (fun r => holds (on (l ++ r)))

/-- does right row `r` match some left row? -/
def matchedBy (on : Pred) (L : List Row) (r : Row) : Bool :=
  L.any (fun l => holds (on (l ++ r)))

def innerJoin (on : Pred) (L R : List Row) : List Row :=
  L.flatMap (fun l => (matchesOf on l R).map (l ++ ·))

/-- left rows without a partner, padded on the right. -/
def leftUnmatched (on : Pred) (nR : Nat) (L R : List Row) : List Row :=
  (L.filter (fun l => (matchesOf on l R).isEmpty)).map (· ++ nulls nR)

/-- right rows without a partner, padded on the left. -/
def rightUnmatched (on : Pred) (nL : Nat) (L R : List Row) : List Row :=
  (R.filter (fun r => !matchedBy on L r)).map (nulls nL ++ ·)

/-- LEFT OUTER JOIN, row by row: the matches of `l`, or `l` padded when there are none. -/
def leftJoin (on : Pred) (nR : Nat) (L R : List Row) : List Row :=
  L.flatMap (fun l =>
    if (matchesOf on l R).isEmpty then [l ++ nulls nR] else (matchesOf on l R).map (l ++ ·))

def rightJoin (on : Pred) (nL : Nat) (L R : List Row) : List Row :=
  innerJoin on L R ++ rightUnmatched on nL L R

def fullJoin (on : Pred) (nL nR : Nat) (L R : List Row) : List Row :=
  leftJoin on nR L R ++ rightUnmatched on nL L R

def semiJoin (on : Pred) (L R : List Row) : List Row :=
  L.filter (fun l => !(matchesOf on l R).isEmpty)

def antiJoin (on : Pred) (L R : List Row) : List Row :=
  L.filter (fun l => (matchesOf on l R).isEmpty)

/-- All six join types.  `nL`, `nR` = arities of the two sides (used for padding only). -/
def joinRel (t : JoinType) (on : Pred) (nL nR : Nat) (L R : List Row) : List Row :=
  match t with
  | .inner => innerJoin on L R
  | .leftOuter => leftJoin on nR L R
  | .rightOuter => rightJoin on nL L R
  | .fullOuter => fullJoin on nL nR L R
  | .semi => semiJoin on L R
  | .anti => antiJoin on L R

/-- Correlated subquery application (`apply`): `sub l` is the right side evaluated for the
outer row `l`.  Only the types the planner produces. -/
def applyRel (t : JoinType) (nR : Nat) (L : List Row) (sub : Row → List Row) : List Row :=
  match t with
  | .inner => L.flatMap (fun l => (sub l).map (l ++ ·))
  | .leftOuter => L.flatMap (fun l => if (sub l).isEmpty then [l ++ nulls nR] else (sub l).map (l ++ ·))
  | .semi => L.filter (fun l => !(sub l).isEmpty)
  | .anti => L.filter (fun l => (sub l).isEmpty)
  | _ => []

/-- Equi-join condition on key lists: every pair of keys is SQL-equal (TRUE), three-valued. -/
def keysEq3 : List Val → List Val → Option Bool
  | [], [] => some true
  | a :: as, b :: bs => and3 (sqlEq a b) (keysEq3 as bs)
  | _, _ => some false

/-- The join predicate `lk₁ = rk₁ AND … AND residual` over the concatenated row; the keys are
given as functions of the left / right row and `nL` splits the concatenation. -/
def equiOn (nL : Nat) (lk rk : List (Row → Val)) (residual : Pred) : Pred := fun lr =>
  and3 (keysEq3 (lk.map (· (lr.take nL))) (rk.map (· (lr.drop nL)))) (residual lr)

/-! ## aggregation -/

inductive AggKind where
  | count | sum | min | max | countDistinct | first | last | rowCount
  deriving Repr, BEq, DecidableEq, Inhabited

structure AggCall where
  kind : AggKind
  arg : Row → Val

def nonNull (vs : List Val) : List Val := vs.filter (fun v => !v.isNull)

def sumInts : List Int → Int
  | [] => 0
  | x :: xs => x + sumInts xs

/-- integer payloads of the integer values in the list. -/
def intsOf (vs : List Val) : List Int := vs.filterMap Val.int?

/-- value of the same integer variant as the template. -/
def Val.withInt : Val → Int → Val
  | .i16 _, n => .i16 n
  | .i32 _, n => .i32 n
  | .i64 _, n => .i64 n
  | _, _ => .null

/-- keep the first occurrence of every element. -/
def dedup {α} [BEq α] : List α → List α
  | [] => []
  | x :: xs => x :: (dedup xs).filter (fun y => !(y == x))

/-- the smaller / larger of two values, a NULL operand is ignored. -/
def minVal (a b : Val) : Val :=
  if a.isNull then b else if b.isNull then a else if Val.cmp b a == .lt then b else a
def maxVal (a b : Val) : Val :=
  if a.isNull then b else if b.isNull then a else if Val.cmp b a == .gt then b else a

/-- `COUNT(x)`: number of non-NULL values (0 on empty input). -/
def aggCount (vs : List Val) : Val := .i32 (nonNull vs).length
/-- `SUM(x)`: sum of the non-NULL values, NULL when there is none; the result has the integer
type of the argument column. -/
def aggSum (vs : List Val) : Val :=
  match nonNull vs with
  | [] => .null
  | v :: rest => v.withInt (sumInts (intsOf (v :: rest)))
/-- `MIN(x)` / `MAX(x)`: over the non-NULL values, NULL when there is none. -/
def aggMin (vs : List Val) : Val := (nonNull vs).foldl minVal .null
def aggMax (vs : List Val) : Val := (nonNull vs).foldl maxVal .null
/-- `COUNT(DISTINCT x)`: number of distinct non-NULL values. -/
def aggCountDistinct (vs : List Val) : Val := .i32 (dedup (nonNull vs)).length
/-- `first` / `last` (RisingLight-internal; used for columns functionally dependent on the
group key): first / last non-NULL value, NULL when there is none. -/
def aggFirst (vs : List Val) : Val := (nonNull vs).head?.getD .null
def aggLast (vs : List Val) : Val := (nonNull vs).getLast?.getD .null
/-- `COUNT(*)`. -/
def aggRowCount (vs : List Val) : Val := .i32 vs.length

def aggVal : AggKind → List Val → Val
  | .count => aggCount
  | .sum => aggSum
  | .min => aggMin
  | .max => aggMax
  | .countDistinct => aggCountDistinct
  | .first => aggFirst
  | .last => aggLast
  | .rowCount => aggRowCount

def keyOf (ks : List (Row → Val)) (r : Row) : Row := ks.map (· r)

/-- rows of group `k`. -/
def groupRows (ks : List (Row → Val)) (k : Row) (X : List Row) : List Row :=
  X.filter (fun r => keyOf ks r == k)

/-- Aggregation WITHOUT GROUP BY: always exactly one row, also on empty input. -/
def scalarAgg (aggs : List AggCall) (X : List Row) : List Row :=
  [aggs.map (fun a => aggVal a.kind (X.map a.arg))]

/-- Aggregation WITH GROUP BY `ks` (possibly the empty key list): one row `key ++ aggregates`
per distinct key that occurs; no row on empty input. -/
def groupAgg (ks : List (Row → Val)) (aggs : List AggCall) (X : List Row) : List Row :=
  (dedup (X.map (keyOf ks))).map (fun k =>
    k ++ aggs.map (fun a => aggVal a.kind ((groupRows ks k X).map a.arg)))

/-- `SELECT DISTINCT`. -/
def distinctRel (X : List Row) : List Row := dedup X

/-! ## order, limit, top-N -/

/-- An ORDER BY key: expression and descending flag. -/
structure OrderKey where
  key : Row → Val
  desc : Bool := false

/-- Lexicographic comparison of two key vectors under per-key direction flags (the `cmp` of
order.rs / top_n.rs). -/
def cmpKeyVals : List Bool → List Val → List Val → Ordering
  | d :: ds, a :: as, b :: bs =>
    match Val.cmp a b with
    | .eq => cmpKeyVals ds as bs
    | o => if d then o.swap else o
  | _, _, _ => .eq

def orderCmp (ks : List OrderKey) (r s : Row) : Ordering :=
  cmpKeyVals (ks.map (·.desc)) (ks.map (·.key r)) (ks.map (·.key s))

/-- insert `x` before the first element that is strictly greater (so after its equals). -/
def insertStable {α} (cmp : α → α → Ordering) (x : α) : List α → List α
  | [] => [x]
  | y :: ys => if cmp x y == .lt then x :: y :: ys else y :: insertStable cmp x ys

/-- Stable insertion sort: elements are inserted left to right, each after its equals. -/
def sortStable {α} (cmp : α → α → Ordering) (xs : List α) : List α :=
  xs.foldl (fun acc x => insertStable cmp x acc) []

def orderRel (ks : List OrderKey) (X : List Row) : List Row := sortStable (orderCmp ks) X

/-- `LIMIT n OFFSET off` (`none` = no limit). -/
def limitRel (n : Option Nat) (off : Nat) (X : List Row) : List Row :=
  match n with
  | none => X.drop off
  | some n => (X.drop off).take n

def topNRel (n : Option Nat) (off : Nat) (ks : List OrderKey) (X : List Row) : List Row :=
  limitRel n off (orderRel ks X)

/-- `X` is sorted for a comparison: no element is followed (anywhere later) by a smaller one. -/
def SortedBy {α} (cmp : α → α → Ordering) (X : List α) : Prop :=
  X.Pairwise (fun a b => cmp a b ≠ .gt)

/-! ## correlated scalar aggregate subqueries (nested iteration)

`outer.col <cmp> (SELECT agg(e) FROM R WHERE corr)`: for EVERY outer row — duplicates included — the
subquery is evaluated on the rows of `R` that satisfy the correlation predicate together with the
outer row; the aggregate sees the concatenated rows `l ++ r`.  The value is appended as a new last
column; filtering / projecting on it is ordinary `filterRel` / `projRel`. -/

/-- value of the scalar aggregate subquery for the outer row `l`. -/
def scalarSubAgg (agg : AggCall) (corr : Pred) (R : List Row) (l : Row) : Val :=
  aggVal agg.kind (((matchesOf corr l R).map (l ++ ·)).map agg.arg)

/-- `SELECT l.*, (SELECT agg FROM R WHERE corr) FROM L l`: one output row per outer row. -/
def applyScalarAgg (agg : AggCall) (corr : Pred) (L R : List Row) : List Row :=
  L.map (fun l => l ++ [scalarSubAgg agg corr R l])

/-- the same with `GROUP BY <correlated column>` inside the subquery: an outer row without partner
has NO group, the scalar subquery is then NULL whatever the aggregate (also for COUNT). -/
def applyGroupAgg (agg : AggCall) (corr : Pred) (L R : List Row) : List Row :=
  L.map (fun l => l ++ [if (matchesOf corr l R).isEmpty then Val.null else scalarSubAgg agg corr R l])

end RlModel
