import RlModel.Model.Sexp
/-
C17 — deep-syntax model of what `executor::Builder::build_id_subscriber`
(src/executor/mod.rs) accepts.  A plan refers to its child's output BY EXPRESSION IDENTITY
(`resolve_column_index_on_schema`: an expression that occurs in the child's schema becomes a
column index, otherwise it is kept and its children are resolved; a bare column that is not in
the schema panics "column … not found from input").

Terms (`Tm`) are plans/expressions with classified atoms, so that everything is decidable by the
kernel; `ofSexp` reads the text `RecExpr: Display` prints.

* `schema`   — `rules/schema.rs analyze_schema`
* `resolve`  — `resolve_column_index_on_schema`
* `check`    — the builder's match arms: which node kinds have an executor, which of its
                `assert!`/`panic!`/`todo!()` sites a plan reaches
* `usedCols`, `produced`, `applyProjOrder` — the projection-pushdown applier `apply_proj` of
                `rules/plan.rs` for the `pushdown-proj-order` rule

Import-free besides `Sexp` (the driver links as an executable).

This file: the term language.  `Gen/Schema.lean` (regenerated from `rules/schema.rs` on every run
by `translator/gen_schema.py`): `schema`.  `Model/PlanWf.lean`: the rest.
-/
namespace RlModel.Wf
open RlModel

/-- Operator heads that matter to the builder; every other operator is `other`. -/
inductive Hd where
  | filter | order | limit | topn | empty | join | hashjoin | mergejoin | apply | scan | values
  | proj | agg | window | hashagg | sortagg | list | ref | insert | delete | copyTo | analyze
  | explain | indexScan | exists_ | in_ | max1row
  | other (code : Nat)
  deriving DecidableEq, Repr

inductive JT where
  | inner | leftOuter | rightOuter | fullOuter | semi | anti
  deriving DecidableEq, Repr

inductive Leaf where
  | tru                 -- the constant `true`
  | null
  | num (n : Nat)       -- a non-negative integer constant
  | jt (t : JT)
  | table (id : Nat)
  | other (code : Nat)  -- any other atom
  deriving DecidableEq, Repr

inductive Tm where
  | col (tbl c : Nat)          -- `$t.c`
  | leaf (l : Leaf)
  | node (h : Hd) (args : List Tm)
  deriving Repr

mutual
  def Tm.beq : Tm → Tm → Bool
    | .col a b, .col c d => a == c && b == d
    | .leaf a, .leaf b => decide (a = b)
    | .node h xs, .node k ys => decide (h = k) && Tm.beqList xs ys
    | _, _ => false
  def Tm.beqList : List Tm → List Tm → Bool
    | [], [] => true
    | x :: xs, y :: ys => Tm.beq x y && Tm.beqList xs ys
    | _, _ => false
end

instance : BEq Tm := ⟨Tm.beq⟩

def listItems : Tm → List Tm
  | .node .list xs => xs
  | _ => []

def isListNode : Tm → Bool
  | .node .list _ => true
  | _ => false

def isSemiAnti : Tm → Bool
  | .leaf (.jt .semi) => true
  | .leaf (.jt .anti) => true
  | _ => false

def isColumn : Tm → Bool
  | .col _ _ => true
  | _ => false

end RlModel.Wf
