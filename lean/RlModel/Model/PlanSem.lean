import RlModel.Model.XSem
/-
Shallow relational semantics in which the plan rewrite rules of
`src/planner/rules/{plan,order,range}.rs` are stated (C01).

RisingLight plans refer to columns *by identity*: an operator's expressions are resolved
against its child's schema by expression identity (`executor/mod.rs
resolve_column_index_on_schema`).  The model keeps exactly that view:

* a row is an environment `Env = Col → PV` giving a value to every column identity;
* an expression is a function of the environment (`Env → PV`, predicates `Env → Option Bool`);
  a plan's expressions are evaluated on the rows of its child;
* a relation is a list of environments (a bag with an order) plus `owned`, the set of base
  column identities its scans define — what `not_depend_on(e, plan)` is about — and `cols`, the
  output schema as a list of expressions; two relations are the same answer when their rows
  agree on the output schema (`Rel.out`);
* a join merges a left and a right environment: columns owned by the right side come from the
  right row.

`proj` only changes the schema; whether a referenced column is *available* is C17's subject
(well-formedness), not C01's.  Operators denote what their executors are meant to compute; that
the executors do so is C02/C11's subject and is tied by the whole-optimizer differential run.
Import-free.
-/
namespace RlModel.P

/-- SQL values of the plan semantics. -/
inductive PV where
  | null
  | b (v : Bool)
  | n (v : Int)
  | s (v : String)
  deriving DecidableEq, Inhabited, Repr

abbrev Col := Nat
abbrev Env := Col → PV
abbrev VExpr := Env → PV
abbrev BExpr := Env → Option Bool

def nullEnv : Env := fun _ => .null

/-- SQL `=` on values: NULL if either side is NULL. -/
def sqlEq : PV → PV → Option Bool
  | .null, _ => none
  | _, .null => none
  | a, b => some (decide (a = b))

/-- Key equality of the hash / merge join executors: `DataValue` equality of two non-NULL keys
(since `fix:` 9513be7 a row whose key is NULL never matches; before, NULL matched NULL). -/
def keyEq (a b : PV) : Bool := decide (a ≠ .null ∧ a = b)

def bTrue : BExpr := fun _ => some true
def bFalse : BExpr := fun _ => some false
def bAnd (a b : BExpr) : BExpr := fun ρ => X.and3 (a ρ) (b ρ)
def bOr (a b : BExpr) : BExpr := fun ρ => X.or3 (a ρ) (b ρ)
def bNot (a : BExpr) : BExpr := fun ρ => X.not3 (a ρ)
def bEq (a b : VExpr) : BExpr := fun ρ => sqlEq (a ρ) (b ρ)
def bIsNull (a : VExpr) : BExpr := fun ρ => some (decide (a ρ = .null))

/-- A predicate holds on a row iff it evaluates to TRUE (`FilterExecutor`, join conditions). -/
def holds (c : BExpr) (ρ : Env) : Bool := c ρ == some true

structure Rel where
  cols : List VExpr
  owned : Col → Bool
  rows : List Env

/-- The observable answer: every row projected on the output schema. -/
def Rel.out (r : Rel) : List (List PV) := r.rows.map fun ρ => r.cols.map fun e => e ρ

/-- `e` does not read any column in `S`. -/
def Indep {α} (e : Env → α) (S : Col → Bool) : Prop :=
  ∀ ρ ρ' : Env, (∀ x, S x = false → ρ x = ρ' x) → e ρ = e ρ'

/-- `e` reads only columns in `S`. -/
def ReadsWithin {α} (e : Env → α) (S : Col → Bool) : Prop :=
  ∀ ρ ρ' : Env, (∀ x, S x = true → ρ x = ρ' x) → e ρ = e ρ'

-- ---------------------------------------------------------------------------------------
-- unary operators
-- ---------------------------------------------------------------------------------------

def filter (c : BExpr) (r : Rel) : Rel := { r with rows := r.rows.filter (holds c) }

/-- `(empty child)`: no rows, the child's schema. -/
def empty (r : Rel) : Rel := { r with rows := [] }

def proj (es : List VExpr) (r : Rel) : Rel := { r with cols := es }

/-- `limit`: `none` = no limit (`usize::MAX / 2` in the executor). -/
def limit (n : Option Nat) (off : Nat) (r : Rel) : Rel :=
  { r with rows := match n with
      | none => r.rows.drop off
      | some k => (r.rows.drop off).take k }

/-- An order key: expression and direction. -/
structure Key where
  e : VExpr
  desc : Bool

/-- `derive(Ord)` order of `DataValue` on the modelled variants: NULL lowest, then bool, int,
string (variant rank), payload order inside a variant. -/
def pvRank : PV → Nat
  | .null => 0 | .b _ => 1 | .n _ => 2 | .s _ => 3

def pvLt : PV → PV → Bool
  | .b x, .b y => !x && y
  | .n x, .n y => decide (x < y)
  | .s x, .s y => decide (x < y)
  | a, b => decide (pvRank a < pvRank b)

/-- `ρ` sorts strictly before `σ` under the key list. -/
def keysLt : List Key → Env → Env → Bool
  | [], _, _ => false
  | k :: ks, ρ, σ =>
    let a := k.e ρ
    let b := k.e σ
    if a = b then keysLt ks ρ σ
    else if k.desc then pvLt b a else pvLt a b

/-- Stable insertion of a row that came *before* the rows of the (sorted) list: it passes
exactly the elements that sort strictly before it. -/
def insertSorted (lt : Env → Env → Bool) (x : Env) : List Env → List Env
  | [] => [x]
  | y :: ys => if lt y x then y :: insertSorted lt x ys else x :: y :: ys

/-- Stable insertion sort (the order executor sorts with a stable sort on the keys). -/
def sortRows (lt : Env → Env → Bool) : List Env → List Env
  | [] => []
  | x :: xs => insertSorted lt x (sortRows lt xs)

def order (ks : List Key) (r : Rel) : Rel := { r with rows := sortRows (keysLt ks) r.rows }

def topn (n : Option Nat) (off : Nat) (ks : List Key) (r : Rel) : Rel := limit n off (order ks r)

/-- `(window (list) child)` with no window functions adds nothing. -/
def window (r : Rel) : Rel := r

-- ---------------------------------------------------------------------------------------
-- joins
-- ---------------------------------------------------------------------------------------

inductive JoinType where
  | inner | leftOuter | rightOuter | fullOuter | semi | anti
  deriving DecidableEq, Repr

/-- Merged row of a join: columns owned by the right side come from the right row. -/
def merge (S : Col → Bool) (l r : Env) : Env := fun x => if S x then r x else l x

/-- Right rows matching a left row under `on` (evaluated on the merged row). -/
def matchesL (on : BExpr) (S : Col → Bool) (l : Env) (R : List Env) : List Env :=
  (R.map (merge S l)).filter (holds on)

def joinRows (t : JoinType) (on : BExpr) (L R : Rel) : List Env :=
  let S := R.owned
  match t with
  | .inner => L.rows.flatMap fun l => matchesL on S l R.rows
  | .leftOuter => L.rows.flatMap fun l =>
      match matchesL on S l R.rows with
      | [] => [merge S l nullEnv]
      | ms => ms
  | .semi => L.rows.filter fun l => !(matchesL on S l R.rows).isEmpty
  | .anti => L.rows.filter fun l => (matchesL on S l R.rows).isEmpty
  | .rightOuter => R.rows.flatMap fun r =>
      match (L.rows.map fun l => merge S l r).filter (holds on) with
      | [] => [merge S (fun x => if L.owned x then .null else r x) r]
      | ms => ms
  | .fullOuter =>
      (L.rows.flatMap fun l =>
        match matchesL on S l R.rows with
        | [] => [merge S l nullEnv]
        | ms => ms) ++
      (R.rows.filter fun r => ((L.rows.map fun l => merge S l r).filter (holds on)).isEmpty).map
        fun r => merge S (fun x => if L.owned x then .null else r x) r

def join (t : JoinType) (on : BExpr) (L R : Rel) : Rel :=
  { cols := if t = .semi ∨ t = .anti then L.cols else L.cols ++ R.cols
    owned := fun x => L.owned x || (if t = .semi ∨ t = .anti then false else R.owned x)
    rows := joinRows t on L R }

/-- Equality of two key lists the way the hash-join executor decides it: component-wise
`DataValue` equality of non-NULL keys. -/
def keysEq : List VExpr → List VExpr → BExpr
  | [], [] => bTrue
  | l :: ls, r :: rs => fun ρ => some (keyEq (l ρ) (r ρ) && (keysEq ls rs ρ == some true))
  | _, _ => bFalse

/-- What an operator sees of a row when it is only given the columns `S`: the hash / merge join
executors evaluate the left keys on the left input's row and the right keys on the right input's
row (`resolve_column_index(lkeys, left)`), never on the joined row. -/
def maskTo (S : Col → Bool) (ρ : Env) : Env := fun x => if S x then ρ x else .null

/-- A key list as evaluated on one input only. -/
def keysOn (S : Col → Bool) (ks : List VExpr) : List VExpr := ks.map fun e => fun ρ => e (maskTo S ρ)

/-- `hashjoin type cond lkeys rkeys left right`: the left keys (read from the left row only) match
the right keys (read from the right row only) by `DataValue` equality of non-NULL keys, then the
residual condition. `mergejoin` denotes the same relation (on sorted inputs). -/
def hashjoin (t : JoinType) (cond : BExpr) (lk rk : List VExpr) (L R : Rel) : Rel :=
  join t (fun ρ => some ((keysEq (keysOn L.owned lk) (keysOn R.owned rk) ρ == some true) && holds cond ρ)) L R

def mergejoin := hashjoin

-- ---------------------------------------------------------------------------------------
-- aggregation
-- ---------------------------------------------------------------------------------------

/-- An aggregate call: the column identity its value is published under, and its value on a
group (any function of the member rows; `count`, `sum`, … are instances). -/
structure Agg where
  col : Col
  fn : List Env → PV

def groupKey (ks : List VExpr) (ρ : Env) : List PV := ks.map fun k => k ρ

/-- Add a row (that comes BEFORE the rows grouped so far) to its group. -/
def groupInsert (ks : List VExpr) (ρ : Env) : List (List PV × List Env) → List (List PV × List Env)
  | [] => [(groupKey ks ρ, [ρ])]
  | (k, ms) :: gs => if k = groupKey ks ρ then (k, ρ :: ms) :: gs else (k, ms) :: groupInsert ks ρ gs

/-- Groups with their member rows in input order (the order of the groups themselves is not
observable: results are compared as bags). -/
def groups (ks : List VExpr) : List Env → List (List PV × List Env)
  | [] => []
  | ρ :: rest => groupInsert ks ρ (groups ks rest)

def aggRow (aggs : List Agg) (ms : List Env) : Env := fun x =>
  match aggs.find? (fun a => a.col == x) with
  | some a => a.fn ms
  | none => match ms with
    | m :: _ => m x
    | [] => .null

def hashagg (ks : List VExpr) (aggs : List Agg) (r : Rel) : Rel :=
  { cols := ks ++ aggs.map fun a => fun ρ => ρ a.col
    owned := fun x => r.owned x || aggs.any fun a => a.col == x
    rows := (groups ks r.rows).map fun g => aggRow aggs g.2 }

def sortagg := hashagg

/-- Scalar aggregation: exactly one output row, also for an empty input. -/
def agg (aggs : List Agg) (r : Rel) : Rel :=
  { cols := aggs.map fun a => fun ρ => ρ a.col
    owned := fun x => r.owned x || aggs.any fun a => a.col == x
    rows := [aggRow aggs r.rows] }

end RlModel.P

namespace RlModel.P

/-- `scan table columns filter`: the storage scan with a pushed-down range filter returns
exactly the table's rows satisfying it.  This *is* the scan contract that C13 decides about the
storage engine; C01's `filter-scan` rules are stated relative to it. -/
def scan (base : Rel) (f : BExpr) : Rel := filter f base

/-- Same answer, same order. -/
def RelEq (a b : Rel) : Prop := a.out = b.out

/-- Same answer as a bag. -/
def RelPerm (a b : Rel) : Prop := List.Perm a.out b.out

end RlModel.P

-- ---------------------------------------------------------------------------------------
-- correlated sub-plans (`apply`, `exists`, `in`): planner/rules/plan.rs subquery_rules
-- ---------------------------------------------------------------------------------------
namespace RlModel.P

/-- A correlated sub-plan — the right input of `apply`, the argument of `exists` / `in`: its rows
depend on the outer row.  (The executor cannot run these nodes: their meaning is the SQL meaning
of a correlated subquery, evaluated once per outer row.) -/
structure DRel where
  cols : List VExpr
  owned : Col → Bool
  rows : Env → List Env

/-- Rows of a correlated sub-plan extend the outer row: outside the columns the sub-plan itself
defines they carry the outer row's values — that is how an expression inside the subquery reads
an outer column. -/
def DRel.Extends (R : DRel) : Prop :=
  ∀ l, ∀ r ∈ R.rows l, ∀ x, R.owned x = false → r x = l x

/-- A plan that does not read the outer row, used as a sub-plan. -/
def lift (R : Rel) : DRel :=
  { cols := R.cols, owned := R.owned, rows := fun l => R.rows.map (merge R.owned l) }

def dfilter (c : BExpr) (R : DRel) : DRel := { R with rows := fun l => (R.rows l).filter (holds c) }

def dproj (es : List VExpr) (R : DRel) : DRel := { R with cols := es }

def dhashagg (ks : List VExpr) (aggs : List Agg) (R : DRel) : DRel :=
  { cols := ks ++ aggs.map fun a => fun ρ => ρ a.col
    owned := fun x => R.owned x || aggs.any fun a => a.col == x
    rows := fun l => (groups ks (R.rows l)).map fun g => aggRow aggs g.2 }

/-- The one output row of a scalar aggregation inside a subquery: the aggregates' columns, and
the outer row's values elsewhere (also when there is no input row). -/
def aggRowD (outer : Env) (aggs : List Agg) (ms : List Env) : Env := fun x =>
  match aggs.find? (fun a => a.col == x) with
  | some a => a.fn ms
  | none => outer x

def dagg (aggs : List Agg) (R : DRel) : DRel :=
  { cols := aggs.map fun a => fun ρ => ρ a.col
    owned := fun x => R.owned x || aggs.any fun a => a.col == x
    rows := fun l => [aggRowD l aggs (R.rows l)] }

/-- The join types an `apply` node is ever built with: the binder builds `left_outer` applies
(scalar subqueries), the subquery rules build `semi`, `anti` and `inner` ones (the translator
re-checks both in the source). -/
def ApplyType (t : JoinType) : Prop := t = .inner ∨ t = .leftOuter ∨ t = .semi ∨ t = .anti

/-- `(apply type left right)`: for every left row, the rows of the sub-plan evaluated for it. -/
def apply (t : JoinType) (L : Rel) (R : DRel) : Rel :=
  { cols := if t = .semi ∨ t = .anti then L.cols else L.cols ++ R.cols
    owned := fun x => L.owned x || (if t = .semi ∨ t = .anti then false else R.owned x)
    rows := match t with
      | .inner => L.rows.flatMap fun l => R.rows l
      | .leftOuter => L.rows.flatMap fun l =>
          match R.rows l with
          | [] => [merge R.owned l nullEnv]
          | ms => ms
      | .semi => L.rows.filter fun l => !(R.rows l).isEmpty
      | .anti => L.rows.filter fun l => (R.rows l).isEmpty
      | _ => [] }

/-- `(exists subquery)` on an outer row. -/
def dexists (S : DRel) : BExpr := fun ρ => some (!(S.rows ρ).isEmpty)

/-- First output column of a sub-plan. -/
def col0 (S : DRel) : VExpr := S.cols.headD (fun _ => .null)

/-- SQL `e IN (subquery)`: TRUE if some row's first column equals `e`; otherwise NULL if `e` or
one of them is NULL (and there is a row); otherwise FALSE. -/
def din (e : VExpr) (S : DRel) : BExpr := fun ρ =>
  let vs := (S.rows ρ).map fun r => sqlEq (e ρ) (col0 S r)
  if vs.any (· == some true) then some true
  else if vs.any (· == none) then none
  else some false

end RlModel.P

